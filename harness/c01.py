"""C01 — script functions mean the same eagerly, as an ONNX graph, and as plain Python.

Proof obligations: lean/OV/Props/C01.lean  (model: OV/Model/C01Script, C01Graph, C01Convert).
Tie: correspondence.  Every generated program (typed grammar, harness/c01_gen.py) is decorated by
the REAL `script()`; `to_function_proto()` is canonicalised (alpha-renaming by first occurrence)
and compared with the graph the Lean model `convert` emits for the same `ast` (S-expression line
to the compiled driver); refusals must agree in exception class.  The property's own oracle runs on
every accepted program: eager call vs onnxruntime on `to_model_proto()` vs onnxruntime on a model
that *calls* `to_function_proto()` vs an independent NumPy interpreter of the source, on several
inputs (rank 0-3, size-0/1 dims).

C02 (harness/c02.py) reuses `Pipeline` and adds the checker / scope-walker / near-miss side.
"""
from __future__ import annotations

import json
import time
from collections import Counter

import numpy as np

from harness import core, scriptgen
from harness import c01_enc as enc
from harness import c01_gen as gen
from harness import c01_eager

PROP_MODULES = ["OV.Props.C01"]
HEADER_EXTRA = "from typing import Tuple\nfrom onnxscript import opset11, opset12, opset13\n" + gen.HELPERS_SRC
CORPUS = core.VERIF / "harness" / "corpus_c01.jsonl"


# --------------------------------------------------------------------------- running things


_ORT_PATCHED = False


def _ort():
    """onnxruntime with logging off and single-threaded sessions (also for the sessions eager mode creates:
    a default-constructed session spawns one thread per core, which dominates the run time)."""
    global _ORT_PATCHED
    import onnxruntime as ort

    if not _ORT_PATCHED:
        ort.set_default_logger_severity(4)
        orig = ort.InferenceSession.__init__

        def init(self, path_or_bytes, sess_options=None, *a, **kw):
            if sess_options is None:
                sess_options = ort.SessionOptions()
                sess_options.intra_op_num_threads = 1
                sess_options.inter_op_num_threads = 1
                sess_options.log_severity_level = 4
            return orig(self, path_or_bytes, sess_options, *a, **kw)

        ort.InferenceSession.__init__ = init
        _ORT_PATCHED = True
    return ort


def ort_run(model_bytes: bytes, feeds: dict):
    ort = _ort()
    so = ort.SessionOptions()
    so.graph_optimization_level = ort.GraphOptimizationLevel.ORT_DISABLE_ALL
    so.log_severity_level = 4
    so.intra_op_num_threads = 1
    so.inter_op_num_threads = 1
    sess = ort.InferenceSession(model_bytes, so, providers=["CPUExecutionProvider"])
    return sess


def type_proto(ty: str, shape):
    import onnx
    from onnx import helper, TensorProto

    et = {"T": TensorProto.FLOAT, "S": TensorProto.FLOAT, "B": TensorProto.BOOL, "I": TensorProto.INT64,
          "M": TensorProto.BOOL, "N": TensorProto.INT64}[ty]
    return helper.make_tensor_type_proto(et, list(shape) if ty in ("T", "M", "N") else [])


class _Ty:
    def __init__(self, tp):
        self.tp = tp

    def to_type_proto(self):
        return self.tp


def wrapper_model(fn, meta, attrs: dict):
    """A model whose single node *calls* fn's FunctionProto."""
    import onnx
    from onnx import helper

    fp = fn.to_function_proto()
    fps = [fp]
    for f in fn.function_ir.get_called_functions().values():
        fps.append(f.to_function_proto())
    ins = [n for n, _ in meta["params"]]
    outs = [f"out{i}" for i in range(len(fp.output))]
    kw = {}
    for n, kd, d in meta["attrs"]:
        if n in attrs:
            kw[n] = int(attrs[n]) if kd in ("bool", "int") else float(attrs[n])
    node = helper.make_node(fp.name, ins, outs, domain=fp.domain, **kw)
    gi = [helper.make_value_info(n, type_proto(t, meta["shape"])) for n, t in meta["params"]]
    go = [helper.make_value_info(o, type_proto(t, meta["shape"])) for o, (_, t) in zip(outs, meta["rets"])]
    # outputs typed loosely: shapes of outputs are left to the runtime
    for vi in go:
        vi.type.tensor_type.ClearField("shape")
    g = helper.make_graph([node], "wrap", gi, go)
    imports = [helper.make_opsetid("", 18), helper.make_opsetid(fp.domain, 1)]
    m = helper.make_model(g, functions=fps, opset_imports=imports, ir_version=10)
    return m


def norm_outputs(out) -> list[np.ndarray]:
    if out is None:
        return []
    if not isinstance(out, (tuple, list)):
        out = [out]
    res = []
    for o in out:
        v = getattr(o, "value", o)
        res.append(np.asarray(v))
    return res


def same_outputs(a: list[np.ndarray], b: list[np.ndarray]) -> str | None:
    if len(a) != len(b):
        return f"count {len(a)} vs {len(b)}"
    for i, (x, y) in enumerate(zip(a, b)):
        if x.dtype != y.dtype:
            return f"output {i}: dtype {x.dtype} vs {y.dtype}"
        if x.shape != y.shape:
            return f"output {i}: shape {x.shape} vs {y.shape}"
        if x.dtype.kind == "f":
            if not np.allclose(x, y, rtol=1e-4, atol=1e-5, equal_nan=True):
                return f"output {i}: values {x.reshape(-1)[:6].tolist()} vs {y.reshape(-1)[:6].tolist()}"
        elif not np.array_equal(x, y):
            return f"output {i}: values {x.reshape(-1)[:6].tolist()} vs {y.reshape(-1)[:6].tolist()}"
    return None


def meta_of(p: gen.Prog) -> dict:
    return {"name": p.name, "shape": list(p.shape), "params": [list(x) for x in p.params],
            "attrs": [list(x) for x in p.attrs], "rets": [list(x) for x in p.rets], "src": p.src,
            "features": sorted(p.features)}


def semantic_oracle(fn, meta: dict, input_sets, stats: Counter) -> list[dict]:
    """The property's oracle on one accepted program.  Returns failures
    [{voices:{...}, what, feeds, attrs}]; an empty list means all voices agree on all inputs."""
    failures = []
    has_attr = bool(meta["attrs"])
    # to_model_proto exports a function whose attribute parameters all have defaults (with the defaults)
    exportable = all(len(a) > 2 and a[2] is not None for a in meta["attrs"])
    rets = meta["rets"]
    sessions = {}
    model_err = None
    if exportable:
        try:
            out_types = [_Ty(type_proto(t, meta["shape"])) for _, t in rets]
            for tp in out_types:
                tp.tp.tensor_type.ClearField("shape")
            mp = fn.to_model_proto(output_types=out_types)
            sessions["model"] = ort_run(mp.SerializeToString(), {})
        except Exception as e:  # an accepted program whose model the runtime rejects
            model_err = f"{type(e).__name__}: {str(e)[:200]}"
    for feeds, attrs in input_sets:
        voices = {}
        tensors = [feeds[n] for n, _ in meta["params"]]
        # 1. plain Python over NumPy (independent interpreter of the source)
        try:
            voices["numpy"] = norm_outputs(gen.numpy_run(meta["src"], feeds, attrs, [n for n, _ in meta["params"]],
                                                         free=gen.free_env(meta)))
        except Exception as e:
            voices["numpy"] = f"ERR {type(e).__name__}: {str(e)[:120]}"
        # 2. eager
        try:
            voices["eager"] = norm_outputs(fn(*tensors, **attrs))
        except Exception as e:
            voices["eager"] = f"ERR {type(e).__name__}: {str(e)[:120]}"
        # 3. model proto on onnxruntime
        if exportable and not attrs:
            if model_err:
                voices["model"] = "ERR " + model_err
            else:
                try:
                    voices["model"] = [np.asarray(x) for x in sessions["model"].run(None, feeds)]
                except Exception as e:
                    voices["model"] = f"ERR {type(e).__name__}: {str(e)[:160]}"
        # 4. a model that calls the FunctionProto
        try:
            key = json.dumps(attrs, sort_keys=True)
            if key not in sessions:
                wm = wrapper_model(fn, meta, attrs)
                sessions[key] = ort_run(wm.SerializeToString(), {})
            voices["call"] = [np.asarray(x) for x in sessions[key].run(None, feeds)]
        except Exception as e:
            voices["call"] = f"ERR {type(e).__name__}: {str(e)[:160]}"
        stats["oracle_evaluations"] += 1
        ref = voices["numpy"]
        what = None
        if isinstance(ref, str):
            # the source is not defined on this input as plain Python (e.g. NameError): every voice may differ
            stats["oracle_numpy_undefined"] += 1
            continue
        for v in ("eager", "model", "call"):
            if v not in voices:
                continue
            if isinstance(voices[v], str):
                what = f"{v} fails ({voices[v]}) where plain Python returns a result"
                break
            d = same_outputs(ref, voices[v])
            if d:
                what = f"{v} differs from plain Python: {d}"
                break
        if what:
            failures.append({
                "what": what,
                "feeds": {k: np.asarray(v).tolist() for k, v in feeds.items()},
                "attrs": attrs,
                "voices": {k: (v if isinstance(v, str) else [x.tolist() for x in v]) for k, v in voices.items()},
            })
    return failures


# --------------------------------------------------------------------------- pipeline


class Pipeline:
    """Compile a batch with the real `script()`, ask the Lean model, diff."""

    def __init__(self, run: core.Run):
        self.run = run
        # the driver was built under the shared lock by `run_batches` before the workers started; taking the lock again
        # in every worker only queues behind other people's builds (observed: batches timing out on a busy machine)
        self.drv = c01_eager.model_driver()
        self.stats: Counter = Counter()
        self.features: Counter = Counter()
        self.tie_broken: list[dict] = []
        self.modnames: list[str] = []

    def close(self):
        for m in self.modnames:
            scriptgen.release(m)

    def compile(self, items: list[tuple[str, str]]):
        """items: [(name, src)] -> (FN, ERR)"""
        fn, err, modname = scriptgen.compile_functions(items, header_extra=HEADER_EXTRA)
        self.modnames.append(modname)
        return fn, err

    def model_answers(self, srcs: list[str], envs: list | None = None) -> list[str]:
        lines = []
        idx = []
        out = [""] * len(srcs)
        for i, s in enumerate(srcs):
            try:
                lines.append("convert " + enc.encode_function(s, functions=gen.HELPER_PARAMS,
                                                              env=envs[i] if envs else None))
                idx.append(i)
            except enc.Unmodelled as e:
                out[i] = f"unmodelled {e}"
        for i, a in zip(idx, self.drv.ask(lines)):
            out[i] = a
        return out

    def compare(self, name: str, src: str, fn, err, answer: str) -> dict:
        """One program: structure / refusal correspondence.  Returns a record."""
        rec = {"name": name, "src": src, "tie": "ok", "accepted": name in fn}
        if answer.startswith("unmodelled"):
            rec["tie"] = "unmodelled"
            if name in err:
                rec["refusal"] = err[name][0]   # the crash oracle still needs the exception class
            return rec
        if answer.startswith("bad-"):
            raise core.Infra(f"driver could not read the program: {answer}: {src}")
        if name in err:
            cls = err[name][0]
            rec["refusal"] = cls
            if answer.startswith("err "):
                if answer[4:] != cls:
                    rec["tie"] = f"refusal class differs: real {cls} ({err[name][1][:100]}) model {answer[4:]}"
            else:
                rec["tie"] = f"real refuses ({cls}: {err[name][1][:120]}) but the model translates"
            return rec
        if answer.startswith("err "):
            rec["tie"] = f"real accepts but the model refuses ({answer[4:]})"
            return rec
        _, wf, gtxt = answer.split(" ", 2)
        fp = fn[name].to_function_proto()
        real = enc.proto_to_neutral(fp)
        model = enc.lean_to_neutral(gtxt)
        rec["real_neutral"] = real
        rec["model_wf"] = wf
        cr, cm = enc.canonical(real), enc.canonical(model)
        if cr != cm:
            rec["tie"] = "emitted graph differs"
            rec["real_canon"] = cr
            rec["model_canon"] = cm
        return rec


def export_tie(pipe, m: dict, f) -> str | None:
    """Correspondence of `exportModel` with `OnnxFunction.to_model_proto` on one program; None = equal."""
    ds = " ".join(enc.sx(n, enc.attr_const_text(d)) for n, _, d in m["attrs"])
    line = "export " + enc.sx("withdefaults", "(defaults " + ds + ")",
                              enc.encode_function(m["src"], functions=gen.HELPER_PARAMS, env=gen.lean_env(m)))
    ans = pipe.drv.ask([line])[0]
    try:
        mp = f.to_model_proto()
    except Exception as e:
        return None if ans.startswith("err ") else f"to_model_proto() raises {type(e).__name__} but the model exports"
    if not ans.startswith("ok "):
        return f"to_model_proto() succeeds but the model answers {ans[:60]}"
    _, wf, refs, gtxt = ans.split(" ", 3)
    real = enc.proto_to_neutral(mp.graph)
    model = enc.lean_to_neutral(gtxt)
    if refs != "norefs":
        return "the model's exported graph still refers to an attribute parameter"
    cr, cm = enc.canonical(real), enc.canonical(model)
    if cr != cm:
        return f"exported main graph differs: real {cr[:300]} model {cm[:300]}"
    return None


def count_constructs(src: str, stats: Counter):
    import ast as _ast

    for n in _ast.walk(_ast.parse(src)):
        k = type(n).__name__
        if k in ("If", "For", "While", "Break", "Assign", "Return", "BinOp", "Compare", "UnaryOp", "Call"):
            stats["ast_" + k] += 1


# --------------------------------------------------------------------------- corpus (known findings' witnesses)


def load_corpus() -> list[dict]:
    if not CORPUS.exists():
        return []
    return [json.loads(l) for l in CORPUS.read_text().splitlines() if l.strip()]


def feeds_from_json(d: dict, meta: dict) -> dict:
    out = {}
    for n, t in meta["params"]:
        dt = {"T": np.float32, "S": np.float32, "B": np.bool_, "I": np.int64, "N": np.int64}[t]
        out[n] = np.array(d[n], dtype=dt)
    return out


# --------------------------------------------------------------------------- batch worker


# exception classes script() raises on purpose (converter.fail / unsupported construct / arity / type checks)
DELIBERATE_REFUSALS = {"TranslationError", "ValueError", "SyntaxError", "TypeError"}


def structural_oracle(fn, meta: dict, real_neutral, stats: Counter) -> list[str]:
    """C02's oracle on one accepted program (filled in by harness/c02.py)."""
    return []


def process_batch(task: dict) -> dict:
    """Runs in a worker process: compile the batch with the real script(), ask the Lean model, diff,
    run the oracles.  Everything returned is JSON-able."""
    import random

    _ort()
    progs = task["progs"]
    rng = random.Random(task["seed"])
    run = None
    pipe = Pipeline(run)
    stats = pipe.stats
    out = {"ties": [], "prop_failures": [], "struct_failures": [], "refusals": []}
    try:
        fn, err = pipe.compile([(m["name"], gen.wrapped_source(m)) for m in progs])
        answers = pipe.model_answers([m["src"] for m in progs], [gen.lean_env(m) for m in progs])
        wf_lines, wf_idx = [], []
        recs = []
        # hypothesis of `liveness_sound`: the model's fuel-bounded liveness fixpoints have converged
        st_lines, st_idx = [], []
        for m, ans in zip(progs, answers):
            if ans.startswith("ok ") and not m.get("near_miss"):
                st_lines.append("stable " + enc.encode_function(m["src"], functions=gen.HELPER_PARAMS,
                                                                env=gen.lean_env(m)))
                st_idx.append(m)
        for m, a in zip(st_idx, pipe.drv.ask([l.replace("stable ", "fragment ", 1) for l in st_lines])):
            # which refinement theorem covers the accepted program (Lean decides: straightLine / ifLine / forLine /
            # nestLine; `attrval` = an attribute parameter is read as a value, `attrs` = one is re-bound under control
            # flow, `none` = outside every proved fragment: break below top level, literal assignment beside control flow)
            stats["refinement_theorem_" + a] += 1
            stats["accepted_programs_classified"] += 1
            if a in ("straight", "if", "loop", "nested"):
                stats["accepted_programs_in_a_proved_fragment"] += 1
        for m, a in zip(st_idx, pipe.drv.ask(st_lines)):
            stats["liveness_fixpoints_checked"] += 1
            if a != "true":
                out["ties"].append({"meta": m, "tie": "the model's liveness fixpoint iteration did not converge within its fuel",
                                    "real": None, "model": None})
        for m, ans in zip(progs, answers):
            rec = pipe.compare(m["name"], m["src"], fn, err, ans)
            recs.append(rec)
            stats["programs"] += 1
            count_constructs(m["src"], stats)
            for f in m.get("features", []):
                pipe.features[f] += 1
            if not m.get("near_miss"):
                try:
                    import ast as _ast

                    _fn = next(n for n in _ast.parse(m["src"]).body if isinstance(n, _ast.FunctionDef))
                    for fid, pr in gen.FIXED_PREDICATES.items():
                        if pr(_fn):
                            stats["region_of_fixed_" + fid] += 1
                except Exception:
                    pass
            if m.get("near_miss"):
                stats["near_miss_programs"] += 1
                stats["near_miss_" + m["near_miss"]] += 1
            if rec["tie"] == "unmodelled":
                stats["unmodelled"] += 1
            elif rec["tie"] != "ok":
                out["ties"].append({"meta": m, "tie": rec["tie"], "real": rec.get("real_canon"), "model": rec.get("model_canon")})
            if not rec["accepted"]:
                stats["refused"] += 1
                stats["refused_" + rec.get("refusal", "?")] += 1
                out["refusals"].append({"meta": m, "cls": rec.get("refusal"), "msg": err[m["name"]][1][:200]})
                if task.get("structural") and rec.get("refusal") not in DELIBERATE_REFUSALS:
                    # C02: a program is translated or REFUSED; an internal error of the converter is neither
                    out["struct_failures"].append({"meta": m, "what": (
                        f"script() crashes with {rec.get('refusal')} ({err[m['name']][1][:120]}) instead of translating "
                        "the program or refusing it with TranslationError / ValueError / SyntaxError / TypeError")})
                continue
            stats["accepted"] += 1
            stats["traces"] += 1
            if m.get("near_miss"):
                out["struct_failures"].append({"meta": m, "what": f"near-miss program ({m['near_miss']}) was accepted "
                                               "instead of being refused at decoration time", "near_miss_accepted": True})
            if rec["tie"] == "ok" and m["attrs"] and not m.get("near_miss") \
                    and all(len(a) > 2 and a[2] is not None for a in m["attrs"]):
                # `to_model_proto()` of a function whose attribute parameters all have defaults: the main graph the
                # Lean `exportModel` predicts vs the one in the real ModelProto (defaults substituted, no references)
                exp = export_tie(pipe, m, fn[m["name"]])
                stats["export_ties"] += 1
                if exp:
                    out["ties"].append({"meta": m, "tie": exp, "real": None, "model": None})
            if task.get("semantic", True) and not m.get("near_miss") and rec["tie"] not in ("ok", "unmodelled") \
                    and not task.get("search"):
                # model != implementation on this program: the oracle is run by the guarded search (a graph the
                # model does not predict may also be one the runtime does not survive)
                continue
            if task.get("semantic", True) and not m.get("near_miss"):
                if "inputs" in m:
                    sets = [(feeds_from_json(i["feeds"], m), i.get("attrs", {})) for i in m["inputs"]]
                else:
                    sets = gen.gen_inputs(rng, [tuple(x) for x in m["params"]], [tuple(x) for x in m["attrs"]],
                                          tuple(m["shape"]), task["n_inputs"])
                for f in semantic_oracle(fn[m["name"]], m, sets, stats):
                    out["prop_failures"].append({"meta": m, **f})
            if task.get("structural", False) and (rec["tie"] in ("ok", "unmodelled") or task.get("search")):
                from harness import c02

                for what in c02.structural_oracle(fn[m["name"]], m, rec.get("real_neutral"), stats):
                    out["struct_failures"].append({"meta": m, "what": what})
                if rec.get("real_neutral") is None and rec["tie"] == "unmodelled":
                    # outside the Lean converter model (subscripts, nested defs): the verified checker still
                    # applies to the real proto when it consists of op / If / Loop nodes only
                    try:
                        nt = enc.proto_to_neutral(fn[m["name"]].to_function_proto())
                        if not enc.has_generic(nt):
                            rec["real_neutral"] = nt
                    except Exception:
                        pass
                if rec.get("real_neutral") is not None:
                    wf_lines.append("wf " + enc.neutral_to_sexp(rec["real_neutral"]))
                    wf_idx.append(m)
                    if rec.get("model_wf", "true") != "true":
                        out["struct_failures"].append({"meta": m, "what": "the model's own graph is not well-formed: " + rec["model_wf"]})
        if wf_lines:
            for m, a in zip(wf_idx, pipe.drv.ask(wf_lines)):
                stats["verified_wf_checks_on_real_protos"] += 1
                if a != "true":
                    out["struct_failures"].append({"meta": m, "what": "verified checker wfGraph rejects the real proto: " + a})
    finally:
        pipe.close()
    out["stats"] = dict(stats)
    out["features"] = dict(pipe.features)
    return out


def run_batches(run: core.Run, tasks: list[dict], workers: int) -> list[dict]:
    import concurrent.futures as cf
    import multiprocessing as mp

    if not tasks:
        return []
    core.Driver("C01")  # build the driver once, under the lock, before the workers start
    if workers <= 1 or len(tasks) == 1:
        return [process_batch(t) for t in tasks]
    ctx = mp.get_context("spawn")
    ex = cf.ProcessPoolExecutor(max_workers=workers, mp_context=ctx)
    try:
        results = list(ex.map(process_batch, tasks, timeout=run.size(300, 2400)))
        ex.shutdown(wait=True)
        return results
    except cf.TimeoutError as e:
        # a worker that never returns (e.g. the decorator itself loops) must not keep the check alive
        procs = list(getattr(ex, "_processes", {}).values())
        ex.shutdown(wait=False, cancel_futures=True)
        for p in procs:
            try:
                p.kill()
            except Exception:
                pass
        raise core.Infra("batch workers timed out (a batch did not return: decoration, the runtime or the "
                         "model driver does not terminate on some generated program)") from e
    except cf.process.BrokenProcessPool as e:
        raise core.Infra(f"a batch worker died: {e}") from e


def _search_child(task: dict, q) -> None:
    try:
        q.put(process_batch(task))
    except Exception as e:  # pragma: no cover
        q.put({"error": f"{type(e).__name__}: {e}"})


def guarded_search(run: core.Run, ties: list[dict], semantic: bool, structural: bool, limit: int = 10,
                   timeout_s: int = 40) -> tuple[list[dict], list[dict], Counter]:
    """Search phase for programs on which model and implementation disagree: run the property's oracle on each
    (more inputs), one child process per program, killed after `timeout_s` (a hang is recorded, it is neither a
    pass nor by itself a failing input)."""
    import multiprocessing as mp

    ctx = mp.get_context("spawn")
    pf: list[dict] = []
    sf: list[dict] = []
    stats: Counter = Counter()
    todo = sorted(ties, key=lambda t: len(t["meta"]["src"]))[:limit]
    for t in todo:
        if not t["meta"].get("params") or t["meta"].get("near_miss"):
            continue
        q = ctx.Queue()
        task = {"progs": [t["meta"]], "seed": run.rng.randrange(1 << 30), "n_inputs": 6, "semantic": semantic,
                "structural": structural, "search": True}
        pr = ctx.Process(target=_search_child, args=(task, q))
        pr.start()
        try:
            res = q.get(timeout=timeout_s)
        except Exception:
            res = None
        pr.join(timeout=2)
        if pr.is_alive():
            pr.kill()
        stats["search_programs"] += 1
        if res is None:
            stats["search_timeouts"] += 1
            continue
        if "error" in res:
            stats["search_errors"] += 1
            continue
        pf += res["prop_failures"]
        sf += res["struct_failures"]
    return pf, sf, stats


def merge(results: list[dict]):
    stats: Counter = Counter()
    features: Counter = Counter()
    ties, pf, sf, refusals = [], [], [], []
    for r in results:
        stats.update(r["stats"])
        features.update(r["features"])
        ties += r["ties"]
        pf += r["prop_failures"]
        sf += r["struct_failures"]
        refusals += r["refusals"]
    return stats, features, ties, pf, sf, refusals


def generate_tasks(run: core.Run, n_prog: int, n_inputs: int, per_batch: int, subscripts: bool = False,
                   prefix: str = "f", **flags) -> tuple[list[dict], list[dict]]:
    seen = set()
    progs = []
    tries = 0
    while len(progs) < n_prog and tries < n_prog * 3:
        tries += 1
        p = gen.generate(run.rng, f"{prefix}{len(progs)}", subscripts=subscripts)
        if subscripts and "subscript" not in p.features:
            continue
        if p.src in seen:
            continue
        seen.add(p.src)
        progs.append(meta_of(p))
    tasks = []
    for k in range(0, len(progs), per_batch):
        tasks.append({"progs": progs[k:k + per_batch], "seed": run.rng.randrange(1 << 30), "n_inputs": n_inputs, **flags})
    return tasks, progs


def workers_for(run: core.Run) -> int:
    import os

    n = os.cpu_count() or 2
    return max(1, min(int(os.environ.get("VERIF_WORKERS", "6")), n - 1))


def split_known(run: core.Run, failures: list[dict], findings: dict) -> list[dict]:
    """Failures inside the predicate of an open known finding are reported as KNOWN-FINDING; the rest returned."""
    rest = []
    seen: Counter = Counter()
    for f in failures:
        known = [k for k in gen.classify_known(f["meta"]["src"]) + f["meta"].get("finding_ids", []) if k in findings
                 and (k not in gen.FAILURE_FILTER or any(t in f["what"] for t in gen.FAILURE_FILTER[k]))]
        if known:
            seen[known[0]] += 1
            if seen[known[0]] == 1:
                run.known(known[0], f"{findings[known[0]]['what'][:160]} :: {f['what'][:200]}")
        else:
            rest.append(f)
    return rest


# --------------------------------------------------------------------------- main


def main(run: core.Run) -> None:
    run.assumptions += [
        "A-op: every ONNX operator other than If/Loop/Identity/Constant is an uninterpreted function of its "
        "inputs and attributes; onnxruntime CPU (optimisations off) is the runtime results are observed on",
        "type annotations are erased in the model; promotion of literals is CastLike to the sibling operand "
        "sharing a type variable of the operator schema (read from the installed onnx schemas)",
        "nested function definitions (@graph) and subscripts with tensor-valued indices are outside the model; for "
        "constant subscripts the model has the emitted structure only (their meaning: C11)",
        "A-py: CPython's ast / inspect.getsource",
    ]
    audit = run.prove(PROP_MODULES)
    findings = {f["id"]: f for f in run.open_findings()}

    if run.replay_path:
        body = json.loads(open(run.replay_path).read())
        case = body["case"]
        if case.get("meta", {}).get("kind") in ("eager-call", "separate-call"):
            eg = c01_eager.replay(case) if case["meta"]["kind"] == "eager-call" else c01_eager.replay_separate(case)
            for t in eg["ties"]:
                print("REPLAY tie:", t["tie"])
            for f in eg["failures"] + eg["known"]:
                print("REPLAY property:", f["what"])
            eager_verdict(run, eg, findings)
            run.coverage.update(evaluations=1, distinct_nontrivial=1)
            return
        m = dict(case["meta"])
        if case.get("feeds"):
            m["inputs"] = [{"feeds": case["feeds"], "attrs": case.get("attrs") or {}}]
        res = run_batches(run, [{"progs": [m], "seed": 1, "n_inputs": 4}], 1)
        stats, features, ties, pf, sf, refusals = merge(res)
        for t in ties:
            print("REPLAY tie:", t["tie"])
        for f in pf:
            print("REPLAY property:", f["what"])
        pf = split_known(run, pf, findings)
        if pf:
            run.violation({"meta": m, "what": pf[0]["what"]}, "replayed case still fails: " + pf[0]["what"])
        elif ties:
            run.violation({"meta": m, "tie": ties[0]["tie"]}, "replayed correspondence still broken: " + ties[0]["tie"], no_input=True)
        run.coverage.update(evaluations=stats["oracle_evaluations"], distinct_nontrivial=1)
        return

    n_prog = run.size(480, 4000)
    n_inputs = run.size(3, 5)
    drift = core.fingerprint_drift("C01", "onnxscript/_internal/converter.py", FINGERPRINT_FUNCS) + \
        core.fingerprint_drift("C01", "onnxscript/_internal/analysis.py", FINGERPRINT_ANALYSIS)
    run.coverage["fingerprint_drift"] = drift
    if drift and run.tier == "quick":
        n_prog = int(n_prog * 1.5)
    corpus = load_corpus()
    tasks, progs = generate_tasks(run, n_prog, n_inputs, 20)
    # dedicated streams: script functions made by factories (closure variables vs module globals), two opset
    # versions in one function (Softmax 11 vs 13), inner loops whose trip count shrinks to zero
    extra = [gen.closure_program(run.rng, f"c{k}") for k in range(run.size(60, 400))]
    extra += [gen.mixed_opset_program(run.rng, f"m{k}") for k in range(run.size(24, 160))]
    nests = [gen.shrinking_nest_program(run.rng, f"t{k}") for k in range(run.size(30, 240))]
    extra += [gen.name_collision_program(run.rng, f"u{k}") for k in range(run.size(40, 300))]
    # round-3 classes: keyword inputs, static `if` on a name of the surroundings, break with else, first output
    extra += [gen.keyword_input_program(run.rng, f"k{k}", k) for k in range(run.size(16, 120))]
    extra += [gen.const_if_program(run.rng, f"s{k}", k) for k in range(run.size(16, 120))]
    extra += [gen.break_else_program(run.rng, f"b{k}") for k in range(run.size(4, 30))]
    extra += [gen.first_output_program(run.rng, f"o{k}") for k in range(run.size(3, 20))]
    extra += [gen.nested_callee_program(run.rng, f"h{k}") for k in range(run.size(4, 30))]
    seen_src = set()
    extra = [m for m in extra if not (m["src"] in seen_src or seen_src.add(m["src"]))]
    for k in range(0, len(extra), 20):
        tasks.append({"progs": extra[k:k + 20], "seed": run.rng.randrange(1 << 30), "n_inputs": n_inputs})
    nest_inputs = [{"feeds": {"A": [1.0, 2.0, 3.0], "n": n}} for n in (0, 1, 2, 3, 4)]
    for m in nests:
        m["inputs"] = nest_inputs
    for k in range(0, len(nests), 20):
        tasks.append({"progs": nests[k:k + 20], "seed": run.rng.randrange(1 << 30), "n_inputs": n_inputs})
    if corpus:
        tasks.insert(0, {"progs": corpus, "seed": 7, "n_inputs": 3})
    results = run_batches(run, tasks, workers_for(run))
    stats, features, ties, pf, sf, refusals = merge(results)
    stats["corpus_programs"] = len(corpus)
    for m in progs[:4]:
        run.sample({"src": m["src"]})
    if ties:
        spf, _, sstats = guarded_search(run, ties, semantic=True, structural=False)
        pf += spf
        stats.update(sstats)
    pf = split_known(run, pf, findings)
    # the eager calling convention (eval_function / tag_arguments_with_signature / _adapt_to_*): real vs Lean model vs
    # the plain-Python reading of the call, on real signatures (theorem `eager_is_python`)
    eg = c01_eager.stream(run, run.size(12, 80), run.size(14, 40))
    for k, v in eg["stats"].items():
        stats[k] = stats.get(k, 0) + v
    eager_verdict(run, eg, findings)
    # `separate_input_attributes_from_arguments` (inputs by position / attributes of a call expression) on real operator
    # signatures: real vs Lean (`separate`) vs the closed form of `separate_inputs_attributes_spec`
    sp = c01_eager.separate_stream(run, run.size(300, 3000))
    for k, v in sp["stats"].items():
        stats[k] = stats.get(k, 0) + v
    eager_verdict(run, sp, findings, what="separate_input_attributes_from_arguments",
                  broken="correspondence OV.C01.Eager.separate vs param_manipulation.separate_input_attributes_from_arguments")
    # a corpus witness is *expected* to disagree structurally only if the model is wrong about it: ties count as usual
    verdict(run, audit, stats, features, ties, pf, "C01", PROP_MODULES, refusals)
    if not run.violations:  # a counter that is zero because the code behaves differently is a violation, reported above
        require_coverage(stats, features, REQUIRED_STATS_C01 + c01_eager.REQUIRED + c01_eager.REQUIRED_SEP, REQUIRED_FEATURES_C01)


def eager_verdict(run: core.Run, eg: dict, findings: dict, what: str = "eager calling convention",
                  broken: str = "correspondence OV.C01.Eager.eagerCall vs BaseEvaluator.eval_function") -> None:
    failures = list(eg["failures"])
    if eg["known"]:
        if "C01-D49" in findings:  # only while the finding is open (it is fixed since 29a1f68: a recurrence is a violation)
            k = eg["known"][0]
            run.known("C01-D49", f"{findings['C01-D49']['what'][:160]} :: {len(eg['known'])} calls, e.g. "
                      f"{k['meta']['name']}(*{k['call']['args']}, **{k['call']['kwargs']}): {k['what'][:160]}")
        else:
            failures += eg["known"]
    strip = lambda c: {k: v for k, v in c.items() if k not in ("line",)}  # noqa: E731
    if failures:
        failures.sort(key=lambda f: len(f["line"]))
        f = failures[0]
        run.violation(dict(strip(f), others=len(failures) - 1),
                      f"{f['what']} :: call {f['meta']['name']}(*{f['call']['args']}, **{f['call']['kwargs']}) of\n{f['meta']['src']}")
    elif eg["ties"]:
        eg["ties"].sort(key=lambda t: len(t["line"]))
        t = eg["ties"][0]
        run.violation(dict(strip(t), broken=broken, others=len(eg["ties"]) - 1),
                      f"correspondence broken ({what}): {t['tie']}; on no generated call does the real code "
                      f"differ from the reference reading of the call :: {t['meta']['name']}(*{t['call']['args']}, "
                      f"**{t['call']['kwargs']}) of\n{t['meta']['src']}", no_input=True)


# branches of the modelled code / classes of programs every run must have exercised (an empty class means the
# generator or the harness broke, not that the property holds)
REQUIRED_STATS_C01 = ["refinement_theorem_straight", "refinement_theorem_if", "refinement_theorem_loop",
                      "refinement_theorem_nested", "export_ties", "liveness_fixpoints_checked", "oracle_evaluations",
                      "refused_TranslationError", "corpus_programs"]
REQUIRED_FEATURES_C01 = ["for", "while", "for-break", "while-break", "closure", "closure-shadow", "closure-global",
                         "closure-name-also-local", "inner-trip-count-shrinks", "mixed-opset-old",
                         "user-names-like-generated", "loop-back-edge-only-variable", "literal-loop-bound", "attr-ref",
                         "keyword-input", "static-if", "static-if-in-loop", "break-else", "single-target-multi-output",
                         "callee-calls-inside-control-flow"]


def require_coverage(stats, features, need_stats, need_features):
    missing = [k for k in need_stats if not stats.get(k)] + ["feature " + k for k in need_features if not features.get(k)]
    if missing:
        raise core.Infra("required coverage counters are zero: " + ", ".join(missing))


FINGERPRINT_FUNCS = [
    "Converter._translate_if_stmt", "Converter._translate_loop_stmt", "Converter._translate_block",
    "Converter._translate_return_stmt", "Converter._translate_assign_stmt", "Converter._generate_unique_name",
    "Converter._translate_expr", "Converter._to_onnx_var", "Converter._emit_const",
]
FINGERPRINT_ANALYSIS = ["AstAnalyzer.do_liveness_analysis", "AstAnalyzer.exposed_uses", "AstAnalyzer.assigned_vars"]


def verdict(run, audit, stats, features, ties, prop_failures, prop, modules, refusals=()):
    import os

    if os.environ.get("VERIF_DEBUG"):
        for t in ties:
            print("DEBUG tie:", t["tie"], "\n", t["meta"]["src"], "\n real :", t.get("real"), "\n model:", t.get("model"))
        for f in prop_failures:
            print("DEBUG property:", f["what"], "\n", f["meta"]["src"], f.get("feeds"), f.get("attrs"))
        for r in refusals:
            if not r["meta"].get("near_miss"):
                print("DEBUG refusal:", r["cls"], r["msg"], "\n", r["meta"]["src"])
        print("DEBUG counts: ties", len(ties), "property failures", len(prop_failures))
    if prop_failures:
        prop_failures.sort(key=lambda f: len(f["meta"]["src"]))
        f = prop_failures[0]
        run.violation(
            {"meta": f["meta"], "feeds": f.get("feeds"), "attrs": f.get("attrs"), "voices": f.get("voices"),
             "others": len(prop_failures) - 1},
            f"{f['what']} :: program\n{f['meta']['src']}",
        )
    elif ties:
        ties.sort(key=lambda t: len(t["meta"]["src"]))
        t = ties[0]
        run.violation(
            {"meta": t["meta"], "tie": t["tie"], "real": t["real"], "model": t["model"],
             "broken": "correspondence OV.C01.convert vs Converter.translate_function_def", "others": len(ties) - 1},
            f"correspondence broken: {t['tie']}; no input found on which the translated program differs from its source "
            f"({stats.get('search_programs', 0)} disagreeing programs searched, {stats.get('search_timeouts', 0)} searches "
            f"did not terminate) :: program\n{t['meta']['src']}",
            no_input=True,
        )
    if not audit["ok"]:
        run.violation(
            {"broken": f"proof obligations of {modules}", "problems": audit["problems"], "log": audit["build_log"][-1500:]},
            f"Lean proof obligations for {prop} do not check: " + "; ".join(audit["problems"][:3]),
            no_input=True,
        )
    run.coverage.update(
        evaluations=stats["oracle_evaluations"] + stats.get("structural_evaluations", 0),
        distinct_nontrivial=stats["accepted"],
        rule="distinct generated programs accepted by the real script() (each has at least one operator call and a "
        "return; refusals and duplicates are not counted); each is compared structurally with the Lean model and "
        "run through the property's oracle",
        traces_validated_against_impl=stats["traces"],
        distribution={**dict(stats), **{"feature_" + k: v for k, v in sorted(features.items())}},
        exhaustive=False,
    )
    if stats["programs"] >= 20 and stats["refused"] > 0.3 * max(1, stats["programs"] - stats.get("near_miss_programs", 0)) \
            and prop == "C01":
        raise core.Infra(f"generator degenerated: {stats['refused']} of {stats['programs']} programs refused")
