"""C07 — applying a rewrite replaces only the match and leaves a valid, equivalent graph.

Proof obligations: lean/OV/Props/C07.lean (models: lean/OV/Model/C07Graph.lean, C07Apply.lean).
Tie: correspondence on structure.  Generated rules whose replacement equals the pattern by
construction x generated host models (main graph, If bodies, model-local functions, overlapping
instances) go through the real `RewriteRuleSet.apply_to_model` / `rewrite()` and through the Lean
model's `applyToModel` / `rewriteModel` (compiled driver); application count and canonical
structure (modulo renaming of non-interface values) are diffed.  The property's own oracles
(onnx.checker, an independent scope walker, signature, multiset of untouched nodes, onnxruntime
before/after) judge the real result.
"""
from __future__ import annotations

import copy
import json
from collections import Counter

import numpy as np
import onnx

from harness import c07_lib as L
from harness import core

PROP_MODULES = ["OV.Props.C07"]
FUEL = 400

# --------------------------------------------------------------------------- rule generation


def gen_pattern(rng, with_funcs: bool):
    """Tree pattern: list of (op, dom, ins, nout, attrs) producers first, root last."""
    pn: list = []
    nvars = [0]

    def var():
        if nvars[0] > 0 and rng.random() < 0.3:
            return ("v", rng.randrange(nvars[0]))
        nvars[0] += 1
        return ("v", nvars[0] - 1)

    budget = [rng.choice([1, 1, 2, 2, 3])]

    def build():
        budget[0] -= 1
        x = rng.random()
        if x < 0.45:
            op, dom, ar, nout, attrs = rng.choice(L.UNARY), "", 1, 1, []
        elif x < 0.52:
            op, dom, ar, nout, attrs = "Transpose", "", 1, 1, [("perm", "I0")]
        elif x < 0.9 or not with_funcs:
            op, dom, ar, nout, attrs = rng.choice(L.COMM + L.NONCOMM), "", 2, 1, []
        else:
            op, dom, ar, nout, attrs = "Two", "local", 1, rng.choice([1, 2]), []
        ins = []
        for _ in range(ar):
            if budget[0] > 0 and rng.random() < 0.6:
                child = build()
                cn = pn[child][3]
                ins.append(("n", child, rng.randrange(cn)))
            else:
                ins.append(var())
        pn.append((op, dom, ins, nout, attrs))
        return len(pn) - 1

    root = build()
    nout = pn[root][3]
    return pn, root, [("n", root, j) for j in range(nout)], nvars[0]


def pattern_from_host(rng, host: onnx.ModelProto, allow_f: bool = False, prefer_f: bool = False):
    """A tree pattern read off a random node of the host (any nesting level / function body): >= 1 structural instance.
    `allow_f`: the pattern may contain calls of the model-local function `local.f` (only for rules that do not re-emit
    the call: an overloaded callee cannot be re-emitted through the pattern API); `prefer_f`: start at such a call or at
    a consumer of one."""
    graphs = []

    def collect(g):
        graphs.append(g)
        for n in g.node:
            for a in n.attribute:
                for sg in ([a.g] if a.type == onnx.AttributeProto.GRAPH else list(a.graphs)):
                    collect(sg)

    collect(host.graph)
    for f in host.functions:
        fg = onnx.GraphProto()
        fg.node.extend(f.node)
        graphs.append(fg)
    ok_ops = set(L.UNARY + L.COMM + L.NONCOMM + ["Transpose", "Two", "h"] + (["f"] if allow_f else []))
    cands = [(g, n) for g in graphs for n in g.node if n.op_type in ok_ops]
    if prefer_f:
        fouts = {o for g in graphs for n in g.node if n.op_type == "f" and n.domain == "local" for o in n.output}
        pf = [(g, n) for g, n in cands if (n.op_type == "f" and n.domain == "local") or any(x in fouts for x in n.input)]
        cands = pf or cands
    if not cands:
        return None
    g, start = rng.choice(cands)
    prod = {o: (n, j) for n in g.node for j, o in enumerate(n.output)}
    pn: list = []
    vars_: dict = {}
    done: dict = {}
    budget = [rng.choice([1, 2, 2, 3])]

    def build(n):
        if id(n) in done:
            return done[id(n)]
        budget[0] -= 1
        ins = []
        for x in n.input:
            if x in prod and prod[x][0].op_type in ok_ops and budget[0] > 0 and (
                    rng.random() < 0.7 or (prefer_f and prod[x][0].op_type == "f")):
                pi = build(prod[x][0])
                ins.append(("n", pi, prod[x][1]))
            else:
                if x not in vars_:
                    vars_[x] = len(vars_)
                ins.append(("v", vars_[x]))
        attrs = [("perm", "I0")] if n.op_type == "Transpose" else []
        nout = len(n.output) if n is not start else rng.choice([1, len(n.output)])
        # interior multi-output nodes: pattern declares as many outputs as it uses at least
        pn.append((n.op_type, n.domain, ins, nout, attrs))
        done[id(n)] = len(pn) - 1
        return len(pn) - 1

    root = build(start)
    fixed = []
    for op, dom, ins, nout, attrs in pn:
        fixed.append((op, dom, ins, nout, attrs))
    # an interior reference n<i>.<j> needs nout > j
    need = {}
    for op, dom, ins, nout, attrs in fixed:
        for r in ins:
            if r[0] == "n":
                need[r[1]] = max(need.get(r[1], 0), r[2] + 1)
    fixed = [(op, dom, ins, max(nout, need.get(i, 0)), attrs) for i, (op, dom, ins, nout, attrs) in enumerate(fixed)]
    return fixed, root, [("n", root, j) for j in range(fixed[root][3])], len(vars_)


VERSION_CHOICES = [18, 18, 18, 17, 17, 19]   # the hosts import "" at 18: equal, lower (2x), higher


def gen_rule(rng, idx: int, with_funcs: bool, allow_clash: bool, host=None, force_fam: str | None = None,
             prefer_f: bool = False) -> dict:
    fam = force_fam or rng.choice(["reemit", "reemit", "swap", "invol", "mulone", "asfn", "keep", "two", "multi", "passthru", "idpass"])
    name = f"r{idx}"
    spec = dict(name=name, remove=True, asfn=False, guard=True, inits=[], unique=False, family=fam)
    if fam == "invol":
        if rng.random() < 0.5:
            pn = [("Neg", "", [("v", 0)], 1, []), ("Neg", "", [("n", 0, 0)], 1, [])]
        else:
            pn = [("Transpose", "", [("v", 0)], 1, [("perm", "I0")]), ("Transpose", "", [("n", 0, 0)], 1, [("perm", "I0")])]
        spec.update(pnodes=pn, root=1, pouts=[("n", 1, 0)], tnodes=[("Identity", "", None, [("v", 0)], 1, [])], touts=[("n", 0, 0)])
        spec["guard"] = rng.random() < 0.5
        if rng.random() < 0.3:
            spec["name"], spec["guard"] = "", False
        if rng.random() < 0.25:
            spec["remove"] = False
        return spec
    if fam == "idpass":
        # `Identity(v) -> v`: when v must be routed (graph input/output, outer value) the rewrite is no progress and is skipped
        # since f8abc79 (before: the routing Identity was matched again for ever); otherwise an ordinary passthru
        spec.update(pnodes=[("Identity", "", [("v", 0)], 1, [])], root=0, pouts=[("n", 0, 0)], tnodes=[], touts=[("v", 0)],
                    guard=False, family="idpass")
        if rng.random() < 0.3:
            spec["name"] = ""
        return spec
    if fam == "passthru":
        # the replacement returns its input (a graph input goes through Identity since e8a0767)
        op1 = "Neg"
        spec.update(pnodes=[(op1, "", [("v", 0)], 1, []), (op1, "", [("n", 0, 0)], 1, [])], root=1, pouts=[("n", 1, 0)],
                    tnodes=[], touts=[("v", 0)], guard=False)
        return spec
    if fam == "multi":
        # pattern with two output nodes (the matcher tries every same-op candidate for the second one), re-emitted
        o1, o2 = rng.choice(L.UNARY), rng.choice(L.UNARY + L.COMM)
        second = [("v", 0)] if o2 in L.UNARY else [("v", 0), ("v", rng.choice([0, 1]))]
        if rng.random() < 0.3:
            second = [("v", 1)] if o2 in L.UNARY else [("v", 1), ("v", 0)]
        pn = [(o1, "", [("v", 0)], 1, []), (o2, "", second, 1, [])]
        spec.update(pnodes=pn, root=0, pouts=[("n", 0, 0), ("n", 1, 0)],
                    tnodes=[(op, dom, None, list(ins), nout, []) for op, dom, ins, nout, _ in pn], touts=[("n", 0, 0), ("n", 1, 0)])
        return spec
    if fam == "two" and with_funcs:
        nout = rng.choice([1, 2])
        pn = [("Two", "local", [("v", 0)], nout, [])]
        spec.update(pnodes=pn, root=0, pouts=[("n", 0, j) for j in range(nout)],
                    tnodes=[("Two", "local", None, [("v", 0)], 2, [])], touts=[("n", 0, j) for j in range(nout)])
        return spec
    got = (pattern_from_host(rng, host, allow_f=(fam == "asfn"), prefer_f=prefer_f)
           if (host is not None and (prefer_f or rng.random() < 0.65)) else None)
    pn, root, pouts, nv = got if got else gen_pattern(rng, with_funcs)
    spec.update(pnodes=pn, root=root, pouts=pouts)
    # a call of the model-local function `Two` always declares both outputs
    tn = [(op, dom, None, list(ins), 2 if op == "Two" else nout, list(attrs)) for op, dom, ins, nout, attrs in pn]
    touts = list(pouts)
    if fam == "swap" and pn[root][0] in L.COMM:
        op, dom, ver, ins, nout, attrs = tn[root]
        tn[root] = (op, dom, ver, [ins[1], ins[0]], nout, attrs)
    elif fam == "mulone":
        def sh(r):
            if r[0] == "n":
                return ("n", r[1] + 1, r[2])
            if r == ("v", 0):
                return ("n", 0, 0)
            return r
        tn = [("Mul", "", None, [("v", 0), ("i", 0)], 1, [])] + [(op, dom, ver, [sh(r) for r in ins], nout, attrs) for op, dom, ver, ins, nout, attrs in tn]
        touts = [sh(r) for r in touts]
        spec["inits"] = [("one", L.init_tok_for("one"))]
        spec["unique"] = rng.random() < 0.5  # fixed names clash on the second firing: renamed `one_k` since 340a24c
    elif fam == "asfn":
        spec["asfn"] = True
        # a second domain sometimes: the main graph must then import it even when the rule fires in a function body
        tn = [(rng.choice(["NR", "NR", "f"]) if with_funcs else "NR", rng.choice(["local", "local", "local2"]), None,
               [("v", k) for k in range(nv)], len(pouts), [])]
        touts = [("n", 0, j) for j in range(len(pouts))]
        if tn[0][0] != "f" and rng.random() < 0.3:
            spec["name"], spec["guard"] = "", False
    elif fam == "keep":
        spec["remove"] = False
    if fam != "asfn" and rng.random() < 0.15:
        # explicit versions; since 630be50 `used_opsets` is iterated sorted, so mixing ("", None) with ("", 18) is
        # deterministic: in a fresh body dict the unversioned entry records 1 first and the versioned one then clashes
        ver = rng.choice(VERSION_CHOICES if allow_clash else [18])
        if rng.random() < 0.3 and len(tn) > 1:
            k = rng.randrange(len(tn))
            tn = [(op, dom, ver if (dom == "" and i == k) else v0, ins, nout, attrs) for i, (op, dom, v0, ins, nout, attrs) in enumerate(tn)]
            spec["mixed_versions"] = True
        else:
            tn = [(op, dom, ver if dom == "" else v0, ins, nout, attrs) for op, dom, v0, ins, nout, attrs in tn]
    spec.update(tnodes=tn, touts=touts)
    return spec


def public(spec: dict) -> dict:
    return {k: v for k, v in spec.items() if not k.startswith("_")}


# --------------------------------------------------------------------------- known-finding predicates


def pred_d18(case, real_before: onnx.ModelProto) -> bool:
    """a replacement registers an initializer under a fixed name (second firing, or a host initializer of that name, clashes)"""
    return any(s["inits"] and not s["unique"] for s in case["rules"])


def pred_selfmatch(case) -> bool:
    """an unguarded rule whose replacement contains the pattern's root operator (its own output is matched again)"""
    for s in case["rules"]:
        if not s["guard"]:
            rop = (s["pnodes"][s["root"]][0], s["pnodes"][s["root"]][1])
            if any((t[0], t[1]) == rop for t in s["tnodes"]):
                return True
    return False


def pred_multi_output_nodes(case) -> bool:
    return any(len({r[1] for r in s["pouts"] if r[0] == "n"}) > 1 for s in case["rules"])


def pred_passthru(case) -> bool:
    return any(any(r is not None and r[0] == "v" for r in s["touts"]) for s in case["rules"])


def _identity_of_outer_in_body(g: dict, inside: bool) -> bool:
    """the (model's) result holds, inside a nested body, an Identity node reading a value the body does not define"""
    local = set(g["inputs"]) | {k for k, _ in g["inits"]} | {o for n in g["nodes"] for o in n["outputs"]}
    for n in g["nodes"]:
        if inside and n["op"] == "Identity" and any(x is not None and x not in local for x in n["inputs"]):
            return True
        if any(_identity_of_outer_in_body(sg, True) for _, sg in n["subs"]):
            return True
    return False


def pred_asfn_in_body(case) -> bool:
    return any(s["asfn"] for s in case["rules"]) and case.get("with_cond", False)


PREDICATES = {
    "C07-D2": lambda c, m: pred_selfmatch(c),
}

# --------------------------------------------------------------------------- one case


def make_case(rng, size_hi: int, allow_clash: bool) -> dict:
    with_funcs = rng.random() < 0.45
    with_cond = rng.random() < 0.55
    nrules = rng.choice([1, 1, 2])
    extra = []
    if rng.random() < 0.18:  # pre-existing suffixed names, with gaps: the fresh-name search must probe every time
        extra = ["one"] + [nm for nm in ("one_1", "one_2", "one_3", "one_4") if rng.random() < 0.5]
    # class "model that has been through an as_function pass before": the model-local function `local.f` carries an
    # overload and the host calls it; an as_function rule whose match contains such a call must copy the call as it is
    second_pass = rng.random() < 0.07
    if second_pass:
        with_funcs = True
    f_overload = rng.choice(["1", "2"]) if (second_pass or rng.random() < 0.3) else ""
    allow_clash = allow_clash or rng.random() < 0.2
    # class "several output nodes, instance inside a model-local function, a consumer of the second output ahead of the first
    # output node" (C07-D3 shape in a function body: the function must be sorted after the pass)
    fm = None
    if not second_pass and rng.random() < 0.05:
        with_funcs = True
        o1, o2 = rng.sample(L.UNARY, 2)
        fm = (o1, o2, rng.choice(L.UNARY))
    host, hist = L.gen_host(rng, rng.randint(2, size_hi), with_funcs, with_cond, extra, f_overload=f_overload,
                            force_f_call=second_pass or bool(fm), f_multi_shape=fm)
    rules = [gen_rule(rng, i + 1, with_funcs, allow_clash, host) for i in range(nrules)]
    if fm:
        pn = [(fm[0], "", [("v", 0)], 1, []), (fm[1], "", [("v", 0)], 1, [])]
        rules[0] = dict(name="r1", remove=True, asfn=False, guard=True, inits=[], unique=False, family="multi", pnodes=pn, root=0,
                        pouts=[("n", 0, 0), ("n", 1, 0)], tnodes=[(op, dom, None, list(ins), nout, []) for op, dom, ins, nout, _ in pn],
                        touts=[("n", 0, 0), ("n", 1, 0)])
    if second_pass:
        rules[0] = gen_rule(rng, 1, with_funcs, False, host, force_fam="asfn", prefer_f=True)
    commute = rng.random() < 0.3
    if commute:
        # option product as_function x commute x operand order: present the host's instances in swapped order
        for sp in rules:
            r0 = sp["pnodes"][sp["root"]]
            if r0[0] in L.COMM and r0[1] == "" and len(r0[2]) == 2 and rng.random() < 0.6:
                sp["pnodes"][sp["root"]] = (r0[0], r0[1], [r0[2][1], r0[2][0]], r0[3], r0[4])
                sp["swapped_root"] = True
    # since aef7e04 a passthru rule may fire in a body with an outer value bound (routed through Identity): generated as it is
    return {"rules": rules, "host": host.SerializeToString().hex(), "with_cond": with_cond, "with_funcs": with_funcs, "hist": hist,
            "commute": commute, "f_overload": f_overload if with_funcs else "", "multi_in_function": bool(fm)}


def host_of(case) -> onnx.ModelProto:
    m = onnx.ModelProto()
    m.ParseFromString(bytes.fromhex(case["host"]))
    return m


def model_lines(case, modes=("apply", "rewrite")) -> list[str]:
    host = host_of(case)
    toks = L.model_tokens(L.model_struct(host))
    rt = ["R", str(len(case["rules"]))]
    for s in case["rules"]:
        rt += L.rule_tokens(s)
    sfx = "c" if case.get("commute") else ""
    return [" ".join([mode + sfx, str(FUEL)] + toks + rt) for mode in modes]


def parse_model_answer(line: str):
    t = line.split(" ")
    if t[0] == "OK":
        return "OK", int(t[1]), L.parse_model(t[2:])
    return "ERR", t[1] if len(t) > 1 else "?", None


def judge_real(case, host, out: onnx.ModelProto, count, rng, do_ort: bool, stats: Counter) -> list[str]:
    """The property's oracles on the real result."""
    bad = []
    r = L.checker_ok(out)
    if r:
        bad.append("checker: " + r)
    r = L.scope_walk(out)
    if r:
        bad.append("scope: " + r)
    if L.signature(host) != L.signature(out):
        bad.append(f"signature changed: {L.signature(host)} -> {L.signature(out)}")
    rule_ops = set()
    for s in case["rules"]:
        rule_ops |= {(p[1], p[0]) for p in s["pnodes"]} | {(t[1], t[0]) for t in s["tnodes"]}
        if any(r is not None and r[0] == "v" for r in s["touts"]):
            rule_ops.add(("", "Identity"))  # e8a0767/1dc987d: a returned graph input/output goes through a new Identity node
    if count is not None and all(s["remove"] for s in case["rules"]):  # rewrite() also removes the host's own dead code
        a, b = L.node_multiset(host, rule_ops), L.node_multiset(out, rule_ops)
        if a != b:
            bad.append(f"multiset of untouched nodes changed: {a} -> {b}")
    # "the opset imports the replacement needs are added": a replacement built with an explicit `_version` of the default
    # domain that was applied must find exactly that version imported (the emitted nodes are otherwise read under another
    # operator set than the one the rule was written against).  Judged when it is known which rule fired (one rule).
    if count and len(case["rules"]) == 1:
        want = {t[2] for t in case["rules"][0]["tnodes"] if t[2] is not None and t[1] == ""}
        have = {o.version for o in out.opset_import if o.domain == ""}
        if want and not have <= want:
            bad.append(f"the replacement was built for opset {sorted(want)} of the default domain and was applied, "
                       f"but the model imports {sorted(have)}")
    if do_ort and not bad and not any(f.overload for f in out.functions):  # onnxruntime 1.30 does not resolve overloads
        feeds = L.feeds_for(host, rng)
        try:
            ra = L.ort_run(host, feeds)
        except Exception as e:  # noqa: BLE001 host not executable: generator problem, not judged
            stats["ort_host_failed"] += 1
            return bad
        try:
            rb = L.ort_run(out, feeds)
            stats["ort_pairs"] += 1
            for u, v in zip(ra, rb):
                if not np.allclose(u, v, rtol=1e-5, atol=1e-6, equal_nan=True):
                    bad.append(f"onnxruntime before/after differ on {feeds}: {u} vs {v}")
                    break
        except Exception as e:  # noqa: BLE001
            bad.append("onnxruntime rejects the rewritten model: " + str(e)[:160])
    return bad


def check_case(case, answers: list[str], rng, do_ort: bool, stats: Counter, keep: dict | None = None):
    """Returns (tie_problems, property_problems).  `keep`: receives the real result of the apply mode.
    A case with `first_host` is a *second pass*: its host is what the same rules made of `first_host`; in apply mode the
    real side re-uses the RewriteRuleSet object of that first pass (history: second call on a re-used object)."""
    host = host_of(case)
    tie, prop = [], []
    for mode, ans in zip(("apply", "rewrite"), answers):
        specs = copy.deepcopy(case["rules"])
        if mode == "apply" and case.get("first_host"):
            first = onnx.ModelProto()
            first.ParseFromString(bytes.fromhex(case["first_host"]))
            kind, cnt, out = L.run_real_reused(first, specs, commute=bool(case.get("commute")))
            if kind == "ERR" and cnt.startswith("firstPass:"):
                stats["second_pass_first_failed"] += 1   # e.g. the time limit under load: not judged
                continue
            stats["reused_ruleset_runs"] += 1
        else:
            kind, cnt, out = L.run_real(host, specs, mode, commute=bool(case.get("commute")))
        if keep is not None and mode == "apply" and kind == "OK":
            keep["out"], keep["count"] = out, cnt
        mk, mc, ms = parse_model_answer(ans)
        stats[f"{mode}_cases"] += 1
        if keep is not None and mode == "apply" and mk == "OK":
            keep["model_count"] = mc
        if mode == "apply":
            # coverage counters of input classes: computed from the case and the *model's* prediction (independent of /repo)
            vers = {t[2] for s in case["rules"] for t in s["tnodes"] if t[2] is not None and t[1] == ""}
            if mk == "ERR" and mc.split(":")[0] == "opsetClash":
                stats["ver_lower_clash"] += any(v < 18 for v in vers)
                stats["ver_higher_clash"] += any(v > 18 for v in vers)
            if mk == "OK" and case.get("noprogress") is not None and mc == case["noprogress"]:
                stats["identity_noprogress_directed"] += 1
            if mk == "OK" and mc and case.get("multi_in_function"):
                stats["multi_fired_in_function"] += 1   # the host's function `f` holds the instance (C07-D3 shape), the model predicts a rewrite
            if mk == "OK" and mc:
                stats["ver_equal_fired"] += bool(vers) and all(v == 18 for v in vers)
                if pred_passthru(case):
                    stats["passthru_outer_in_body"] += _identity_of_outer_in_body(ms["graph"], False)
                host_fids = {(f.domain, f.name, f.overload) for f in host.functions}
                new_funcs = [f for f in ms["funcs"] if (f["domain"], f["name"], f["overload"]) not in host_fids]
                # an extracted (new) function whose body holds a call with an overload: the matched call is copied as it is
                stats["asfn_copied_overloaded_call"] += any(n["overload"] for f in new_funcs for n in f["graph"]["nodes"])
                stats["commute_asfn_fired"] += bool(case.get("commute")) and bool(new_funcs)
        if kind == "ERR":
            stats["real_err_" + cnt.split(":")[0]] += 1
            if cnt == "fuel":
                prop.append(f"{mode}: the pass does not terminate (time limit)")
            if cnt == "nameFixRename":
                prop.append(f"{mode}: raises ValueError from NameFixPass (Cannot rename initializer: the name already exists) on a valid model")
            if cnt == "unsafeRemove":
                prop.append(f"{mode}: raises ValueError (a removed value is still used by the replacement) on a valid model")
            if mk != "ERR" or mc.split(":")[0] != cnt.split(":")[0]:
                tie.append(f"{mode}: impl raised {cnt}; model {mk} {mc}")
            continue
        if mk == "ERR":
            tie.append(f"{mode}: impl returned a model (count={cnt}); model ERR {mc}")
            # the model expected an error: the property's oracles still judge what the code returned instead
            prop += [f"{mode}: {b}" for b in judge_real(case, host, out, cnt, rng, False, stats)]
            continue
        if mode == "apply":
            stats["applications"] += cnt
            stats["count_%s" % min(cnt, 5)] += 1
            if cnt != mc:
                tie.append(f"apply: application count impl={cnt} model={mc}")
        ci, cm = L.canon(L.model_struct(out)), L.canon(ms)
        if ci != cm:
            where = next((k for k in ("opsets", "graph", "funcs") if ci[k] != cm[k]), "?")
            tie.append(f"{mode}: canonical structure differs in {where}: impl={str(ci[where])[:400]} model={str(cm[where])[:400]}")
        bad = judge_real(case, host, out, cnt, rng, do_ort and mode == "rewrite", stats)
        prop += [f"{mode}: {b}" for b in bad]
    return tie, prop


# --------------------------------------------------------------------------- corpus (witnesses of the findings)


def corpus() -> list[dict]:
    from onnx import helper

    def host(nodes, ins, outs, inits=(), funcs=(), local=False):
        g = helper.make_graph(nodes, "main", [L.VT(i) for i in ins], [L.VT(o) for o in outs], initializer=list(inits))
        ops = [helper.make_opsetid("", 18)] + ([helper.make_opsetid("local", 1)] if local else [])
        return helper.make_model(g, opset_imports=ops, functions=list(funcs), ir_version=10).SerializeToString().hex()

    N = helper.make_node
    base = dict(remove=True, asfn=False, guard=True, inits=[], unique=False)
    out = []
    # regression for C09-N3 (= D18, fixed 340a24c): two rules registering same-named initializers in one pass
    mul_one = lambda op: [("Mul", "", None, [("v", 0), ("i", 0)], 1, []), (op, "", None, [("n", 0, 0)], 1, [])]  # noqa: E731
    out.append({"regress": "C09-N3", "with_cond": False, "rules": [
        dict(base, name="r1", family="mulone", pnodes=[("Relu", "", [("v", 0)], 1, [])], root=0, pouts=[("n", 0, 0)],
             inits=[("one", L.init_tok_for("one"))], tnodes=mul_one("Relu"), touts=[("n", 1, 0)]),
        dict(base, name="r2", family="mulone", pnodes=[("Neg", "", [("v", 0)], 1, [])], root=0, pouts=[("n", 0, 0)],
             inits=[("one", L.init_tok_for("one"))], tnodes=mul_one("Neg"), touts=[("n", 1, 0)])],
        "host": host([N("Relu", ["x"], ["a"]), N("Neg", ["a"], ["z"])], ["x"], ["z"])})
    # C09-N3 (= D18): one rule that registers the initializer `one` fires twice
    out.append({"regress": "C09-N3", "with_cond": False, "rules": [dict(base, name="r1", family="mulone", pnodes=[("Relu", "", [("v", 0)], 1, [])], root=0,
                pouts=[("n", 0, 0)], inits=[("one", L.init_tok_for("one"))],
                tnodes=[("Mul", "", None, [("v", 0), ("i", 0)], 1, []), ("Relu", "", None, [("n", 0, 0)], 1, [])], touts=[("n", 1, 0)])],
                "host": host([N("Relu", ["x"], ["a"]), N("Neg", ["a"], ["b"]), N("Relu", ["b"], ["z"])], ["x"], ["z"])})
    # C07-D2: operand swap of a commutative op, no guard: the pass never ends
    out.append({"id": "C07-D2", "with_cond": False, "rules": [dict(base, name="", guard=False, family="swap", pnodes=[("Add", "", [("v", 0), ("v", 1)], 1, [])], root=0,
                pouts=[("n", 0, 0)], tnodes=[("Add", "", None, [("v", 1), ("v", 0)], 1, [])], touts=[("n", 0, 0)])],
                "host": host([N("Add", ["x", "y"], ["z"])], ["x", "y"], ["z"])})
    # C07-D4: replacement returns its input: the graph input is renamed
    out.append({"regress": "C07-D4", "with_cond": False, "rules": [dict(base, name="r1", guard=False, family="passthru",
                pnodes=[("Neg", "", [("v", 0)], 1, []), ("Neg", "", [("n", 0, 0)], 1, [])], root=1, pouts=[("n", 1, 0)], tnodes=[], touts=[("v", 0)])],
                "host": host([N("Neg", ["x"], ["n"]), N("Neg", ["n"], ["m"]), N("Add", ["m", "x"], ["z"])], ["x"], ["z"])})
    # directed (no finding): an as_function rule that fires only inside a function body and brings a new domain —
    # the main graph must import it (`_update_opset_imports(model.graph, ...)`)
    fbody = [N("Relu", ["a"], ["t"]), N("Neg", ["t"], ["b"])]
    fproto = helper.make_function("local", "f", ["a"], ["b"], fbody, [helper.make_opsetid("", 18)])
    out.append({"with_cond": False, "rules": [dict(base, name="r1", family="asfn", asfn=True, pnodes=[("Relu", "", [("v", 0)], 1, [])], root=0,
                pouts=[("n", 0, 0)], tnodes=[("NR", "local2", None, [("v", 0)], 1, [])], touts=[("n", 0, 0)])],
                "host": host([N("f", ["x"], ["r"], domain="local"), N("Abs", ["r"], ["z"])], ["x"], ["z"], funcs=[fproto], local=True)})
    # regression of C07-D10 (fixed 1dc987d): the replacement returns a value that is a graph output
    out.append({"regress": "C07-D10", "with_cond": False, "rules": [dict(base, name="r1", guard=False, family="passthru",
                pnodes=[("Neg", "", [("v", 0)], 1, []), ("Neg", "", [("n", 0, 0)], 1, [])], root=1, pouts=[("n", 1, 0)], tnodes=[], touts=[("v", 0)])],
                "host": host([N("Abs", ["a"], ["x"]), N("Neg", ["x"], ["n"]), N("Neg", ["n"], ["m"]), N("Add", ["m", "x"], ["z"])], ["a"], ["z", "x"])})
    # directed (no finding): a match inside a model-local function that uses a domain (`aux`) the main graph does not
    # import; the extracted function must import it from the enclosing function's own imports
    hproto = helper.make_function("aux", "h", ["a"], ["b"], [N("Abs", ["a"], ["b"])], [helper.make_opsetid("", 18)])
    f2 = helper.make_function("local", "f", ["a"], ["b"], [N("h", ["a"], ["t"], domain="aux"), N("Relu", ["t"], ["u"]), N("Neg", ["u"], ["b"])],
                              [helper.make_opsetid("", 18), helper.make_opsetid("aux", 1)])
    out.append({"with_cond": False, "rules": [dict(base, name="r1", family="asfn", asfn=True,
                pnodes=[("h", "aux", [("v", 0)], 1, []), ("Relu", "", [("n", 0, 0)], 1, [])], root=1, pouts=[("n", 1, 0)],
                tnodes=[("NR", "local2", None, [("v", 0)], 1, [])], touts=[("n", 0, 0)])],
                "host": host([N("f", ["x"], ["r"], domain="local"), N("Abs", ["r"], ["z"])], ["x"], ["z"], funcs=[f2, hproto], local=True)})
    # directed (no finding): a rule that brings a new domain fires only inside an If body; the main graph must import it
    tb = helper.make_graph([N("Neg", ["x"], ["n"]), N("Relu", ["n"], ["t"])], "tb", [], [L.VT("t")])
    eb = helper.make_graph([N("Abs", ["x"], ["e"])], "eb", [], [L.VT("e")])
    gi = helper.make_graph([N("If", ["c"], ["z"], then_branch=tb, else_branch=eb)], "main",
                           [L.VT("x"), helper.make_tensor_value_info("c", onnx.TensorProto.BOOL, [])], [L.VT("z")])
    out.append({"with_cond": True, "rules": [dict(base, name="r1", family="asfn", asfn=True,
                pnodes=[("Neg", "", [("v", 0)], 1, []), ("Relu", "", [("n", 0, 0)], 1, [])], root=1, pouts=[("n", 1, 0)],
                tnodes=[("NR", "local2", None, [("v", 0)], 1, [])], touts=[("n", 0, 0)])],
                "host": helper.make_model(gi, opset_imports=[helper.make_opsetid("", 18)], ir_version=10).SerializeToString().hex()})
    # directed (no finding): the host already holds `one`, `one_1`, `one_2`; a rule naming its initializer `one` fires twice
    i3 = [onnx.numpy_helper.from_array(L.INIT_VALUES.get(nm, L.ONE) * k, nm) for k, nm in enumerate(["one", "one_1", "one_2"], 2)]
    out.append({"with_cond": False, "rules": [dict(base, name="r1", family="mulone", pnodes=[("Relu", "", [("v", 0)], 1, [])], root=0,
                pouts=[("n", 0, 0)], inits=[("one", L.init_tok_for("one"))], tnodes=mul_one("Relu"), touts=[("n", 1, 0)])],
                "host": host([N("Add", ["x", "one"], ["p"]), N("Add", ["p", "one_1"], ["q"]), N("Add", ["q", "one_2"], ["s"]),
                              N("Relu", ["s"], ["a"]), N("Neg", ["a"], ["b"]), N("Relu", ["b"], ["z"])], ["x"], ["z"], inits=i3)})
    # same with a gap: the host holds `one` and `one_3` only (a suffix derived from a count instead of a search collides)
    i2 = [onnx.numpy_helper.from_array(L.ONE * k, nm) for k, nm in enumerate(["one", "one_3"], 2)]
    out.append({"with_cond": False, "rules": [dict(base, name="r1", family="mulone", pnodes=[("Relu", "", [("v", 0)], 1, [])], root=0,
                pouts=[("n", 0, 0)], inits=[("one", L.init_tok_for("one"))], tnodes=mul_one("Relu"), touts=[("n", 1, 0)])],
                "host": host([N("Add", ["x", "one"], ["p"]), N("Add", ["p", "one_3"], ["q"]),
                              N("Relu", ["q"], ["a"]), N("Neg", ["a"], ["b"]), N("Relu", ["b"], ["z"])], ["x"], ["z"], inits=i2)})
    # directed (no finding): names with gaps — `one`, `one_2` (no `one_1`): the second new initializer must probe again
    ig = [onnx.numpy_helper.from_array(L.ONE * k, nm) for k, nm in enumerate(["one", "one_2"], 2)]
    out.append({"with_cond": False, "rules": [dict(base, name="r1", family="mulone", pnodes=[("Relu", "", [("v", 0)], 1, [])], root=0,
                pouts=[("n", 0, 0)], inits=[("one", L.init_tok_for("one"))], tnodes=mul_one("Relu"), touts=[("n", 1, 0)])],
                "host": host([N("Add", ["x", "one"], ["p"]), N("Add", ["p", "one_2"], ["q"]), N("Relu", ["q"], ["a"]), N("Neg", ["a"], ["b"]),
                              N("Relu", ["b"], ["c2"]), N("Abs", ["c2"], ["d2"]), N("Relu", ["d2"], ["z"])], ["x"], ["z"], inits=ig)})
    # directed (no finding): host values already called val_2 and val_4; a two-node replacement fires three times
    out.append({"with_cond": False, "rules": [dict(base, name="r1", family="reemit",
                pnodes=[("Neg", "", [("v", 0)], 1, []), ("Relu", "", [("n", 0, 0)], 1, [])], root=1, pouts=[("n", 1, 0)],
                tnodes=[("Neg", "", None, [("v", 0)], 1, []), ("Relu", "", None, [("n", 0, 0)], 1, [])], touts=[("n", 1, 0)])],
                "host": host([N("Abs", ["x"], ["val_2"]), N("Neg", ["val_2"], ["n1"]), N("Relu", ["n1"], ["val_4"]), N("Neg", ["val_4"], ["n2"]),
                              N("Relu", ["n2"], ["r2"]), N("Neg", ["r2"], ["n3"]), N("Relu", ["n3"], ["z"])], ["x"], ["z"])})
    # directed (no finding): as_function x commute x operand order — the host instance has its operands in the swapped order
    for asfn_ in (True, False):
        out.append({"with_cond": False, "commute": True, "rules": [dict(base, name="r1", family="asfn" if asfn_ else "reemit", asfn=asfn_,
                    pnodes=[("Neg", "", [("v", 0)], 1, []), ("Add", "", [("n", 0, 0), ("v", 1)], 1, [])], root=1, pouts=[("n", 1, 0)],
                    tnodes=[("NR", "local2", None, [("v", 0), ("v", 1)], 1, [])] if asfn_ else
                           [("Neg", "", None, [("v", 0)], 1, []), ("Add", "", None, [("n", 0, 0), ("v", 1)], 1, [])],
                    touts=[("n", 0, 0)] if asfn_ else [("n", 1, 0)])],
                    "host": host([N("Neg", ["x"], ["n"]), N("Add", ["y", "n"], ["s"]), N("Neg", ["s"], ["m"]), N("Add", ["m", "x"], ["z"])],
                                 ["x", "y"], ["z"])})
    # directed (no finding): explicit replacement versions against the imported one (hosts import "" at 18):
    # lower and higher must be refused ("Multiple versions of opset"), equal applies — in the main graph and in a function
    fb18 = helper.make_function("local", "f", ["a"], ["b"], [N("Relu", ["a"], ["t"]), N("Neg", ["t"], ["b"])], [helper.make_opsetid("", 18)])
    for ver in (17, 19, 18, 1):
        vr = dict(base, name="r1", family="reemit", pnodes=[("Relu", "", [("v", 0)], 1, [])], root=0, pouts=[("n", 0, 0)],
                  tnodes=[("Relu", "", ver, [("v", 0)], 1, [])], touts=[("n", 0, 0)])
        out.append({"with_cond": False, "rules": [vr], "host": host([N("Relu", ["x"], ["a"]), N("Neg", ["a"], ["z"])], ["x"], ["z"])})
        out.append({"with_cond": False, "rules": [copy.deepcopy(vr)],
                    "host": host([N("f", ["x"], ["r"], domain="local"), N("Abs", ["r"], ["z"])], ["x"], ["z"], funcs=[fb18], local=True)})
    # directed (no finding): the model has been through an as_function pass before — `local.f` carries overload "1" and
    # the match of a new as_function rule contains a call of it: the call is copied into the extracted function as it is
    f1 = helper.make_function("local", "f", ["a"], ["b"], [N("Abs", ["a"], ["b"])], [helper.make_opsetid("", 18)])
    f1.overload = "1"
    fc = N("f", ["x"], ["t"], domain="local")
    fc.overload = "1"
    for pn_, root_ in (([("f", "local", [("v", 0)], 1, []), ("Relu", "", [("n", 0, 0)], 1, [])], 1), ([("f", "local", [("v", 0)], 1, [])], 0)):
        for callee in ("NR", "f"):
            out.append({"with_cond": False, "f_overload": "1", "rules": [dict(base, name="r1", family="asfn", asfn=True, pnodes=pn_, root=root_,
                        pouts=[("n", root_, 0)], tnodes=[(callee, "local", None, [("v", 0)], 1, [])], touts=[("n", 0, 0)])],
                        "host": host([fc, N("Relu", ["t"], ["u"]), N("Neg", ["u"], ["z"])], ["x"], ["z"], funcs=[f1], local=True)})
    # two output nodes, the second one matched by an *overloaded* call (candidates are keyed without the overload since 750cd8e)
    out.append({"with_cond": False, "f_overload": "1", "rules": [dict(base, name="r1", family="asfn", asfn=True,
                pnodes=[("Relu", "", [("v", 0)], 1, []), ("f", "local", [("v", 0)], 1, [])], root=0, pouts=[("n", 0, 0), ("n", 1, 0)],
                tnodes=[("NR", "local", None, [("v", 0)], 2, [])], touts=[("n", 0, 0), ("n", 0, 1)])],
                "host": host([N("Relu", ["x"], ["r"]), fc, N("Add", ["r", "t"], ["z"])], ["x"], ["z"], funcs=[f1], local=True)})
    # the same within one pass: the second as_function rule's match contains the call the first one has just created
    out.append({"with_cond": False, "rules": [
        dict(base, name="r1", family="asfn", asfn=True, pnodes=[("Neg", "", [("v", 0)], 1, []), ("Relu", "", [("n", 0, 0)], 1, [])], root=1,
             pouts=[("n", 1, 0)], tnodes=[("NR", "local", None, [("v", 0)], 1, [])], touts=[("n", 0, 0)]),
        dict(base, name="r2", family="asfn", asfn=True, pnodes=[("NR", "local", [("v", 0)], 1, []), ("Abs", "", [("n", 0, 0)], 1, [])], root=1,
             pouts=[("n", 1, 0)], tnodes=[("NR2", "local", None, [("v", 0)], 1, [])], touts=[("n", 0, 0)])],
        "host": host([N("Neg", ["x"], ["n"]), N("Relu", ["n"], ["r"]), N("Abs", ["r"], ["a"]), N("Neg", ["a"], ["z"])], ["x"], ["z"], local=True)})
    # regression of C07-D11 (fixed aef7e04) through the tie: `Neg(Neg(v)) -> v` inside If / nested If / Loop bodies with `v` an outer
    # value, the replaced value being the body's output or an interior value of the body
    pt = dict(base, name="r1", guard=False, family="passthru", pnodes=[("Neg", "", [("v", 0)], 1, []), ("Neg", "", [("n", 0, 0)], 1, [])],
              root=1, pouts=[("n", 1, 0)], tnodes=[], touts=[("v", 0)])
    bool_c = helper.make_tensor_value_info("c", onnx.TensorProto.BOOL, [])
    for inner_tail in (False, True):
        tbn = [N("Neg", ["a"], ["n"]), N("Neg", ["n"], ["t"])] + ([N("Relu", ["t"], ["t2"])] if inner_tail else [])
        tb11 = helper.make_graph(tbn, "tb", [], [L.VT("t2" if inner_tail else "t")])
        eb11 = helper.make_graph([N("Relu", ["a"], ["e"])], "eb", [], [L.VT("e")])
        g11 = helper.make_graph([N("Abs", ["x"], ["a"]), N("If", ["c"], ["z"], then_branch=tb11, else_branch=eb11)], "main",
                                [L.VT("x"), bool_c], [L.VT("z")])
        out.append({"regress": "C07-D11", "with_cond": True, "rules": [copy.deepcopy(pt)],
                    "host": helper.make_model(g11, opset_imports=[helper.make_opsetid("", 18)], ir_version=10).SerializeToString().hex()})
    # the bound value is a graph *input* of the main graph, seen from a nested If (two levels)
    in2 = helper.make_graph([N("Neg", ["x"], ["n"]), N("Neg", ["n"], ["t"])], "in2", [], [L.VT("t")])
    el2 = helper.make_graph([N("Abs", ["x"], ["e2"])], "el2", [], [L.VT("e2")])
    tb2 = helper.make_graph([N("If", ["c"], ["u"], then_branch=in2, else_branch=el2)], "tb2", [], [L.VT("u")])
    eb2 = helper.make_graph([N("Relu", ["x"], ["e"])], "eb2", [], [L.VT("e")])
    g12 = helper.make_graph([N("If", ["c"], ["z"], then_branch=tb2, else_branch=eb2)], "main", [L.VT("x"), bool_c], [L.VT("z")])
    out.append({"regress": "C07-D11", "with_cond": True, "rules": [copy.deepcopy(pt)],
                "host": helper.make_model(g12, opset_imports=[helper.make_opsetid("", 18)], ir_version=10).SerializeToString().hex()})
    # regression of the no-progress loop (fixed f8abc79): `Identity(v) -> v` with v routed through an Identity is skipped, the next
    # rule is tried, nothing is counted.  `noprogress` = the application count the model must predict.  Every real run is under
    # the time limit of `run_real`: a call that does not return fails the case ("does not terminate"), it does not hang the check.
    idr = dict(base, name="r1", guard=False, family="idpass", pnodes=[("Identity", "", [("v", 0)], 1, [])], root=0, pouts=[("n", 0, 0)],
               tnodes=[], touts=[("v", 0)])
    reid = dict(base, name="r2", family="reemit", pnodes=[("Identity", "", [("v", 0)], 1, [])], root=0, pouts=[("n", 0, 0)],
                tnodes=[("Identity", "", None, [("v", 0)], 1, [])], touts=[("n", 0, 0)])
    tbi = helper.make_graph([N("Identity", ["a"], ["t"])], "tb", [], [L.VT("t")])
    tbi2 = helper.make_graph([N("Identity", ["a"], ["t"]), N("Neg", ["t"], ["u"])], "tb", [], [L.VT("u")])
    ebi = helper.make_graph([N("Relu", ["a"], ["e"])], "eb", [], [L.VT("e")])
    def if_host(tb):
        gg = helper.make_graph([N("Abs", ["x"], ["a"]), N("If", ["c"], ["z"], then_branch=tb, else_branch=ebi)], "main",
                               [L.VT("x"), bool_c], [L.VT("z")])
        return helper.make_model(gg, opset_imports=[helper.make_opsetid("", 18)], ir_version=10).SerializeToString().hex()
    for rules_, h_, wc_, n_ in (
            ([idr], host([N("Identity", ["x"], ["y"])], ["x"], ["y"]), False, 0),                                   # input -> graph output
            ([idr], host([N("Identity", ["x"], ["t"]), N("Neg", ["t"], ["z"])], ["x"], ["z"]), False, 0),           # input -> interior node
            ([idr], host([N("Abs", ["x"], ["a"]), N("Identity", ["a"], ["t"]), N("Neg", ["t"], ["z"])], ["x"], ["z", "a"]), False, 0),  # graph output routed
            ([idr], host([N("Abs", ["x"], ["a"]), N("Identity", ["a"], ["t"]), N("Neg", ["t"], ["z"])], ["x"], ["z"]), False, 1),       # not routed: applies
            ([idr], if_host(tbi), True, 0),                                                                          # outer value, body output
            ([idr], if_host(tbi2), True, 0),                                                                         # outer value, interior of the body
            ([idr, reid], host([N("Identity", ["x"], ["t"]), N("Neg", ["t"], ["z"])], ["x"], ["z"]), False, 1)):      # the next rule is tried
        out.append({"regress": "f8abc79", "with_cond": wc_, "noprogress": n_, "rules": copy.deepcopy(rules_), "host": h_})
    # directed (regression of C07-D3 in every container kind): two output nodes, the consumer of the second one precedes the first —
    # inside a model-local function and inside an If body the container itself must be sorted after the pass
    d3n = lambda a: [N("Neg", [a], ["n"]), N("Abs", ["n"], ["u"]), N("Relu", [a], ["r"]), N("Add", ["u", "r"], ["b"])]  # noqa: E731
    d3rule = dict(base, name="r1", family="multi", pnodes=[("Relu", "", [("v", 0)], 1, []), ("Neg", "", [("v", 0)], 1, [])], root=0,
                  pouts=[("n", 0, 0), ("n", 1, 0)], tnodes=[("Relu", "", None, [("v", 0)], 1, []), ("Neg", "", None, [("v", 0)], 1, [])],
                  touts=[("n", 0, 0), ("n", 1, 0)])
    fd3 = helper.make_function("local", "f", ["a"], ["b"], d3n("a"), [helper.make_opsetid("", 18)])
    out.append({"with_cond": False, "multi_in_function": True, "rules": [copy.deepcopy(d3rule)],
                "host": host([N("f", ["x"], ["r0"], domain="local"), N("Abs", ["r0"], ["z"])], ["x"], ["z"], funcs=[fd3], local=True)})
    tbd3 = helper.make_graph(d3n("x"), "tb", [], [L.VT("b")])
    ebd3 = helper.make_graph([N("Abs", ["x"], ["e"])], "eb", [], [L.VT("e")])
    gd3 = helper.make_graph([N("If", ["c"], ["z"], then_branch=tbd3, else_branch=ebd3)], "main", [L.VT("x"), bool_c], [L.VT("z")])
    out.append({"with_cond": True, "rules": [copy.deepcopy(d3rule)],
                "host": helper.make_model(gd3, opset_imports=[helper.make_opsetid("", 18)], ir_version=10).SerializeToString().hex()})
    # regression cases kept from the generated stream (C07-D7, C07-D8; fixed c9666a4): must pass
    cf = core.VERIF / "harness" / "corpus_c07.jsonl"
    if cf.exists():
        out += [json.loads(l) for l in cf.read_text().splitlines() if l.strip()]
    # C07-D6: a pattern variable bound to an interior matched value: graph.remove(safe=True) raises
    out.append({"regress": "C07-D6", "with_cond": False, "rules": [dict(base, name="r1", family="reemit",
                pnodes=[("Abs", "", [("v", 1)], 1, []), ("Sub", "", [("v", 0), ("n", 0, 0)], 1, [])], root=1, pouts=[("n", 1, 0)],
                tnodes=[("Abs", "", None, [("v", 1)], 1, []), ("Sub", "", None, [("v", 0), ("n", 0, 0)], 1, [])], touts=[("n", 1, 0)])],
                "host": host([N("Abs", ["x"], ["a"]), N("Sub", ["a", "a"], ["z"])], ["x"], ["z"])})
    return out


def check_multi_output_witness() -> str | None:
    """C07-D3 on the real code (the tie's pattern class has one output node; replayed directly)."""
    from onnxscript import ir
    from onnxscript.rewriter import RewriteRuleSet, pattern

    m = onnx.parser.parse_model(
        '<ir_version: 8, opset_import: ["" : 18]> agraph (float[2] x) => (float[2] z) '
        "{ n = Neg(x) u = Abs(n) r = Relu(x) z = Add(u, r) }"
    )
    rule = pattern.RewriteRule(
        lambda op, x: (op.Relu(x), op.Neg(x)),
        lambda op, x: (op.Relu(x), op.Neg(x)),
        lambda ctx, x: "t" not in ctx.root.metadata_props.get(L.TAG, ""),
        name="t",
    )
    mi = ir.serde.deserialize_model(m)
    cnt = RewriteRuleSet([rule]).apply_to_model(mi)
    out = ir.serde.serialize_model(mi)
    return (L.checker_ok(out) or L.scope_walk(out)) if cnt else None


def check_passthru_body_witness() -> str | None:
    """Regression witness of C07-D11 (fixed aef7e04): a replacement returning an outer-scope value replaces an output of an If body."""
    from onnxscript import ir
    from onnxscript.rewriter import RewriteRuleSet, pattern

    m = onnx.parser.parse_model(
        '<ir_version: 10, opset_import: ["" : 18]> agraph (float[2] x, bool c) => (float[2] z) '
        "{ a = Abs(x) z = If (c) <then_branch = tb () => (float[2] t) { n = Neg(a) t = Neg(n) }, "
        "else_branch = eb () => (float[2] e) { e = Relu(a) }> }"
    )
    rule = pattern.RewriteRule(lambda op, x: op.Neg(op.Neg(x)), lambda op, x: x)
    mi = ir.serde.deserialize_model(m)
    cnt = RewriteRuleSet([rule]).apply_to_model(mi)
    out = ir.serde.serialize_model(mi)
    return (L.checker_ok(out) or L.scope_walk(out)) if cnt else None


def check_asfn_body_witness() -> str | None:
    """Regression witness of C07-D5 (fixed 35ad500): as_function inside an If body; the function must import the default domain."""
    from onnxscript import ir
    from onnxscript.rewriter import RewriteRuleSet, pattern

    m = onnx.parser.parse_model(
        '<ir_version: 10, opset_import: ["" : 18]> agraph (float[2] x, bool c) => (float[2] z) '
        "{ z = If (c) <then_branch = tb () => (float[2] t) { n = Neg(x) t = Relu(n) }, "
        "else_branch = eb () => (float[2] e) { e = Abs(x) }> }"
    )
    rule = pattern.RewriteRule(lambda op, x: op.Relu(op.Neg(x)), lambda op, x: op.NR(x, _domain="local"), name="f", as_function=True)
    mi = ir.serde.deserialize_model(m)
    cnt = RewriteRuleSet([rule]).apply_to_model(mi)
    out = ir.serde.serialize_model(mi)
    return (L.checker_ok(out) or L.scope_walk(out)) if cnt else None


# --------------------------------------------------------------------------- main


def classify(case, host, what: str = "") -> str | None:
    for fid, pred in PREDICATES.items():
        if pred(case, host):
            return fid
    return None


def main(run: core.Run) -> None:
    run.assumptions += [
        "A-op: every operator is an uninterpreted function of (op id, attributes, inputs); a node with graph attributes is an "
        "uninterpreted function of its inputs and of the denotations of its bodies",
        "A-scope: a body observes the enclosing scopes only through the names it mentions (`caps`); the driver recomputes "
        "`caps` from the bodies, the scope walker checks the real results",
        "A-ir: onnx_ir's replace_nodes_and_values, the linked-list iterator, RemoveUnused{Nodes,Functions,Opsets}Pass and "
        "NameFixPass are contract parameters (rendered executably in OV.Model.C07Apply and executed for real by the tie)",
        "the matcher of the theorems and of the driver is the model's `matchAt` (tied to the real matcher by every case): it covers the "
        "generators' pattern class (one or two output nodes, variables, repeated variables, constant attributes, multi-output node); "
        "no translation to C06's matcher model",
    ]
    audit = run.prove(PROP_MODULES)
    drv = core.Driver("C07")
    stats: Counter = Counter()
    findings = {f["id"]: f for f in run.open_findings()}

    if run.replay_path:
        body = json.loads(open(run.replay_path).read())
        case = body["case"].get("case")
        if case:
            tie, prop = check_case(case, drv.ask(model_lines(case)), run.rng, True, stats)
            for p in tie + prop:
                print("REPLAY", p)
            if tie or prop:
                run.violation({"case": case, "problems": tie + prop}, "replayed case still fails")
        run.coverage.update(evaluations=1, distinct_nontrivial=1)
        return

    n_cases = run.size(300, 4000)
    drift = core.fingerprint_drift(
        "C07", "onnxscript/rewriter/_rewrite_rule.py",
        ["RewriteRuleSet._apply_to_graph_or_function", "RewriteRuleSet.apply_to_model", "_update_opset_imports",
         "_copy_for_function", "_get_new_overload", "RewriteRule.try_rewrite"],
    )
    if drift and run.tier == "quick":
        n_cases *= 2
    run.coverage["fingerprint_drift"] = drift

    tie_broken, prop_failures = [], []
    known_counts: Counter = Counter()

    def second_pass_case(c, out, cnt):
        """The model a pass produced goes through a second pass: with the same rules (the real side re-uses the rule-set
        object; tags, `val_k` names, overloads and functions of the first pass are in the host now) or with new rules
        read off the new host."""
        r = run.rng
        same = r.random() < 0.5
        host2 = out.SerializeToString().hex()
        if same:
            rules = copy.deepcopy(public_list(c["rules"]))
        else:
            wf = bool(out.functions)
            rules = [gen_rule(r, i + 1, c.get("with_funcs", False), False, out,
                              force_fam=("asfn" if (wf and i == 0 and r.random() < 0.5) else None),
                              prefer_f=False) for i in range(r.choice([1, 2]))]
        c2 = {"rules": rules, "host": host2, "with_cond": c.get("with_cond", False), "with_funcs": c.get("with_funcs", False),
              "commute": bool(c.get("commute")) and same, "second_pass": "same" if same else "new", "hist": {}}
        if same:
            c2["first_host"] = c["host"]
        if any(f.overload for f in out.functions):
            stats["second_pass_host_has_overloads"] += 1
        return c2

    def process(cases, do_ort_every=3, second=True):
        lines = []
        for c in cases:
            lines += model_lines(c)
        answers = drv.ask(lines, timeout=900)
        again = []
        for i, c in enumerate(cases):
            host = host_of(c)
            keep: dict = {}
            tie, prop = check_case(c, answers[2 * i: 2 * i + 2], run.rng, i % do_ort_every == 0, stats, keep)
            if c.get("second_pass"):
                stats["second_pass_" + c["second_pass"]] += 1
                stats["second_pass_fired"] += bool(keep.get("model_count"))
            elif second and keep.get("count") and not tie and not prop and "id" not in c and run.rng.random() < 0.3:
                again.append(second_pass_case(c, keep["out"], keep["count"]))
            fam = "+".join(s["family"] + ("" if s["remove"] else "/keep") for s in c["rules"])
            if c.get("commute"):
                stats["commute_cases"] += 1
                if any(s["asfn"] for s in c["rules"]):
                    stats["commute_asfn_cases"] += 1
            stats["fam_" + fam.split("+")[0]] += 1
            for k, v in c.get("hist", {}).items():
                stats["host_" + k] += v
            all_known = bool(prop)
            for p in prop:
                fid = c.get("id") or classify(c, host, p)
                if fid and fid in findings:
                    known_counts[fid] += 1
                    if known_counts[fid] == 1:
                        run.known(fid, " ".join(p[:300].split()))
                else:
                    all_known = False
                    prop_failures.append((c, p))
            if all_known and tie:
                # the real result is already invalid for a listed reason; its exact shape is not tied
                stats["tie_not_judged_inside_known_finding"] += 1
            else:
                for t in tie:
                    tie_broken.append((c, t))
        if again:
            process(again, do_ort_every=2, second=False)

    # 1. corpus: witnesses of the findings
    process(corpus(), do_ort_every=1)
    r = check_multi_output_witness()
    if r:
        # C07-D3 was fixed by a8da06e: a failure of the regression witness is a violation
        prop_failures.append(({"witness": "multi-output-node (regression of C07-D3)"}, r))
    r = check_passthru_body_witness()
    if r:
        # C07-D11 was fixed by aef7e04: a failure of the regression witness is a violation
        prop_failures.append(({"witness": "passthru of an outer value inside an If body (regression of C07-D11)"}, r))
    r = check_asfn_body_witness()
    if r:
        # C07-D5 was fixed by 35ad500: a failure of the regression witness is a violation
        prop_failures.append(({"witness": "as_function in body (regression of C07-D5)"}, r))

    # 2. generated stream
    batch = 60
    done = 0
    while done < n_cases:
        k = min(batch, n_cases - done)
        allow_clash = run.rng.random() < 0.25
        process([make_case(run.rng, 9 if run.tier == "quick" else 14, allow_clash) for _ in range(k)])
        done += k
    stats["known_" + "_".join(sorted(known_counts))] = sum(known_counts.values())

    # ---- verdict
    def size_of(c):
        return len(c.get("host", "")) + 50 * len(c.get("rules", []))

    if prop_failures:
        prop_failures.sort(key=lambda p: size_of(p[0]))
        c, p = prop_failures[0]
        run.violation({"case": {k: (public_list(v) if k == "rules" else v) for k, v in c.items() if k != "hist"}, "detail": p,
                       "others": len(prop_failures) - 1},
                      "rewrite result fails the property's oracle: " + p[:300])
    elif tie_broken:
        tie_broken.sort(key=lambda p: size_of(p[0]))
        c, t = tie_broken[0]
        run.violation({"case": {k: (public_list(v) if k == "rules" else v) for k, v in c.items() if k != "hist"}, "detail": t,
                       "broken": "correspondence OV.C07.applyToModel / rewriteModel vs RewriteRuleSet.apply_to_model / rewrite()",
                       "others": len(tie_broken) - 1},
                      "correspondence broken: " + t[:300] + "; no input found on which the rewritten model is invalid, "
                      "changes its signature or computes something else", no_input=True)
    if not audit["ok"]:
        run.violation({"broken": "proof obligations of OV.Props.C07", "problems": audit["problems"], "log": audit["build_log"][-1500:]},
                      "Lean proof obligations for C07 do not check: " + "; ".join(audit["problems"][:3]), no_input=True)

    total = stats["apply_cases"] + stats["rewrite_cases"]
    run.coverage.update(
        evaluations=total,
        distinct_nontrivial=stats["count_1"] + stats["count_2"] + stats["count_3"] + stats["count_4"] + stats["count_5"],
        rule="(rule set, host model) pairs on which at least one rule fired in the real apply_to_model; each pair is run through "
        "the real apply_to_model and rewrite() and through the Lean model, and judged by checker/scope walker/signature/"
        "multiset/onnxruntime",
        traces_validated_against_impl=total,
        distribution=dict(stats),
        exhaustive=False,
    )
    stats["commute_cases"] += 0
    required = ["multi_fired_in_function", "identity_noprogress_directed", "fam_idpass", "passthru_outer_in_body", "second_pass_same", "second_pass_new", "second_pass_fired", "second_pass_host_has_overloads", "reused_ruleset_runs",
                "ver_lower_clash", "ver_higher_clash", "ver_equal_fired", "asfn_copied_overloaded_call", "host_f_overloaded_call",
                "commute_asfn_fired", "commute_cases", "host_val_named", "fam_reemit", "fam_swap", "fam_invol", "fam_mulone", "fam_asfn", "fam_two", "fam_multi", "fam_passthru",
                "host_If", "host_Loop", "host_fn_Neg", "host_Two", "count_1", "count_2", "count_5", "ort_pairs"]
    missing = [k for k in required if not stats[k]]
    run.coverage["required_counters"] = {k: stats[k] for k in required}
    if missing and not (prop_failures or tie_broken):   # a behavioural difference already reported is never turned into exit 2
        raise core.Infra("generator did not cover: " + ", ".join(missing))
    if stats["apply_cases"] and stats["count_0"] > 0.6 * stats["apply_cases"]:
        raise core.Infra("generator degenerated: >60% of cases without any application")


def public_list(specs):
    return [public(s) for s in specs]
