"""C14 translator #2: process-wide state on the property's path -> OV/Gen/C14Globals.lean.

Scans (AST only) every non-test module of onnxscript/{_internal,rewriter,rewriter/rules/common,rewriter/rules/fusion,
optimizer,version_converter,ir,utils/metadata_merger.py,onnx_types.py,values.py} and emits three tables:

* `globalRows`  one row per module-level name / class attribute bound to a MUTABLE object (dict/list/set literal or
                comprehension, dict()/set()/defaultdict()…, an instance of a class), per `global` statement target and per
                functools cache.  A row lists every WRITE to the object that happens inside a function body (i.e. possibly
                after import): subscript/attribute store, mutator call, `global` rebinding — each tagged with how the
                surrounding code disciplines it:
                  memo      `v = C.get(key) … C[key] = value` in one function; `keyParams`/`usedParams` list the function's
                            parameters occurring in the key / anywhere in the function (a complete key mentions them all)
                  restore   rebinding inside a @contextmanager whose `finally` rebinds again (swap + restore)
                  setter    the function is a public configuration setter (`set_*`): changing the global is its purpose
                  register  inside a method/closure of a function named `register` (decorator registries), and no call of
                            that `register` occurs inside any function body of the package (import-time only)
                  classdef  inside `__init_subclass__` (runs when a class statement executes)
                  raw       none of the above
* `entryRows`   for every class whose objects outlive one operation (module-level singletons, matcher objects held by rule
                objects, pass objects a user may keep) and its entry method: fields read before this very call assigned
                them (forward must-assignment analysis of extract_stash.Analyzer through self.method() calls), the
                __init__-only fields, the fields the call may write.
* `setIterSites` every place where a set-typed expression (set literal/comprehension/set()/frozenset(), set algebra, names and
                attributes annotated or assigned as sets, functions/properties annotated to return sets — collected over all
                scanned files) is ITERATED, with the consumer: `sorted`/`set`/`any`/`all`/`len`/`min`/`max`/`sum`/`.update`
                of a set are order-insensitive; `for`, list/dict comprehension, list()/tuple()/enumerate()/join/extend/star
                are order-sensitive.

Nothing here decides anything: `OV.Props.C14.globals_disciplined`, `entry_objects_reset`, `set_iteration_sanctioned` are closed
by `decide` over these tables, and harness/c14_worker.py validates the rows dynamically (fingerprints of the objects after
import vs after histories).
"""
from __future__ import annotations

import ast
import glob
import os
from pathlib import Path

from harness import extract_stash as ES

PATHS = [
    "onnxscript/_internal/*.py",
    "onnxscript/rewriter/*.py",
    "onnxscript/rewriter/rules/common/*.py",
    "onnxscript/rewriter/rules/fusion/*.py",
    "onnxscript/optimizer/*.py",
    "onnxscript/version_converter/*.py",
    "onnxscript/ir/*.py",
    "onnxscript/utils/*.py",
    "onnxscript/*.py",
    "onnxscript/rewriter/ort_fusions/*.py",
    "onnxscript/rewriter/models/*.py",
]
MUT_CALLS = {"dict", "list", "set", "defaultdict", "OrderedDict", "Counter", "deque", "WeakValueDictionary", "WeakKeyDictionary"}
MUTATORS = {"add", "append", "pop", "update", "clear", "extend", "remove", "discard", "insert", "setdefault", "popitem", "sort", "reverse", "appendleft"}
TYPING_CTORS = {"TypeVar", "ParamSpec", "NewType", "TypeVarTuple"}

# classes whose objects live longer than one operation, with the method that starts an operation on them
ENTRY_CLASSES = [
    ("onnxscript/rewriter/_matcher.py", "SimplePatternMatcher", "match"),
    ("onnxscript/optimizer/_constant_folding.py", "FoldConstantsPass", "call"),
    ("onnxscript/rewriter/__init__.py", "RewritePass", "call"),
    ("onnxscript/rewriter/_rewrite_rule.py", "RewriteRuleSet", "apply_to_model"),
    ("onnxscript/rewriter/_rewrite_rule.py", "RewriteRule", "try_rewrite"),
    ("onnxscript/rewriter/_rewrite_rule.py", "Pattern", "match"),
    ("onnxscript/version_converter/__init__.py", "ConvertVersionPass", "call"),
    ("onnxscript/_internal/converter.py", "Converter", "translate_function_def"),
]


def json_key(w: dict) -> str:
    return w["func"] + "|" + w["tag"]


def files_of(repo: Path) -> list[str]:
    out = []
    for p in PATHS:
        for f in sorted(glob.glob(str(repo / p))):
            if f.endswith("_test.py") or "/tests/" in f or f.endswith("_test_utils.py"):
                continue
            out.append(os.path.relpath(f, repo))
    return sorted(set(out))


def mutable_kind(v: ast.AST) -> str | None:
    if isinstance(v, (ast.Dict, ast.List, ast.Set, ast.DictComp, ast.ListComp, ast.SetComp)):
        return type(v).__name__
    if isinstance(v, ast.Call):
        f = v.func
        n = f.id if isinstance(f, ast.Name) else (f.attr if isinstance(f, ast.Attribute) else None)
        if n in TYPING_CTORS:
            return None
        if n in MUT_CALLS:
            return "call:" + n
        if n and n[0].isupper():
            return "instance:" + n
    return None


def qual_functions(tree: ast.Module):
    """yield (qualname, FunctionDef, enclosing chain of FunctionDef/ClassDef nodes)"""

    def go(node, prefix, chain):
        for ch in ast.iter_child_nodes(node):
            if isinstance(ch, (ast.FunctionDef, ast.AsyncFunctionDef)):
                q = prefix + ch.name
                yield q, ch, chain
                yield from go(ch, q + ".", chain + [ch])
            elif isinstance(ch, ast.ClassDef):
                yield from go(ch, prefix + ch.name + ".", chain + [ch])
            else:
                yield from go(ch, prefix, chain)

    yield from go(tree, "", [])


def own_nodes(fn: ast.AST):
    """nodes of a function body without descending into nested defs"""
    todo = list(fn.body) if isinstance(fn, (ast.FunctionDef, ast.AsyncFunctionDef)) else list(ast.iter_child_nodes(fn))
    while todo:
        n = todo.pop()
        yield n
        if isinstance(n, (ast.FunctionDef, ast.AsyncFunctionDef, ast.ClassDef, ast.Lambda)):
            continue
        todo.extend(ast.iter_child_nodes(n))


def base_param(e: ast.AST) -> str | None:
    while isinstance(e, (ast.Attribute, ast.Subscript)):
        e = e.value
    return e.id if isinstance(e, ast.Name) else None


def is_ctxmanager(fn: ast.FunctionDef) -> bool:
    return any("contextmanager" in ast.unparse(d) for d in fn.decorator_list)


class Scanner:
    def __init__(self, repo: Path):
        self.repo = repo
        self.files = files_of(repo)
        self.trees = {f: ast.parse((repo / f).read_text()) for f in self.files}

    # ------------------------------------------------------------------ globals
    def refers(self, e: ast.AST, name: str, owner_cls: str | None, aliases: set[str]) -> bool:
        """does expression `e` denote the object `name` (module global, or class attribute of owner_cls)?"""
        if owner_cls is None:
            if isinstance(e, ast.Name) and e.id == name:
                return True
            return isinstance(e, ast.Attribute) and e.attr == name and isinstance(e.value, ast.Name) and e.value.id in aliases
        return (
            isinstance(e, ast.Attribute)
            and e.attr == name
            and isinstance(e.value, ast.Name)
            and e.value.id in ("cls", "self", owner_cls)
        )

    def write_sites(self, home: str, name: str, owner_cls: str | None) -> list[dict]:
        mod_stem = home.rsplit("/", 1)[-1][:-3]
        sites = []
        for f, tree in self.trees.items():
            aliases = set()
            if f != home:
                for n in ast.walk(tree):
                    if isinstance(n, ast.ImportFrom):
                        for a in n.names:
                            if a.name == mod_stem:
                                aliases.add(a.asname or a.name)
                    elif isinstance(n, ast.Import):
                        for a in n.names:
                            if a.name.endswith("." + mod_stem) and a.asname:
                                aliases.add(a.asname)
                if not aliases:
                    continue
            for q, fn, chain in qual_functions(tree):
                if owner_cls is not None and f == home and not any(isinstance(c, ast.ClassDef) and c.name == owner_cls for c in chain):
                    # `cls.cache` / `self.cache` of another class is another object
                    only_explicit = True
                else:
                    only_explicit = False
                declared_global = any(isinstance(n, ast.Global) and name in n.names for n in own_nodes(fn))
                for n in own_nodes(fn):
                    how = None
                    if isinstance(n, (ast.Assign, ast.AugAssign, ast.AnnAssign)):
                        ts = n.targets if isinstance(n, ast.Assign) else [n.target]
                        for t in ts:
                            if isinstance(t, ast.Name) and owner_cls is None and f == home and t.id == name and declared_global:
                                how = "rebind"
                            elif isinstance(t, (ast.Subscript, ast.Attribute)):
                                b = t.value
                                if isinstance(t, ast.Attribute) and self.refers(t, name, owner_cls, aliases) and owner_cls is not None:
                                    how = "rebind"
                                while isinstance(b, (ast.Subscript,)):
                                    b = b.value
                                if self.refers(b, name, owner_cls, aliases if f != home else set()):
                                    how = "store"
                    elif isinstance(n, ast.Delete):
                        for t in n.targets:
                            if isinstance(t, ast.Subscript) and self.refers(t.value, name, owner_cls, aliases if f != home else set()):
                                how = "store"
                    elif isinstance(n, ast.Call) and isinstance(n.func, ast.Attribute) and n.func.attr in MUTATORS:
                        if self.refers(n.func.value, name, owner_cls, aliases if f != home else set()):
                            how = "store"
                    if how and only_explicit:
                        # inside another class only `OwnerCls.attr` counts
                        ok = False
                        for x in ast.walk(n):
                            if isinstance(x, ast.Attribute) and x.attr == name and isinstance(x.value, ast.Name) and x.value.id == owner_cls:
                                ok = True
                        if not ok:
                            how = None
                    if how:
                        sites.append({"file": f, "func": q, "fn": fn, "chain": chain, "how": how, "node": n})
        return sites

    def tag_site(self, s: dict, name: str, owner_cls: str | None) -> dict:
        fn: ast.FunctionDef = s["fn"]
        chain_names = [c.name for c in s["chain"] if isinstance(c, (ast.FunctionDef, ast.AsyncFunctionDef))] + [fn.name]
        params = [a.arg for a in fn.args.posonlyargs + fn.args.args + fn.args.kwonlyargs]
        tag, key_params, used_params = "raw", [], []
        if s["how"] == "rebind" and is_ctxmanager(fn):
            # swap + restore: a try/finally whose finalbody rebinds the global (directly or through the setter)
            restores = False
            for n in own_nodes(fn):
                if isinstance(n, ast.Try) and n.finalbody:
                    for x in n.finalbody:
                        for y in ast.walk(x):
                            if isinstance(y, ast.Name) and y.id == name and isinstance(y.ctx, ast.Store):
                                restores = True
                            if isinstance(y, ast.Call) and isinstance(y.func, ast.Name) and y.func.id.startswith("set_"):
                                restores = True
            tag = "restore" if restores else "raw"
        elif s["how"] == "rebind" and fn.name.startswith("set_"):
            tag = "setter"
        elif "register" in chain_names:
            tag = "register"
        elif fn.name == "__init_subclass__":
            tag = "classdef"
        elif s["how"] == "store" and isinstance(s["node"], ast.Assign) and isinstance(s["node"].targets[0], ast.Subscript):
            # memo: C[key] = value with an earlier C.get(key) / `key in C` / C[key] lookup in the same function
            key = s["node"].targets[0].slice
            looked = False
            for n in own_nodes(fn):
                if isinstance(n, ast.Call) and isinstance(n.func, ast.Attribute) and n.func.attr == "get" and n.args:
                    if ast.dump(n.args[0]) == ast.dump(key):
                        looked = True
                if isinstance(n, ast.Compare) and any(isinstance(o, (ast.In, ast.NotIn)) for o in n.ops) and ast.dump(n.left) == ast.dump(key):
                    looked = True
            if looked:
                tag = "memo"
                key_expr = key
                if isinstance(key, ast.Name):
                    for n in own_nodes(fn):
                        if isinstance(n, ast.Assign) and any(isinstance(t, ast.Name) and t.id == key.id for t in n.targets):
                            key_expr = n.value
                kp = set()
                for x in ast.walk(key_expr):
                    if isinstance(x, ast.Name) and x.id in params:
                        kp.add(x.id)
                up = set()
                for x in own_nodes(fn):
                    if isinstance(x, ast.Name) and isinstance(x.ctx, ast.Load) and x.id in params:
                        up.add(x.id)
                # the owner of the cache (`self` whose field it is, `cls` only when it is in the key) is not an argument
                if owner_cls is None or "self" in params:
                    up.discard("self")
                key_params, used_params = sorted(kp), sorted(up)
        return {"func": f"{s['file'].rsplit('/', 1)[-1][:-3]}.{s['func']}", "how": s["how"], "tag": tag,
                "keyParams": key_params, "usedParams": used_params}

    def instance_method_writes(self, cls_name: str) -> list[dict]:
        """fields of a module-level instance that methods other than __init__ assign or mutate in place"""
        entry = {c for _, c, _ in ENTRY_CLASSES}
        out = []
        seen = set()
        todo = [cls_name]
        while todo:
            cn = todo.pop()
            if cn in seen:
                continue
            seen.add(cn)
            for f, tree in self.trees.items():
                for c in ast.walk(tree):
                    if isinstance(c, ast.ClassDef) and c.name == cn:
                        todo += [b for b in map(ES._base_name, c.bases) if b]
                        for m in c.body:
                            if isinstance(m, ast.FunctionDef) and m.name != "__init__":
                                for n in ast.walk(m):
                                    fld = None
                                    if isinstance(n, (ast.Assign, ast.AugAssign, ast.AnnAssign)):
                                        for t in (n.targets if isinstance(n, ast.Assign) else [n.target]):
                                            b = t
                                            while isinstance(b, ast.Subscript):
                                                b = b.value
                                            if ES.is_self_attr(b):
                                                fld = b.attr
                                    elif isinstance(n, ast.Call) and isinstance(n.func, ast.Attribute) and n.func.attr in MUTATORS and ES.is_self_attr(n.func.value):
                                        fld = n.func.value.attr
                                    if fld:
                                        tag = "register" if m.name == "register" else ("entry" if cn in entry else ("guarded" if m.name == "add_node" else "raw"))
                                        out.append({"func": f"{cn}.{m.name}:{fld}", "how": "field", "tag": tag, "keyParams": [], "usedParams": []})
        uniq = {json_key(w): w for w in out}
        return [uniq[k] for k in sorted(uniq)]

    def register_calls_in_functions(self) -> list[str]:
        """calls `X.register(...)` / `register(...)` that sit inside a function body (would register after import)"""
        out = []
        for f, tree in self.trees.items():
            for q, fn, chain in qual_functions(tree):
                if fn.name == "register" or any(getattr(c, "name", "") == "register" for c in chain):
                    continue
                for n in own_nodes(fn):
                    if isinstance(n, ast.Call):
                        fnn = n.func
                        nm = fnn.attr if isinstance(fnn, ast.Attribute) else (fnn.id if isinstance(fnn, ast.Name) else "")
                        if nm == "register":
                            out.append(f"{f}:{q}")
        return sorted(set(out))

    def global_rows(self) -> list[dict]:
        rows = []
        for f, tree in self.trees.items():
            stem = f.rsplit("/", 1)[-1][:-3]
            for st in tree.body:
                cands = []
                if isinstance(st, ast.Assign) and len(st.targets) == 1 and isinstance(st.targets[0], ast.Name):
                    cands.append((st.targets[0].id, st.value, None))
                elif isinstance(st, ast.AnnAssign) and isinstance(st.target, ast.Name) and st.value is not None:
                    cands.append((st.target.id, st.value, None))
                elif isinstance(st, ast.ClassDef):
                    for c in st.body:
                        if isinstance(c, ast.Assign) and len(c.targets) == 1 and isinstance(c.targets[0], ast.Name):
                            cands.append((c.targets[0].id, c.value, st.name))
                        elif isinstance(c, ast.AnnAssign) and isinstance(c.target, ast.Name) and c.value is not None:
                            cands.append((c.target.id, c.value, st.name))
                for name, val, owner in cands:
                    if name == "__all__":
                        continue
                    kind = mutable_kind(val)
                    if not kind:
                        continue
                    sites = [self.tag_site(s, name, owner) for s in self.write_sites(f, name, owner)]
                    if kind.startswith("instance:"):
                        sites += self.instance_method_writes(kind.split(":", 1)[1])
                    rows.append({"name": f"{stem}:{(owner + '.') if owner else ''}{name}", "file": f, "kind": kind, "writes": sites})
            # `global X` targets whose module-level binding is not a mutable literal (e.g. `_default_evaluator = ort_evaluator`)
            for q, fn, chain in qual_functions(tree):
                for n in own_nodes(fn):
                    if isinstance(n, ast.Global):
                        for g in n.names:
                            key = f"{stem}:{g}"
                            if not any(r["name"] == key for r in rows):
                                sites = [self.tag_site(s, g, None) for s in self.write_sites(f, g, None)]
                                rows.append({"name": key, "file": f, "kind": "global", "writes": sites})
                for d in fn.decorator_list:
                    if "cache" in ast.unparse(d) and "property" not in ast.unparse(d):
                        rows.append({"name": f"{stem}:{q}", "file": f, "kind": "functools:" + ast.unparse(d).split("(")[0],
                                     "writes": [{"func": f"{stem}.{q}", "how": "store", "tag": "lru_cache", "keyParams": [], "usedParams": []}]})
        return rows

    # ------------------------------------------------------------------ entry objects
    def entry_rows(self) -> list[dict]:
        """Rows for the entry classes AND, transitively, for every package class whose object an entry object builds in
        `__init__` and keeps on `self` (a pass that owns a converter, a rule that owns a matcher): such an object lives as
        long as its holder, so its own methods must assign before they read as well.  For held classes the entry is
        `<public>`: the union over all public methods (whichever the holder, or a function it hands the object to, calls)."""
        world = ES.World(self.repo)
        for f in self.files:
            if f.startswith(("onnxscript/rewriter/", "onnxscript/optimizer/", "onnxscript/version_converter/", "onnxscript/_internal/")):
                world.add_file(f)
        rows: list[dict] = []
        done: set[str] = set()
        todo: list[tuple[str | None, str, str, str | None]] = [(f, c, e, None) for f, c, e in ENTRY_CLASSES]
        while todo:
            f, cname, entry, holder = todo.pop(0)
            if cname in done:
                continue
            c = world.resolve(cname, f) if f else (world.by_name.get(cname) or [None])[0]
            if c is None or (f and c.module != f):
                if holder is None:
                    rows.append({"name": cname, "entry": entry, "missing": True, "consts": [], "earlyReads": ["<class not found>"], "mayWrite": [], "held": []})
                continue
            done.add(cname)
            chain = world.mro(c)
            methods = sorted(set().union(*[set(k.methods) for k in chain]))
            if entry != "<public>" and world.find_method(c, entry)[1] is None:
                rows.append({"name": cname, "entry": entry, "missing": True, "consts": [], "earlyReads": ["<entry not found>"], "mayWrite": [], "held": []})
                continue
            ES._cache.clear()
            init_w, other_w = set(), set()
            for m in methods:
                o, mf = world.find_method(c, m)
                sm = ES.summarize(world, c, o, mf)
                (init_w if m == "__init__" else other_w).update(sm.may)
            consts = init_w - other_w
            entries = [entry] if entry != "<public>" else [m for m in methods if not m.startswith("_") or m in ("__call__",)]
            early, may, must_all, dyn = set(), set(), None, False
            ES._cache.clear()
            ES.VISITED.clear()
            for en in entries:
                o, mf = world.find_method(c, en)
                sm = ES.summarize(world, c, o, mf)
                early |= set(sm.early_reads)
                may |= set(sm.may)
                must_all = set(sm.must_all) if must_all is None else (must_all & set(sm.must_all))
                dyn = dyn or sm.dynamic
            reached = {m for (cn, m) in ES.VISITED if cn == c.name}
            helper = set()
            for m in methods:
                if m in reached or m == "__init__":
                    continue
                o, mf = world.find_method(c, m)
                hs = ES.summarize(world, c, o, mf)
                helper |= set(hs.early_reads) - consts - (must_all or set())
            # objects built in __init__ and kept on self
            held = []
            for k in chain:
                init = k.methods.get("__init__")
                if init is None:
                    continue
                for n in ast.walk(init):
                    if isinstance(n, (ast.Assign, ast.AnnAssign)) and n.value is not None:
                        ts = n.targets if isinstance(n, ast.Assign) else [n.target]
                        # only fields that are never reassigned afterwards keep ONE object for the holder's lifetime
                        if not any(ES.is_self_attr(t) and t.attr in consts for t in ts):
                            continue
                        for x in ast.walk(n.value):
                            if isinstance(x, ast.Call):
                                nm = x.func.id if isinstance(x.func, ast.Name) else (x.func.attr if isinstance(x.func, ast.Attribute) else None)
                                if nm and nm in world.by_name and nm != cname:
                                    held.append(nm)
            held = sorted(set(held))
            for h in held:
                todo.append((None, h, "<public>", cname))
            rows.append({
                "name": cname, "entry": entry, "missing": False, "holder": holder,
                "consts": sorted(consts), "helperReads": sorted(helper),
                "earlyReads": sorted(early - consts), "mayWrite": sorted(may), "dynamic": bool(dyn), "held": held,
            })
        return rows

    # ------------------------------------------------------------------ set iteration
    def set_iter_sites(self) -> list[dict]:
        SETM = {"intersection", "union", "difference", "symmetric_difference", "copy"}

        def ann_is_set(a):
            if a is None:
                return False
            s = ast.unparse(a).split("|")[0].strip()
            return s.startswith(("set", "Set", "frozenset", "AbstractSet", "typing.Set", "UsedOpsets", "MutableSet"))

        set_attrs, set_funcs = set(), set()
        for tree in self.trees.values():
            for n in ast.walk(tree):
                if isinstance(n, ast.AnnAssign) and ann_is_set(n.annotation) and isinstance(n.target, ast.Attribute):
                    set_attrs.add(n.target.attr)
                if isinstance(n, ast.Assign) and (
                    isinstance(n.value, (ast.Set, ast.SetComp))
                    or (isinstance(n.value, ast.Call) and isinstance(n.value.func, ast.Name) and n.value.func.id in ("set", "frozenset"))
                ):
                    for t in n.targets:
                        if isinstance(t, ast.Attribute):
                            set_attrs.add(t.attr)
                if isinstance(n, ast.FunctionDef) and ann_is_set(n.returns):
                    set_funcs.add(n.name)
                    if any("property" in ast.unparse(d) for d in n.decorator_list):
                        set_attrs.add(n.name)

        def is_set(e, local):
            if isinstance(e, (ast.Set, ast.SetComp)):
                return True
            if isinstance(e, ast.Call):
                fn = e.func
                if isinstance(fn, ast.Name) and fn.id in ("set", "frozenset"):
                    return True
                if isinstance(fn, ast.Attribute) and fn.attr in SETM and is_set(fn.value, local):
                    return True
                if isinstance(fn, ast.Attribute) and fn.attr in set_funcs:
                    return True
                if isinstance(fn, ast.Name) and fn.id in set_funcs:
                    return True
            if isinstance(e, ast.BinOp) and isinstance(e.op, (ast.BitOr, ast.BitAnd, ast.Sub, ast.BitXor)) and (is_set(e.left, local) or is_set(e.right, local)):
                return True
            if isinstance(e, ast.Name) and e.id in local:
                return True
            if isinstance(e, ast.Attribute) and e.attr in set_attrs:
                return True
            return False

        INSENSITIVE_CALLS = {"sorted", "set", "frozenset", "any", "all", "len", "min", "max", "sum"}
        SENSITIVE_CALLS = {"list", "tuple", "enumerate", "next", "iter", "zip", "map", "filter", "reversed"}
        sites = []
        for f, tree in self.trees.items():
            for q, fn, chain in qual_functions(tree):
                local = set()
                for a in fn.args.args + fn.args.kwonlyargs:
                    if ann_is_set(a.annotation):
                        local.add(a.arg)
                body = list(own_nodes(fn))
                changed = True
                while changed:
                    changed = False
                    for n in body:
                        if isinstance(n, ast.Assign) and is_set(n.value, local):
                            for t in n.targets:
                                if isinstance(t, ast.Name) and t.id not in local:
                                    local.add(t.id)
                                    changed = True
                        if isinstance(n, ast.AnnAssign) and isinstance(n.target, ast.Name) and n.target.id not in local and (
                            ann_is_set(n.annotation) or (n.value is not None and is_set(n.value, local))
                        ):
                            local.add(n.target.id)
                            changed = True
                # consumers
                parents = {}
                for n in body + [fn]:
                    for ch in ast.iter_child_nodes(n):
                        parents[ch] = n

                def add(node, it, sink, sensitive):
                    sites.append({"file": f, "line": node.lineno, "func": q, "expr": ast.unparse(it)[:60], "sink": sink, "orderSensitive": sensitive})

                for n in body:
                    if isinstance(n, (ast.For, ast.AsyncFor)) and is_set(n.iter, local):
                        add(n, n.iter, "for", True)
                    elif isinstance(n, (ast.ListComp, ast.DictComp, ast.GeneratorExp, ast.SetComp)):
                        for g in n.generators:
                            if is_set(g.iter, local):
                                sink = type(n).__name__
                                sens = not isinstance(n, ast.SetComp)
                                if isinstance(n, ast.GeneratorExp):
                                    p = parents.get(n)
                                    if isinstance(p, ast.Call) and isinstance(p.func, ast.Name) and p.func.id in INSENSITIVE_CALLS:
                                        sens, sink = False, "GeneratorExp->" + p.func.id
                                add(n, g.iter, sink, sens)
                    elif isinstance(n, ast.Call) and n.args and is_set(n.args[0], local):
                        fnn = n.func
                        nm = fnn.id if isinstance(fnn, ast.Name) else (fnn.attr if isinstance(fnn, ast.Attribute) else "")
                        if nm in INSENSITIVE_CALLS:
                            add(n, n.args[0], "call:" + nm, False)
                        elif nm in SENSITIVE_CALLS or nm in ("join", "extend"):
                            add(n, n.args[0], "call:" + nm, True)
                        elif nm == "update" and isinstance(fnn, ast.Attribute) and is_set(fnn.value, local):
                            add(n, n.args[0], "set.update", False)
                        elif nm == "update":
                            add(n, n.args[0], "call:update", True)
                    elif isinstance(n, ast.Starred) and is_set(n.value, local):
                        add(n, n.value, "star", True)
        return sorted(sites, key=lambda s: (s["file"], s["line"], s["sink"]))


def id_hash_sites(sc: "Scanner") -> list[dict]:
    """every `id(x)` / `hash(x)` call: object addresses and string hashes differ between processes, so they may only be used
    for membership tests (set/dict of ids) or inside __str__/__repr__ (diagnostics), never to name or order anything"""
    out = []
    for f, tree in sc.trees.items():
        for q, fn, chain in qual_functions(tree):
            parents = {}
            for n in own_nodes(fn):
                for ch in ast.iter_child_nodes(n):
                    parents[ch] = n
            for n in own_nodes(fn):
                if isinstance(n, ast.Call) and isinstance(n.func, ast.Name) and n.func.id in ("id", "hash") and len(n.args) == 1:
                    use = "other"
                    p = parents.get(n)
                    hops = 0
                    while p is not None and hops < 4:
                        if isinstance(p, ast.SetComp) or (isinstance(p, ast.Compare) and any(isinstance(o, (ast.In, ast.NotIn, ast.Eq, ast.NotEq, ast.Is, ast.IsNot)) for o in p.ops)):
                            use = "membership"
                            break
                        if isinstance(p, ast.Call) and isinstance(p.func, ast.Attribute) and p.func.attr in ("add", "discard", "remove") :
                            use = "membership"
                            break
                        if isinstance(p, ast.Subscript) and isinstance(parents.get(p), (ast.Assign, ast.Compare, ast.Expr, ast.Return, ast.If)) :
                            use = "membership"
                            break
                        p = parents.get(p)
                        hops += 1
                    if use == "other" and fn.name in ("__str__", "__repr__", "__hash__", "__eq__"):
                        use = "repr"
                    out.append({"site": f"{f.replace('onnxscript/', '')}:{q}", "call": n.func.id, "use": use})
    return sorted(out, key=lambda d: (d["site"], d["call"], d["use"]))


PRIVATE_ENTRIES = [("RewriteRuleSet", "_apply_to_graph_or_function", {"apply_to_model", "_apply_to_graph_or_function"})]


def private_entry_calls(sc: "Scanner") -> list[str]:
    """calls of a private method that relies on state its public entry sets up (RewriteRuleSet._value_names is
    (re)computed by apply_to_model only), from anywhere but that entry / itself"""
    out = []
    for cls, meth, allowed in PRIVATE_ENTRIES:
        for f, tree in sc.trees.items():
            for q, fn, chain in qual_functions(tree):
                in_cls = any(isinstance(c, ast.ClassDef) and c.name == cls for c in chain)
                if in_cls and fn.name in allowed:
                    continue
                for n in own_nodes(fn):
                    if isinstance(n, ast.Call) and isinstance(n.func, ast.Attribute) and n.func.attr == meth:
                        out.append(f"{f}:{q}")
    return sorted(set(out))


def extract(repo: Path) -> dict:
    sc = Scanner(repo)
    return {
        "privateEntryCalls": private_entry_calls(sc),
        "idHashSites": id_hash_sites(sc),
        "files": sc.files,
        "globalRows": sc.global_rows(),
        "registerCallsInFunctions": sc.register_calls_in_functions(),
        "entryRows": sc.entry_rows(),
        "setIterSites": sc.set_iter_sites(),
    }


# --------------------------------------------------------------------------- Lean emission

lstr, llist = ES.lstr, ES.llist


def emit_lean(d: dict) -> str:
    out = [
        "import OV.Model.C14Globals",
        "/-! GENERATED by harness/c14_globals.py from /repo — do not edit. -/",
        "namespace OV.Gen.C14Globals",
        "open OV.C14",
        "",
        "def globalRows : List GlobalRow := [",
    ]
    rows = []
    for r in d["globalRows"]:
        ws = ", ".join(
            "{ func := " + lstr(w["func"]) + ", how := " + lstr(w["how"]) + ", tag := " + lstr(w["tag"])
            + ", keyParams := " + llist(w["keyParams"]) + ", usedParams := " + llist(w["usedParams"]) + " }"
            for w in r["writes"]
        )
        rows.append("  { name := " + lstr(r["name"]) + ", kind := " + lstr(r["kind"]) + ", writes := [" + ws + "] }")
    out.append(",\n".join(rows))
    out += ["]", "", "/-- `register(...)` calls that sit inside a function body (would extend a registry after import) -/",
            "def registerCallsInFunctions : List String := " + llist(d["registerCallsInFunctions"]), "",
            "/-- calls of `RewriteRuleSet._apply_to_graph_or_function` from anywhere but `apply_to_model` / itself -/",
            "def privateEntryCalls : List String := " + llist(d["privateEntryCalls"]), "",
            "def entryRows : List EntryRow := ["]
    out.append(",\n".join(
        "  { name := " + lstr(r["name"]) + ", entry := " + lstr(r["entry"]) + f", missing := {str(r['missing']).lower()}"
        + f", dynamic := {str(bool(r.get('dynamic'))).lower()}"
        + ", consts := " + llist(r["consts"]) + ", earlyReads := " + llist(r["earlyReads"]) + ", helperReads := " + llist(r.get("helperReads", []))
        + ", mayWrite := " + llist(r["mayWrite"]) + ", held := " + llist(r.get("held", [])) + " }"
        for r in d["entryRows"]))
    out += ["]", "", "def setIterSites : List SetIterSite := ["]
    out.append(",\n".join(
        "  { site := " + lstr(f"{s['file'].replace('onnxscript/', '')}:{s['func']}") + ", expr := " + lstr(s["expr"]) + ", sink := " + lstr(s["sink"])
        + f", orderSensitive := {str(s['orderSensitive']).lower()}" + " }"
        for s in d["setIterSites"]))
    out += ["]", "", "/-- every `id(x)` / `hash(x)` call on the path: (site, function called, how the result is used) -/",
            "def idHashSites : List (String × String × String) := ["]
    out.append(",\n".join("  (" + lstr(x["site"]) + ", " + lstr(x["call"]) + ", " + lstr(x["use"]) + ")" for x in d["idHashSites"]))
    out += ["]", "", "end OV.Gen.C14Globals", ""]
    return "\n".join(out)


def write_lean(d: dict, lean_dir: Path) -> tuple[Path, bool]:
    text = emit_lean(d)
    p = lean_dir / "OV" / "Gen" / "C14Globals.lean"
    if p.exists() and p.read_text() == text:
        return p, False
    p.write_text(text)
    return p, True


if __name__ == "__main__":
    import json
    import sys

    repo = Path(os.environ.get("VERIF_REPO", "/repo"))
    d = extract(repo)
    for r in d["globalRows"]:
        if r["writes"] or "-v" in sys.argv:
            print("GLOBAL", r["name"], r["kind"], json.dumps(r["writes"]))
    print("frozen globals:", sum(1 for r in d["globalRows"] if not r["writes"]), "of", len(d["globalRows"]))
    print("register calls in functions:", d["registerCallsInFunctions"])
    for r in d["entryRows"]:
        print("ENTRY", json.dumps(r))
    for s in d["setIterSites"]:
        print("SETITER", s["file"], s["line"], s["func"], s["sink"], s["orderSensitive"], s["expr"])
    for x in d["idHashSites"]:
        print("IDHASH", x)
    if "--write" in sys.argv:
        print(write_lean(d, Path(__file__).resolve().parent.parent / "lean"))
