"""C09 part (a): direct correspondence of the real shape helpers / partial evaluators / shape-driven
rules with the Lean model, on generated symbolic shapes.  Every case is `(kind, driver_line, thunk)`;
the thunk calls the real code and returns the canonical answer the driver must print."""
from __future__ import annotations

from collections import Counter

from harness import c09_lib as L


H_INT64_MAX = 9223372036854775807
BINARY_OPS = ["Add", "And", "BitShift", "BitwiseAnd", "BitwiseOr", "BitwiseXor", "Div", "Equal", "Greater",
              "GreaterOrEqual", "Less", "LessOrEqual", "Mod", "Mul", "Or", "Pow", "PRelu", "Sub", "Xor"]


def rule_expected(model_verdict: str, impl_answer: str) -> str:
    """What the rule application must answer given the Lean verdict for the roles the code is SUPPOSED to
    pass: `<op>:<side>:no` or `<op>:<side>:fired:<in0>,<in1>` with the operands in their original order."""
    op, side, _ = impl_answer.split(":", 2)
    if model_verdict == "T":
        return f"{op}:{side}:fired:" + ("xin,yin" if side == "0" else "yin,xin")
    return f"{op}:{side}:no"


def _pair(rng, **kw):
    a = L.gen_shape(rng, **kw)
    return a, L.mutate_shape(rng, a, **kw)


def gen_helper_cases(rng, R: L.Real, n: int, stats: Counter):
    """Yield (kind, line, thunk, branch-tag fn)."""
    out = []

    def add(kind, line, thunk):
        out.append((kind, line, thunk))

    for _ in range(n):
        a, b = _pair(rng)
        add("sameShapeFold", f"sameShapeFold {L.enc_shape(a)} {L.enc_shape(b)}", lambda a=a, b=b: R.same_shape_fold(a, b))
        oa = None if rng.random() < 0.06 else a
        ob = None if rng.random() < 0.06 else b
        add("sameShape", f"sameShape {L.enc_shape(oa)} {L.enc_shape(ob)}", lambda a=oa, b=ob: R.same_shape(a, b))
        d1 = L.gen_dim(rng)
        d2 = d1 if rng.random() < 0.4 else L.gen_dim(rng)
        add("sameDim", f"sameDim {L.enc_dim(d1)} {L.enc_dim(d2)}", lambda a=d1, b=d2: R.same_dim(a, b))
        add("bcastDim", f"bcastDim {L.enc_dim(d1)} {L.enc_dim(d2)}", lambda a=d1, b=d2: R.bcast_dim(a, b))
        i = rng.randint(-5, 5)
        add("getDim", f"getDim {L.enc_shape(oa)} {i}", lambda s=oa, i=i: R.get_dim(s, i))
        # merge: same rank mostly
        ma = L.gen_oshape(rng)
        if ma is not None and rng.random() < 0.8:
            mb = [d if rng.random() < 0.5 else L.gen_dim(rng, p_unknown=0.3) for d in ma]
        else:
            mb = L.gen_oshape(rng)
        add("merge", f"merge {L.enc_shape(ma)} {L.enc_shape(mb)}", lambda a=ma, b=mb: R.merge(a, b))
        gi_ = rng.random() < 0.3
        add("evIdentity", f"evIdentity {1 if gi_ else 0} {L.enc_shape(ma)} {L.enc_shape(mb)}", lambda a=ma, b=mb, g=gi_: R.ev_identity(a, b, g))
        # broadcast
        x, y = _pair(rng)
        add("bcastShape", f"bcastShape {L.enc_shape(x)} {L.enc_shape(y)}", lambda a=x, b=y: R.bcast_shape(a, b))
        # dims sufficient / expand removable: e is an expansion-looking relative of x and y
        x = L.gen_shape(rng)
        y = L.mutate_shape(rng, x)
        e = gen_expansion(rng, x, y)
        add("dimsSuff", f"dimsSuff {L.enc_shape(e)} {L.enc_shape(x)} {L.enc_shape(y)}", lambda e=e, x=x, y=y: R.dims_suff(e, x, y))
        strat = rng.choice([1, 1, 2, 2, 3, 3, 0])
        ox = None if rng.random() < 0.04 else x
        oy = None if rng.random() < 0.04 else y
        const = eo = bo = None
        if strat == 1:
            const = [d if isinstance(d, int) else rng.choice(L.INTS) for d in e]
            eo = e if rng.random() < 0.5 else None
            bo = L.gen_shape(rng) if rng.random() < 0.3 else None
        elif strat == 2:
            eo = e
            bo = L.gen_shape(rng) if rng.random() < 0.3 else None
        elif strat == 3:
            bo = gen_bcast_like(rng, x, y)
        add(
            "expandRemovable",
            f"expandRemovable {L.enc_shape(ox)} {L.enc_shape(oy)} {L.enc_ints(const)} {L.enc_shape(eo)} {L.enc_shape(bo)}",
            lambda a=ox, b=oy, c=const, d=eo, f=bo: R.expand_removable(a, b, c, d, f),
        )
        # ---- the rule objects themselves (which value plays which role, per side, per op family)
        for _k in range(2):
            rx = L.gen_shape(rng, max_rank=3)
            ry = L.mutate_shape(rng, rx)
            op = rng.choice(BINARY_OPS)
            side = rng.choice([0, 1])
            tkind = rng.choice(["c", "i", "i", "s"])
            re_ = gen_expansion(rng, rx, ry)
            if rng.random() < 0.35:
                # an expansion that really changes the result: new leading dim or a stretched 1
                re_ = [rng.choice(["K", 2, 5])] + list(re_) if rng.random() < 0.5 else [("K" if (isinstance(d, int) and d == 1) else d) for d in re_]
            rconst = None
            if tkind == "c":
                rconst = [d if isinstance(d, int) else rng.choice(L.INTS) for d in re_]
            reo = re_ if rng.random() < 0.5 else None
            rbo = gen_bcast_like(rng, rx, ry) if rng.random() < 0.45 else None
            if rng.random() < 0.03:
                rx = None
            use_set = rng.random() < 0.5
            add(
                "ruleExpandBinary",
                f"ruleFires {op} {side} {1 if use_set else 0} {L.enc_shape(rx)} {L.enc_shape(ry)} {L.enc_ints(rconst)} {L.enc_shape(reo)} {L.enc_shape(rbo)}",
                lambda op=op, side=side, a=rx, b=ry, tk=tkind, c=rconst, eo=reo, bo=rbo, us=use_set: (
                    f"{op}:{side}:" + R.rule_expand_binary(op, side, a, b, tk, c, eo, bo, us)),
            )
        # ---- ScatterAllDynamic: Shape(start) -> Gather(axis) -> Range -> Unsqueeze -> ScatterND
        sd = L.gen_shape(rng, max_rank=3, p_unknown=0.1)
        if not sd:
            sd = [L.gen_dim(rng)]
        sst = rng.choice([0, 0, 0, None, 1, -1])
        sax = rng.randint(-len(sd), len(sd) - 1)
        std = [sd[sax] if rng.random() < 0.6 else L.gen_dim(rng)] + [rng.choice([2, "M", 1]) for _ in range(rng.randint(0, 2))]
        add("ruleScatterDyn", f"scatterDyn {L.enc_oint(sst)} {sax} {L.enc_shape(sd)} {L.enc_shape(std)}",
            lambda a=sst, b=sax, c=sd, d=std: R.rule_scatter_dyn(a, b, c, d))
        # ---- ScatterAllStatic
        ds = L.gen_oshape(rng, p_none=0.05, p_unknown=0.08)
        if ds is not None and not ds:
            ds = [rng.choice([2, 3])]
        if ds is not None and rng.random() < 0.7:
            ds = [rng.choice([0, 1, 2, 3])] + ds[1:]
        us = ds if rng.random() < 0.75 else L.gen_oshape(rng)
        n0 = ds[0] if (ds and isinstance(ds[0], int)) else 2
        r_ = rng.random()
        if r_ < 0.6:
            rows = [[i] for i in range(n0)]
        elif r_ < 0.7:
            rows = [[i] for i in range(n0 + 1)]
        elif r_ < 0.8:
            rows = [[i] for i in reversed(range(n0))]
        elif r_ < 0.9:
            rows = [[i, 0] for i in range(n0)]
        else:
            rows = None
        red = rng.choice([None, "none", "none", "add"])
        enc_rows = "N" if rows is None else ("-" if not rows else ";".join(",".join(map(str, r)) for r in rows))
        add("ruleScatterStatic", f"scatterStatic {0 if red == 'add' else 1} {L.enc_shape(ds)} {L.enc_shape(us)} {enc_rows}",
            lambda a=red, b=ds, c=us, d=rows: R.rule_scatter_static(a, b, c, d))
        # ---- collapse_slice rules
        cd = L.gen_oshape(rng, p_none=0.06)
        if cd is not None and not cd:
            cd = [L.gen_dim(rng)]
        rk = len(cd) if cd else 2
        cax = rng.randint(-rk, rk - 1)
        dd = cd[cax] if cd else None
        cst = rng.choice([0, 0, 0, 0, 1, -1])
        cen = rng.choice([H_INT64_MAX, H_INT64_MAX, 1, 2, 3, 7, 8, (dd if isinstance(dd, int) else 5)])
        csp = rng.choice([1, 1, 1, 1, 2, -1])

        def cv(v):
            r2 = rng.random()
            return None if r2 < 0.06 else ([v, v] if r2 < 0.12 else [v])

        a_st, a_en, a_ax, a_sp = cv(cst), cv(cen), cv(cax), cv(csp)

        def one(v):
            return None if (v is None or len(v) != 1) else v[0]

        add("ruleCollapseSlice1",
            f"redundantSlice {L.enc_oint(one(a_st))} {L.enc_oint(one(a_en))} {L.enc_oint(one(a_ax))} {L.enc_oint(one(a_sp))} {L.enc_shape(cd)}",
            lambda a=a_st, b=a_en, c=a_ax, d=a_sp, e=cd: R.rule_collapse_slice(1, a, b, c, d, e, None))
        co = cd if rng.random() < 0.6 else (L.mutate_shape(rng, cd) if cd is not None else L.gen_oshape(rng))
        if rng.random() < 0.08:
            co = None
        add("ruleCollapseSlice2", f"sliceSameShape {L.enc_shape(cd)} {L.enc_shape(co)} {L.enc_ints(a_sp)}",
            lambda a=a_st, b=a_en, c=a_ax, d=a_sp, e=cd, f=co: R.rule_collapse_slice(2, a if a else [0], b if b else [5], c if c else [0], d, e, f))
        # ---- ReshapeReshape: Reshape(Reshape(x, s0), shape) -> Reshape(x, new_shape)
        rk_ = rng.choice([1, 2, 2, 3, 3, 4])
        pat = rng.random()
        rsh = [rng.choice([1, 2, 3, 5, 7, 4]) for _ in range(rk_)]
        if pat < 0.3:      # one 0, nothing negative
            rsh[rng.randrange(rk_)] = 0
        elif pat < 0.45:   # one -1
            rsh[rng.randrange(rk_)] = -1
        elif pat < 0.6:    # 0 and -1 mixed freely
            rsh = [rng.choice([0, -1, 2, 3]) for _ in range(rk_)]
            if rk_ >= 2 and rng.random() < 0.5:
                i_, j_ = rng.sample(range(rk_), 2)
                rsh[i_], rsh[j_] = 0, -1
        elif pat < 0.7:    # several zeros
            rsh = [rng.choice([0, 0, 2]) for _ in range(rk_)]
        elif pat < 0.75:
            rsh[rng.randrange(rk_)] = rng.choice([-2, -1, 0])
        if rng.random() < 0.25:
            rout = None
        else:
            rl = rk_ + (rng.choice([1, -1, 2]) if rng.random() < 0.15 else 0)
            rout = []
            for i_ in range(max(rl, 0)):
                c_ = rng.random()
                sv_ = rsh[i_] if i_ < rk_ else 5
                if c_ < 0.45:
                    rout.append(sv_ if sv_ > 0 else rng.choice([2, 3, 6, 1]))
                elif c_ < 0.75:
                    rout.append(rng.choice(L.NAMES))
                elif c_ < 0.87:
                    rout.append(None)
                elif c_ < 0.95:
                    rout.append(0)
                else:
                    rout.append(rng.choice([2, 6]))
        raz = rng.choice([None, None, 0, 1, 1, 1, 2])
        if 0.45 <= pat < 0.7 and rng.random() < 0.5:
            # keep the failing-check paths (0 beside a negative entry, several zeros) frequent: nothing overwrites, allowzero off
            rout, raz = None, rng.choice([None, 0])
        rdyn = rng.random() < 0.05
        rx = L.gen_oshape(rng, p_none=0.1, max_rank=3)
        rs0 = rng.choice([[-1], [0, -1], None, [1, -1]])
        riaz = rng.choice([None, None, 1])
        add("ruleReshapeReshape",
            f"reshapeReshape {'N' if rdyn else L.enc_ints(rsh)} {L.enc_shape(rout)} {0 if raz is None else raz}",
            lambda a=rsh, b=rout, c=raz, d=rx, e=rs0, f=rdyn, g=riaz: R.rule_reshape_reshape(("dyn", len(a)) if f else a, b, c, d, e, g))
        # ---- SqueezeReshape1d and get_shape_value
        sx = L.gen_oshape(rng, p_none=0.1, max_rank=2)
        add("ruleSqueezeReshape", f"squeezeReshape {L.enc_shape(sx)}", lambda a=sx: R.rule_squeeze_reshape(a))
        gk = rng.choice(["c", "c", "c", "n"])
        gi = rng.random() < 0.8
        gn = rng.choice([1, 1, 1, 0, 2])
        gv = [rng.choice([0, 1, 2, 3, -1, 7]) for _ in range(1 if gn == 0 else rng.choice([0, 1, 2, 3, 10, 11, 12]))]
        gs = gen_shape_value(rng, p_none=0.4)
        add("getShapeValue", f"getShapeValue {gk} {1 if gi else 0} {gn} {L.enc_ints(gv)} {L.enc_shape(gs)}",
            lambda a=gk, b=gi, c=gn, d=gv, e=gs: R.get_shape_value(a, b, c, d, e))
        # ---- no-op arithmetic rules: the matcher's scalar test on the constant operand
        nop = rng.choice(["Mul", "Add", "Sub", "Div"])
        nside = rng.choice([0, 1])
        ncs = rng.choice([[], [], [1], [1], [1, 1], [2], [1, 2]])
        neutral = 1.0 if nop in ("Mul", "Div") else 0.0
        nval = neutral if rng.random() < 0.75 else rng.choice([2.0, 0.0 if neutral == 1.0 else 1.0, -1.0])
        nx = L.gen_oshape(rng, p_none=0.05, max_rank=3)
        nin = rng.random() < 0.5
        add("ruleNoOp", f"noOp {nop} {nside} {len(ncs)} {1 if nval == neutral else 0}",
            lambda a=nop, b=nside, c=nx, d=ncs, e=nval, f=nin: R.rule_no_op(a, b, c, d, e, f))
        # ---- evaluators
        s = L.gen_oshape(rng)
        st = rng.choice([0, 0, 0, 1, 2, -1, -2, 5, -7])
        en = rng.choice([None, None, 1, 2, 3, -1, -3, 9, 0])
        add("evShape", f"evShape {L.enc_shape(s)} {st} {L.enc_oint(en)}", lambda s=s, st=st, en=en: R.ev_shape(s, st, en, rng))
        add("evSize", f"evSize {L.enc_shape(s)}", lambda s=s: R.ev_size(s))
        sv = gen_shape_value(rng)
        ax = rng.choice([0, 0, 0, 0, None, 1, -1])
        nidx = rng.randint(0, 3)
        ln = len(sv) if sv else 2
        idx = None if rng.random() < 0.08 else [rng.randint(-ln - 1, ln) if rng.random() < 0.25 else rng.randint(-ln, max(ln - 1, -ln)) for _ in range(nidx)]
        cg = rng.random() < 0.5
        add("evGather", f"evGather {L.enc_shape(sv)} {L.enc_oint(ax)} {L.enc_ints(idx)}", lambda sv=sv, ax=ax, idx=idx, cg=cg: R.ev_gather(sv, ax, idx, cg))
        a1 = gen_shape_value(rng, short=True)
        b1 = gen_shape_value(rng, short=True)
        ca, cb = rng.random() < 0.5, rng.random() < 0.5
        add("evAdd", f"evAdd {L.enc_shape(a1)} {L.enc_shape(b1)}", lambda a=a1, b=b1, ca=ca, cb=cb: R.ev_add(a, b, ca, cb))
        add("evAbs", f"evAbs {L.enc_shape(sv)}", lambda a=sv, c=cg: R.ev_abs(a, c))
        ish = L.gen_oshape(rng)
        if ish is not None and rng.random() < 0.6:
            sval = L.mutate_shape(rng, ish) if rng.random() < 0.5 else list(ish)
        else:
            sval = gen_shape_value(rng)
        isym = gen_shape_value(rng)
        cs = rng.random() < 0.5
        add("evReshape", f"evReshape {L.enc_shape(ish)} {L.enc_shape(sval)} {L.enc_shape(isym)}", lambda i=ish, v=sval, s=isym, c=cs: R.ev_reshape(i, v, s, c))
        add("evSqueeze", f"evSqueeze {L.enc_shape(isym)}", lambda s=isym: R.ev_squeeze(s))
        kind = rng.choice(["c", "c", "n", "n", "m"])
        if kind in "cm":
            if ish is not None and all(isinstance(d, int) for d in ish) and rng.random() < 0.6:
                cT = list(ish)
            elif ish is not None and rng.random() < 0.45:
                # a target that broadcasts to the input shape itself through 1s; optionally rank-extending by leading 1s
                lead = rng.choice([0, 1, 1, 2])
                cT = [1] * lead + [(d if isinstance(d, int) and rng.random() < 0.6 else 1) for d in ish]
                stats["br_expandIdentityRule:target_lead1" if lead else "br_expandIdentityRule:target_ones"] += 1
            else:
                cT = [rng.choice(L.INTS) for _ in range(rng.randint(0, 3))]
            add("evExpand", f"evExpand {L.enc_shape(ish)} {kind} {L.enc_ints(cT)} N", lambda i=ish, k=kind, c=cT: R.ev_expand(i, k, c, None))
            add("expandIdentityRule", f"expandIdentityRule {L.enc_shape(ish)} {L.enc_ints(cT)}", lambda i=ish, c=cT: R.rule_expand_identity(i, c))
        else:
            st_ = sval
            # a shape value that is all-int would be read as a constant by the real code path `n`: keep it symbolic
            add("evExpand", f"evExpand {L.enc_shape(ish)} n N {L.enc_shape(st_)}", lambda i=ish, t=st_: R.ev_expand(i, "n", None, t))
        # concat
        nin = rng.choice([1, 2, 2, 3, 3, 0]) if rng.random() < 0.9 else 4
        cax = rng.choice([0, 0, 0, None, 1, -1])
        ins = []
        for _ in range(nin):
            svk = gen_shape_value(rng, p_none=0.15)
            if svk is not None and rng.random() < 0.8:
                tshape = [len(svk)]
            else:
                tshape = L.gen_oshape(rng)
            ins.append((tshape, svk))
        if rng.random() < 0.15:
            # concat-compatible operands that are all empty along an axis other than the concat axis
            rr_ = rng.choice([2, 2, 3])
            cax = rng.randrange(rr_)
            zx_ = rng.choice([i for i in range(rr_) if i != cax])
            base_ = [rng.choice(["N", "M", 2, 3]) for _ in range(rr_)]
            base_[zx_] = 0
            ins = []
            for _ in range(rng.choice([2, 2, 3])):
                sh_ = list(base_)
                sh_[cax] = rng.choice(["N", "M", "B", 1, 2, 0])
                ins.append((sh_, None))
            if rng.random() < 0.4:
                cax -= rr_
            nin = len(ins)
            stats["br_evConcat:zero_other_axis"] += 1
        consts = [rng.random() < 0.5 for _ in ins]
        if nin > 0:
            add(
                "evConcat",
                "evConcat " + L.enc_oint(cax) + "".join(f" {L.enc_shape(t)} {L.enc_shape(v)}" for t, v in ins),
                lambda ins=ins, ax=cax, cs=consts: R.ev_concat(ins, ax, cs),
            )
        # rules
        osh = L.gen_oshape(rng, p_unknown=0.2)
        isc = rng.random() < 0.1
        add("materialize", f"materialize {L.enc_shape(osh)} {1 if isc else 0}", lambda o=osh, c=isc: R.rule_materialize(o, c))
        fin = L.gen_oshape(rng, p_none=0.1)
        rk = len(fin) if fin is not None else 3
        fax = rng.randint(-rk, rk)
        fo = rng.choice([None, [None, None], [None, None], ["F0", "F1"]]) if rng.random() < 0.7 else [rng.choice([None, 0, 1, 2, 6]), rng.choice([None, 0, 1, 3, 6])]
        add("flatten", f"flatten {L.enc_shape(fin)} {L.enc_shape(fo)} {fax}", lambda i=fin, o=fo, a=fax: R.rule_flatten(i, o, a, rng))
    return out


def gen_shape_value(rng, p_none=0.08, short=False):
    """A shape *value*: entries may be negative ints."""
    if rng.random() < p_none:
        return None
    n = 1 if (short and rng.random() < 0.8) else rng.choice([0, 1, 1, 2, 3])
    out = []
    for _ in range(n):
        r = rng.random()
        if r < 0.1:
            out.append(None)
        elif r < 0.45:
            out.append(rng.choice(L.NAMES))
        else:
            out.append(rng.choice([0, 1, 2, 3, 7, -1, -5]))
    return out


def gen_expansion(rng, x, y):
    """A plausible Expand output/target for x: per dim x_d, y_d, 1 or something else; maybe longer."""
    r = max(len(x), len(y)) if rng.random() < 0.7 else len(x)
    if rng.random() < 0.15:
        r += 1
    if rng.random() < 0.1 and r > 0:
        r -= 1
    e = []
    for k in range(r):
        xi = len(x) - r + k
        yi = len(y) - r + k
        xd = x[xi] if 0 <= xi < len(x) else 1
        yd = y[yi] if 0 <= yi < len(y) else 1
        c = rng.random()
        if c < 0.45:
            e.append(xd)
        elif c < 0.75:
            e.append(yd)
        elif c < 0.85:
            e.append(1)
        else:
            e.append(L.gen_dim(rng))
    return e


def gen_bcast_like(rng, x, y):
    """Something near broadcast(x, y) (symbolically), for strategy 3."""
    r = max(len(x), len(y))
    o = []
    for k in range(r):
        xi = len(x) - r + k
        yi = len(y) - r + k
        xd = x[xi] if xi >= 0 else 1
        yd = y[yi] if yi >= 0 else 1
        if isinstance(xd, int) and xd == 1:
            o.append(yd)
        elif isinstance(yd, int) and yd == 1:
            o.append(xd)
        else:
            o.append(xd if rng.random() < 0.7 else yd)
    if rng.random() < 0.15 and o:
        o[rng.randrange(len(o))] = L.gen_dim(rng)
    if rng.random() < 0.07:
        o = [1] + o
    return o


def dec_oints(t):
    return None if t == "N" else ([] if t == "-" else [int(v) for v in t.split(",")])


def dec_oshape(t):
    if t == "N":
        return None
    if t == "-":
        return []
    return [None if d == "u" else int(d[1:]) if d[0] == "k" else d[1:] for d in t.split(",")]


def rr_branches(line: str, answer: str):
    """Branch labels of a `reshapeReshape` case (which path of ReshapeReshape.check it takes), from its inputs."""
    t = line.split(" ")
    shape, out, az = dec_oints(t[1]), dec_oshape(t[2]), int(t[3])
    k = "ruleReshapeReshape:"
    if shape is None:
        return [k + "N:notconst"]
    labs = [k + ("out_known" if out is not None else "out_none")]
    u = list(shape)
    raised = False
    for i, d in enumerate(out or []):
        if isinstance(d, int) and d > 0:
            if i >= len(u):
                raised = True
                break
            if u[i] == 0:
                labs.append(k + "upd:zero")
            elif u[i] == -1:
                labs.append(k + "upd:neg")
            u[i] = d
    if raised:
        return labs + [k + "RAISE"]
    if out is not None and len(out) < len(shape):
        labs.append(k + "out_short")
    if az == 1 and 0 in u:
        return labs + [k + "az1"]
    if az == 1:
        labs.append(k + "az1_nozero")
    if 0 in u and any(v < 0 for v in u):
        return labs + [k + "N:zero_and_neg"]
    if u.count(0) > 1:
        return labs + [k + "N:two_zeros"]
    return labs + [k + ("az0:zero2neg" if 0 in u else "az0:plain")]


def spec_reshape(inp, tgt, az):
    """ONNX Reshape output shape (python twin of the Lean `reshapeTarget`, which is tied to onnxruntime per run); None = rejected."""
    if tgt.count(-1) > 1 or any(d < -1 for d in tgt) or (az and 0 in tgt and -1 in tgt):
        return None
    t1 = []
    for i, d in enumerate(tgt):
        if d == 0 and not az:
            if i >= len(inp):
                return None
            t1.append(inp[i])
        else:
            t1.append(d)
    P = 1
    for d in inp:
        P *= d
    if -1 in t1:
        kk = 1
        for d in t1:
            if d != -1:
                kk *= d
        if kk == 0 or P % kk:
            return None
        return [P // kk if d == -1 else d for d in t1]
    q = 1
    for d in t1:
        q *= d
    return t1 if q == P else None


def branch_of(kind: str, answer: str) -> str:
    """Coarse branch label of a case from the (agreed) answer, for the histogram."""
    a = answer
    if kind in ("dimsSuff",):
        return kind + ":" + a.split(":")[0]
    if kind == "expandRemovable":
        return kind + ":" + a.split(":")[0]
    if kind == "getShapeValue":
        return kind + ":" + ("N" if a == "N" else "some")
    if kind == "ruleExpandBinary":
        p = a.split(":")
        return kind + ":side" + p[1] + ":" + p[2]
    if kind in ("evConcat",):
        return kind + ":" + a.split(":")[0]
    if kind in ("materialize", "flatten", "merge", "bcastShape", "bcastDim", "getDim"):
        return kind + ":" + ("N" if a == "N" else "RAISE" if a == "RAISE" else "some")
    if kind in ("evShape", "evGather"):
        if a in ("none", "RAISE"):
            return kind + ":" + a
        return kind + ":" + ("const" if not a.endswith(" N") else "symonly")
    if kind in ("evSize",):
        return kind + ":" + ("none" if a == "none" else "const")
    if kind in ("evAdd", "evSqueeze", "evIdentity"):
        return kind + ":" + ("N" if a == "N" else "sym" if "s" in a else "int")
    return kind + ":" + a.split(" ")[0]


# --------------------------------------------------------------------------- specification side


class SpecOracle:
    """onnxruntime / numpy answers for the specification functions of the Lean model."""

    def __init__(self):
        import onnxruntime as ort
        from onnx import TensorProto, helper

        ort.set_default_logger_severity(4)
        self.ort = ort
        so = ort.SessionOptions()
        so.graph_optimization_level = ort.GraphOptimizationLevel.ORT_DISABLE_ALL
        so.log_severity_level = 4
        self.sess = {}
        for rank in range(0, 4):
            for az in (0, 1):
                g = helper.make_graph(
                    [helper.make_node("Reshape", ["x", "t"], ["y"], allowzero=az)], "g",
                    [helper.make_tensor_value_info("x", TensorProto.FLOAT, [None] * rank),
                     helper.make_tensor_value_info("t", TensorProto.INT64, [None])],
                    [helper.make_tensor_value_info("y", TensorProto.FLOAT, None)])
                m = helper.make_model(g, opset_imports=[helper.make_opsetid("", 18)], ir_version=8)
                self.sess[("reshape", rank, az)] = ort.InferenceSession(m.SerializeToString(), so, providers=["CPUExecutionProvider"])
            g = helper.make_graph(
                [helper.make_node("Expand", ["x", "t"], ["y"])], "g",
                [helper.make_tensor_value_info("x", TensorProto.FLOAT, [None] * rank),
                 helper.make_tensor_value_info("t", TensorProto.INT64, [None])],
                [helper.make_tensor_value_info("y", TensorProto.FLOAT, None)])
            m = helper.make_model(g, opset_imports=[helper.make_opsetid("", 18)], ir_version=8)
            self.sess[("expand", rank)] = ort.InferenceSession(m.SerializeToString(), so, providers=["CPUExecutionProvider"])
        g = helper.make_graph(
            [helper.make_node("Gather", ["x", "i"], ["y"], axis=0)], "g",
            [helper.make_tensor_value_info("x", TensorProto.INT64, [None]), helper.make_tensor_value_info("i", TensorProto.INT64, [None])],
            [helper.make_tensor_value_info("y", TensorProto.INT64, None)])
        m = helper.make_model(g, opset_imports=[helper.make_opsetid("", 18)], ir_version=8)
        self.sess[("gather",)] = ort.InferenceSession(m.SerializeToString(), so, providers=["CPUExecutionProvider"])
        self.ro = ort.RunOptions()
        self.ro.log_severity_level = 4

    def gather(self, l, idx):
        import numpy as np

        try:
            y = self.sess[("gather",)].run(None, {"x": np.array(l, np.int64), "i": np.array(idx, np.int64)}, self.ro)[0]
            return L.enc_ints(y.tolist())
        except Exception:
            return "N"

    def reshape(self, inp, tgt, az):
        import numpy as np

        try:
            y = self.sess[("reshape", len(inp), az)].run(None, {"x": np.zeros(inp, np.float32), "t": np.array(tgt, np.int64)}, self.ro)[0]
            return L.enc_ints(list(y.shape))
        except Exception:
            return "N"

    def expand(self, inp, tgt):
        import numpy as np

        try:
            y = self.sess[("expand", len(inp))].run(None, {"x": np.zeros(inp, np.float32), "t": np.array(tgt, np.int64)}, self.ro)[0]
            return L.enc_ints(list(y.shape))
        except Exception:
            return "N"


def gen_spec_cases(rng, S: SpecOracle, n: int):
    import numpy as np

    out = []
    for _ in range(n):
        inp = [rng.choice([0, 1, 2, 3, 4, 6]) for _ in range(rng.randint(0, 3))]
        total = int(np.prod(inp)) if inp else 1
        k = rng.randint(0, 3)
        tgt = []
        for j in range(k):
            r = rng.random()
            if r < 0.2:
                tgt.append(-1)
            elif r < 0.4:
                tgt.append(0)
            elif r < 0.7 and j < len(inp):
                tgt.append(inp[j])
            else:
                tgt.append(rng.choice([1, 2, 3, 4, 6, max(total, 1)]))
        if rng.random() < 0.4 and inp:
            # a target that really fits
            tgt = [d for d in inp if rng.random() < 0.8] or [total]
            rest = total
            ok = True
            for d in tgt:
                if d == 0 or rest % d:
                    ok = False
                    break
                rest //= d
            if ok:
                tgt.append(-1 if rng.random() < 0.5 else rest)
        az = rng.choice([0, 1])
        if az == 1 and 0 in tgt and -1 in tgt:
            # invalid per the specification; onnxruntime's kernel is lenient for a *dynamic* target
            # (its load-time shape inference rejects the same target when it is a constant): not compared
            az = 0
        out.append(("spec_reshape", f"reshape {L.enc_ints(inp)} {L.enc_ints(tgt)} {az}", lambda i=inp, t=tgt, a=az: S.reshape(i, t, a)))
        a = [rng.choice([0, 1, 1, 2, 3]) for _ in range(rng.randint(0, 3))]
        b = [d if rng.random() < 0.5 else rng.choice([0, 1, 2, 3]) for d in a][rng.randint(0, 1):]
        if rng.random() < 0.3:
            b = [rng.choice([1, 2])] + b
        b = b[:3] if len(b) > 3 else b

        def np_b(a=a, b=b):
            try:
                return L.enc_ints(list(np.broadcast_shapes(tuple(a), tuple(b))))
            except ValueError:
                return "N"

        out.append(("spec_broadcast", f"broadcast {L.enc_ints(a)} {L.enc_ints(b)}", np_b))
        out.append(("spec_expand_ort", f"broadcast {L.enc_ints(a)} {L.enc_ints(b)}", lambda a=a, b=b: S.expand(a, b)))
        fl = [rng.choice([0, 1, 2, 3]) for _ in range(rng.randint(0, 3))]
        ax = rng.randint(0, len(fl))
        out.append(("spec_flatten", f"flattenSpec {L.enc_ints(fl)} {ax}",
                    lambda fl=fl, ax=ax: L.enc_ints([int(np.prod(fl[:ax])) if fl[:ax] else 1, int(np.prod(fl[ax:])) if fl[ax:] else 1])))
        st = rng.randint(-5, 5)
        en = rng.choice([None, rng.randint(-5, 5)])
        gl = [rng.randint(-3, 9) for _ in range(rng.randint(1, 4))]
        gi = [rng.randint(-len(gl) - 1, len(gl)) for _ in range(rng.randint(0, 3))]
        out.append(("spec_gather", f"gatherSpec {L.enc_ints(gl)} {L.enc_ints(gi)}", lambda a=gl, b=gi: S.gather(a, b)))
        out.append(("spec_shape_slice", f"shapeSlice {L.enc_ints(fl)} {st} {L.enc_oint(en)}", lambda fl=fl, st=st, en=en: L.enc_ints(fl[st:en])))
    return out
