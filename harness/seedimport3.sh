#!/bin/bash
# usage: harness/seedimport3.sh C05 6   — copies /tmp/mut_c05/_seeded/k to seeded/C05-(k+6), round 3, confirms (no check run)
P=$1; OFF=$2; p=$(echo $P | tr A-Z a-z)
cd "$(dirname "$0")/.."
for d in /tmp/mut_$p/_seeded/*/; do
  k=$(basename $d); case $k in [0-9]*) ;; *) continue;; esac
  n=$((k+OFF)); mkdir -p seeded/$P-$n; cp $d/* seeded/$P-$n/
  python3 - <<PY
import json
p='seeded/$P-$n/meta.json'
m=json.load(open(p)); m['round']=3; json.dump(m,open(p,'w'),indent=1)
PY
  /venv/bin/python harness/seedconfirm.py $P-$n /tmp/mut_$p 2>&1 | grep -v conda | cut -c1-220
done
