"""C15 proto comparison: field-wise inclusion, canonical equality, carrier extraction.

`diff(a, b)` walks two protobuf messages of the same type and returns a list of `(path, kind, detail)`:
  lost             field populated in `a` with a non-default value, absent in `b`
  changed          field populated in both with different values
  added            field populated in `b` only
  dropped-default  field *explicitly set to its default* in `a`, absent in `b`   (allowed by the property)
  added-default    the converse
Repeated message fields that are *maps or keyed sets by ONNX's own semantics* are matched by key, not by
position: metadata_props / external_data / quant_parameter_tensor_names (key), opset_import (domain), value_info
(name), initializer (name), functions (domain, name, overload), quantization_annotation (tensor_name).  Everything
else (nodes, inputs, outputs, attributes, dims, …) is positional.  Floats are compared by their IEEE bytes, never
by `==` (NaN payloads, -0.0).
"""
from __future__ import annotations

import struct

import onnx
from google.protobuf.descriptor import FieldDescriptor as FD

KEYED = {
    ("StringStringEntryProto", None): lambda e: e.key,
    ("OperatorSetIdProto", None): lambda e: e.domain,
    ("ValueInfoProto", "value_info"): lambda e: e.name,
    ("TensorProto", "initializer"): lambda e: e.name,
    ("FunctionProto", "functions"): lambda e: (e.domain, e.name, e.overload),
    ("TensorAnnotation", None): lambda e: e.tensor_name,
}


def _key_fn(fd):
    t = fd.message_type.name
    return KEYED.get((t, fd.name)) or KEYED.get((t, None))


def _scalar_bytes(fd, v) -> bytes:
    if fd.type in (FD.TYPE_FLOAT, FD.TYPE_DOUBLE):
        return struct.pack("<d", v)
    if isinstance(v, bytes):
        return v
    return repr(v).encode()


def _is_default(fd, v) -> bool:
    if fd.type == FD.TYPE_MESSAGE:
        return v.ByteSize() == 0
    return v == fd.default_value and _scalar_bytes(fd, v) == _scalar_bytes(fd, fd.default_value)


def _is_repeated(fd) -> bool:
    try:
        return fd.is_repeated
    except AttributeError:  # older protobuf
        return fd.label == FD.LABEL_REPEATED


def diff(a, b, path: str = "", out: list | None = None) -> list:
    out = [] if out is None else out
    if a.DESCRIPTOR is not b.DESCRIPTOR:
        out.append((path, "changed", "message type"))
        return out
    for fd in a.DESCRIPTOR.fields:
        p = f"{path}.{fd.name}" if path else fd.name
        if _is_repeated(fd):
            la, lb = list(getattr(a, fd.name)), list(getattr(b, fd.name))
            if fd.type == FD.TYPE_MESSAGE:
                kf = _key_fn(fd)
                if kf is not None:
                    da, db = {}, {}
                    for e in la:
                        da.setdefault(kf(e), []).append(e)
                    for e in lb:
                        db.setdefault(kf(e), []).append(e)
                    for k in da:
                        if k not in db:
                            out.append((f"{p}[{k!r}]", "lost", ""))
                        elif len(da[k]) != len(db[k]):
                            out.append((f"{p}[{k!r}]", "changed", f"multiplicity {len(da[k])} -> {len(db[k])}"))
                        else:
                            for x, y in zip(da[k], db[k]):
                                diff(x, y, f"{p}[{k!r}]", out)
                    for k in db:
                        if k not in da:
                            out.append((f"{p}[{k!r}]", "added", ""))
                else:
                    if len(la) != len(lb):
                        out.append((p, "changed", f"length {len(la)} -> {len(lb)}"))
                    for i, (x, y) in enumerate(zip(la, lb)):
                        diff(x, y, f"{p}[{i}]", out)
            else:
                if [_scalar_bytes(fd, v) for v in la] != [_scalar_bytes(fd, v) for v in lb]:
                    if la and not lb:
                        out.append((p, "lost", f"{len(la)} elements"))
                    elif lb and not la:
                        out.append((p, "added", f"{len(lb)} elements"))
                    else:
                        out.append((p, "changed", f"{str(la)[:60]} -> {str(lb)[:60]}"))
            continue
        ha, hb = a.HasField(fd.name), b.HasField(fd.name)
        if ha and hb:
            va, vb = getattr(a, fd.name), getattr(b, fd.name)
            if fd.type == FD.TYPE_MESSAGE:
                diff(va, vb, p, out)
            elif _scalar_bytes(fd, va) != _scalar_bytes(fd, vb):
                out.append((p, "changed", f"{str(va)[:60]!r} -> {str(vb)[:60]!r}"))
        elif ha:
            out.append((p, "dropped-default" if _is_default(fd, getattr(a, fd.name)) else "lost", ""))
        elif hb:
            out.append((p, "added-default" if _is_default(fd, getattr(b, fd.name)) else "added", ""))
    return out


HARD = ("lost", "changed", "added")


def hard(diffs: list) -> list:
    return [d for d in diffs if d[1] in HARD]


def canon_equal(a, b) -> list:
    """Differences other than map order / explicit-default presence ([] = canonically equal)."""
    if a.SerializeToString(deterministic=True) == b.SerializeToString(deterministic=True):
        return []
    return hard(diff(a, b))


# ---------------------------------------------------------------------------------- carriers

CARRIERS = [
    "irVersion", "producerName", "producerVersion", "domain", "modelVersion", "docString", "metadataProps",
    "opsetImports", "functions", "graphName", "graphDoc", "graphInputs", "graphOutputs", "valueInfo",
    "initializers", "nodes", "graphMeta", "otherGraph", "otherModel",
]

_SCALARS = {
    "irVersion": "ir_version", "producerName": "producer_name", "producerVersion": "producer_version",
    "domain": "domain", "modelVersion": "model_version", "docString": "doc_string",
}
_GRAPH_SCALARS = {"graphName": "name", "graphDoc": "doc_string"}
_GRAPH_REP = {
    "graphInputs": "input", "graphOutputs": "output", "valueInfo": "value_info", "initializers": "initializer",
    "nodes": "node", "graphMeta": "metadata_props",
}


def _ser_list(msgs) -> bytes:
    return b"".join(struct.pack("<I", m.ByteSize()) + m.SerializeToString(deterministic=True) for m in msgs)


def carriers(m: onnx.ModelProto) -> dict[str, bytes]:
    """Exact (byte-level, presence-sensitive, order-sensitive) content of each carrier."""
    out: dict[str, bytes] = {}
    for c, f in _SCALARS.items():
        out[c] = (b"set:" + repr(getattr(m, f)).encode()) if m.HasField(f) else b"unset"
    out["metadataProps"] = _ser_list(m.metadata_props)
    out["opsetImports"] = _ser_list(m.opset_import)
    out["functions"] = _ser_list(m.functions)
    g = m.graph
    for c, f in _GRAPH_SCALARS.items():
        out[c] = (b"set:" + repr(getattr(g, f)).encode()) if g.HasField(f) else b"unset"
    for c, f in _GRAPH_REP.items():
        out[c] = _ser_list(getattr(g, f))
    out["otherGraph"] = _ser_list(g.sparse_initializer) + b"|" + _ser_list(g.quantization_annotation)
    out["otherModel"] = _ser_list(m.training_info) + b"|" + (_ser_list(m.configuration) if hasattr(m, "configuration") else b"")
    return out


def carrier_of_path(path: str) -> str:
    """Carrier a `diff` path belongs to."""
    head = path.split(".")[0].split("[")[0]
    for c, f in _SCALARS.items():
        if head == f:
            return c
    if head == "metadata_props":
        return "metadataProps"
    if head == "opset_import":
        return "opsetImports"
    if head == "functions":
        return "functions"
    if head in ("training_info", "configuration"):
        return "otherModel"
    if head == "graph":
        rest = path.split(".", 1)[1] if "." in path else ""
        h2 = rest.split(".")[0].split("[")[0]
        for c, f in {**_GRAPH_SCALARS, **_GRAPH_REP}.items():
            if h2 == f:
                return c
        return "otherGraph"
    return "otherModel"


def canon_carrier_changes(a: onnx.ModelProto, b: onnx.ModelProto) -> set[str]:
    """Carriers on which a and b differ canonically (beyond map order and explicit defaults)."""
    return {carrier_of_path(p) for p, k, _ in hard(diff(a, b))}
