"""C12 translator: operator signatures as each front end of /repo reads them -> OV/Gen/C12Schemas.lean.

For every (op, since_version) of the default domain that is the effective schema of some opset
13..23 and has at least one input, two readings are dumped:

* `sig`  — what the converter and eager mode see: `values.Op(opsetN, name).op_signature`
           (`OpSignature.from_op_schema`): per input `type_constraint.name`, `variadic`, `homogeneous`;
* `raw`  — what `BuilderBase._cast_inputs` sees: `BuilderBase._get_schema(...)` (the raw `OpSchema`):
           per input `type_str`, `option == Variadic`, `is_homogeneous`.

Rows are keyed by the registry's own answer `onnx.defs.get_schema(name, opset)` (not code under test).  A front
end whose lookup answers with a different version of the operator is recorded in `problems` (c12.py turns that
into a VIOLATION with a concrete call) and the row falls back to the registry's schema, so the table stays the
per-version rule and is not rebuilt because of a broken lookup.

Both are obtained by calling the repository's own code paths, so a change in how a front end reads a
schema changes the table.  Identical (sig, raw) pairs are stored once (`shapes`); `rows` maps
(op, since_version) to its shape index.  The generated file is only rewritten when its content changes,
so lake's cache stays valid.
"""
from __future__ import annotations

import hashlib
import importlib
import json
import os
from pathlib import Path

OPSETS = list(range(13, 24))
GEN_DIR = Path(__file__).resolve().parent.parent / "lean" / "OV" / "Gen"
CHUNK = 40  # shapes per `decide +kernel` theorem


def lean_str(s: str) -> str:
    return '"' + s.replace("\\", "\\\\").replace('"', '\\"') + '"'


def lean_bool(b: bool) -> str:
    return "true" if b else "false"


def read_registry(opsets=OPSETS):
    """Returns (rows, problems): rows = list of dicts {op, since, opsets, sig, raw}."""
    import onnx
    import onnx.defs

    import onnx_ir.schemas as ir_schemas

    from onnxscript._internal import tape_builder, values

    class _B(tape_builder.TapeBuilder):
        pass

    tb = _B(features=tape_builder.BuilderFeature.SCHEMA_AWARE)
    names = sorted({s.name for s in onnx.defs.get_all_schemas_with_history() if s.domain == ""})
    rows: dict[tuple[str, int], dict] = {}
    problems: list[str] = []
    def raw_of(schema):
        return [
            (
                p.type_str,
                p.option == onnx.defs.OpSchema.FormalParameterOption.Variadic,
                bool(p.is_homogeneous),
            )
            for p in schema.inputs
        ]

    def sig_of(signature):
        return [(p.type_constraint.name, bool(p.variadic), bool(p.homogeneous)) for p in signature.inputs]

    for v in opsets:
        try:
            opset = getattr(importlib.import_module("onnxscript"), f"opset{v}")
        except AttributeError:
            problems.append(f"onnxscript has no opset{v}")
            continue
        for name in names:
            # the registry itself (not code under test): which schema *is* (name, opset v)
            try:
                ref = onnx.defs.get_schema(name, v, "")
            except onnx.defs.SchemaError:
                ref = None
            try:
                raw_schema = tb._get_schema(name, "", v)  # the builder's lookup
            except Exception as e:  # pragma: no cover
                problems.append(f"builder lookup {name}@{v}: {type(e).__name__}")
                raw_schema = None
            op = opset[name]  # the converter's / eager mode's lookup (values.Opset.__getitem__)
            if ref is None:
                if raw_schema is not None or op is not None:
                    problems.append(f"{name}@{v}: not in the registry at this opset, but visible to a front end")
                continue
            if ref.deprecated or not ref.inputs:
                continue
            key = (name, ref.since_version)
            # A front end whose lookup answers with another version of the operator (or not at all) is reported as a
            # problem (-> VIOLATION in c12.py, with a concrete call found by the sweep / history stream); the row itself
            # is then taken from the registry so that the table stays the per-version rule.
            if raw_schema is None or raw_schema.since_version != ref.since_version:
                problems.append(
                    f"{name}@{v}: builder lookup (BuilderBase._get_schema) answers with since_version "
                    f"{getattr(raw_schema, 'since_version', None)}, the registry says {ref.since_version}"
                )
                raw_inputs = raw_of(ref)
            else:
                raw_inputs = raw_of(raw_schema)
            sig = op.op_signature if op is not None else None
            if sig is None or op.op_schema.since_version != ref.since_version:
                problems.append(
                    f"{name}@{v}: converter/eager lookup answers with since_version "
                    f"{getattr(getattr(op, 'op_schema', None), 'since_version', None)}, the registry says {ref.since_version}"
                )
                sig_inputs = sig_of(ir_schemas.OpSignature.from_op_schema(ref))
            else:
                sig_inputs = sig_of(sig)
            names_opt = [
                (p.name, p.option == onnx.defs.OpSchema.FormalParameterOption.Optional) for p in ref.inputs
            ]
            # the full parameter list (inputs then attributes) as `separate_input_attributes_from_arguments` walks it
            the_sig = sig if (sig is not None and op.op_schema.since_version == ref.since_version) else ir_schemas.OpSignature.from_op_schema(ref)
            params_full = []
            for p in the_sig.params:
                if p.is_param():
                    params_full.append(("I", p.name, bool(p.variadic), bool(p.required)))
                else:
                    params_full.append(("A", p.name, bool(p.required), bool(p.has_default()), p.type.name))
            row = rows.get(key)
            cur = dict(op=name, since=ref.since_version, opsets=[v], sig=sig_inputs, raw=raw_inputs, params=names_opt,
                       params_full=params_full)
            if row is None:
                rows[key] = cur
            else:
                row["opsets"].append(v)
                if row["sig"] != sig_inputs or row["raw"] != raw_inputs:
                    problems.append(f"{name}@{v}: reading differs between opsets sharing since_version")
    return [rows[k] for k in sorted(rows)], problems


def shapes_of(rows):
    shapes: list[tuple] = []
    index: dict[tuple, int] = {}
    for r in rows:
        k = (tuple(r["sig"]), tuple(r["raw"]))
        if k not in index:
            index[k] = len(shapes)
            shapes.append(k)
        r["shape"] = index[k]
    return shapes


def formal(f) -> str:
    tc, var, hom = f
    return f"⟨{lean_str(tc)}, {lean_bool(var)}, {lean_bool(hom)}⟩"


def iformal(f, names) -> str:
    tc, var, hom = f
    return f"⟨{names.index(tc)}, {lean_bool('(' not in tc)}, {lean_bool(var)}, {lean_bool(hom)}⟩"


def cost(shape) -> int:
    n = len(shape[0]) + (2 if shape[0] and shape[0][-1][1] else 0)
    return n * n * n


def chunks_of(shapes, nchunks):
    """Distribute shape indices over chunks, balancing the (cubic) cost of the kernel check."""
    order = sorted(range(len(shapes)), key=lambda i: -cost(shapes[i]))
    load = [0] * nchunks
    out = [[] for _ in range(nchunks)]
    for i in order:
        k = load.index(min(load))
        out[k].append(i)
        load[k] += cost(shapes[i])
    return [sorted(c) for c in out if c]


def render(rows, shapes) -> str:
    out = [
        "import OV.Model.C12Autocast",
        "/-! GENERATED by harness/extract_schemas.py from /repo's working tree and the installed onnx schemas.",
        "    Do not edit.  `shapes`: distinct (OpSignature reading, raw OpSchema reading) pairs;",
        "    `ishapes`: the same with type-constraint names interned (checked against `Shape.intern` by the kernel);",
        "    `rows`: (op, since_version, shape index) for every schema effective in opsets 13..23 with ≥1 input. -/",
        "namespace OV.Gen.C12",
        "open OV.Autocast",
        "",
        "def shapes : List Shape := [",
    ]
    body = []
    for sig, raw in shapes:
        body.append("  ⟨[" + ", ".join(formal(f) for f in sig) + "], [" + ", ".join(formal(f) for f in raw) + "]⟩")
    out.append(",\n".join(body))
    out.append("]")
    out.append("")
    for i, (sig, raw) in enumerate(shapes):
        names = [f[0] for f in sig] + [f[0] for f in raw]
        out.append(
            f"def ishape{i} : IShape := ⟨[" + ", ".join(iformal(f, names) for f in sig) + "], ["
            + ", ".join(iformal(f, names) for f in raw) + "]⟩"
        )
    out.append("")
    out.append("def ishapes : List IShape := [" + ", ".join(f"ishape{i}" for i in range(len(shapes))) + "]")
    out.append("")
    out.append("def rows : List Row := [")
    out.append(",\n".join(f"  ⟨{lean_str(r['op'])}, {r['since']}, {r['shape']}⟩" for r in rows))
    out.append("]")
    out.append("")
    out.append("/-- The interned table is the kernel-computed interning of the string table. -/")
    out.append("theorem intern_ok : shapes.map Shape.intern = ishapes := by decide +kernel")
    out.append("")
    out.append("theorem rows_indexed : ∀ r ∈ rows, r.shape < ishapes.length := by decide +kernel")
    out.append("end OV.Gen.C12")
    return "\n".join(out) + "\n"


NCHUNKS = 8


def render_chunk(c: int, idxs) -> str:
    out = [
        "import OV.Gen.C12Schemas",
        "/-! GENERATED by harness/extract_schemas.py.  Kernel-checked table obligation for one chunk of shapes. -/",
        "namespace OV.Gen.C12",
        "open OV.Autocast",
        "",
        f"def chunk{c} : List IShape := [" + ", ".join(f"ishape{i}" for i in idxs) + "]",
        f"def chunk{c}Idx : List Nat := [" + ", ".join(str(i) for i in idxs) + "]",
        f"theorem chunk{c}_ok : ∀ s ∈ chunk{c}, agree3All s = true := by decide +kernel",
        "end OV.Gen.C12",
    ]
    return "\n".join(out) + "\n"


def render_all(nchunks_real: int, nshapes: int, chunk_lists) -> str:
    out = ["import OV.Gen.C12Schemas"]
    out += [f"import OV.Gen.C12Chunk{c}" for c in range(nchunks_real)]
    out += [
        "/-! GENERATED by harness/extract_schemas.py.  The chunks cover the whole interned table. -/",
        "namespace OV.Gen.C12",
        "open OV.Autocast",
        "",
        "def allChunks : List (List IShape) := [" + ", ".join(f"chunk{c}" for c in range(nchunks_real)) + "]",
        "",
        "theorem chunks_cover : ∀ s ∈ ishapes, allChunks.any (fun ch => ch.contains s) = true := by decide +kernel",
        "",
        "theorem ishapes_ok : ∀ s ∈ ishapes, agree3All s = true := by",
        "  intro s hs",
        "  have h := chunks_cover s hs",
        "  simp only [allChunks, List.any_cons, List.any_nil, Bool.or_false, Bool.or_eq_true, List.contains_iff_mem] at h",
    ]
    if nchunks_real == 1:
        out.append("  exact chunk0_ok s h")
    else:
        pat = " | ".join(["h"] * nchunks_real)
        out.append(f"  rcases h with {pat}")
        for c in range(nchunks_real):
            out.append(f"  · exact chunk{c}_ok s h")
    out.append("end OV.Gen.C12")
    return "\n".join(out) + "\n"


def write_if_changed(path: Path, text: str) -> bool:
    if path.exists() and path.read_text() == text:
        return False
    path.parent.mkdir(parents=True, exist_ok=True)
    path.write_text(text)
    return True


def table_texts(rows, shapes) -> dict[str, str]:
    """File name -> content of every generated module."""
    chunk_lists = chunks_of(shapes, NCHUNKS)
    out = {"C12Schemas.lean": render(rows, shapes)}
    for c, idxs in enumerate(chunk_lists):
        out[f"C12Chunk{c}.lean"] = render_chunk(c, idxs)
    out["C12SchemasOk.lean"] = render_all(len(chunk_lists), len(shapes), chunk_lists)
    return out


def differs_from_disk(texts: dict[str, str]) -> list[str]:
    """Generated modules whose content differs from lean/OV/Gen (incl. stale chunk files)."""
    diff = [n for n, t in texts.items() if not (GEN_DIR / n).exists() or (GEN_DIR / n).read_text() != t]
    diff += [p.name for p in GEN_DIR.glob("C12Chunk*.lean") if p.name not in texts]
    return diff


def regenerate(opsets=OPSETS, write: bool = True):
    """Regenerate OV/Gen/C12Schemas.lean, C12Chunk<k>.lean, C12SchemasOk.lean.

    Returns (rows, shapes, problems, changed).  Files are only rewritten when their content changes.
    With `write=False` (a tree other than /repo is being checked: seeded change, scratch worktree) nothing under
    /verif is touched; `changed` then tells whether the table read from that tree differs from lean/OV/Gen and the
    caller checks it with `scratch_check`."""
    rows, problems = read_registry(opsets)
    shapes = shapes_of(rows)
    texts = table_texts(rows, shapes)
    if not write:
        return rows, shapes, problems, bool(differs_from_disk(texts))
    changed = False
    for name, text in texts.items():
        changed |= write_if_changed(GEN_DIR / name, text)
    for stale in GEN_DIR.glob("C12Chunk*.lean"):
        if stale.name not in texts:
            stale.unlink()
            changed = True
    return rows, shapes, problems, changed


def scratch_check(rows, shapes, timeout: int = 1500):
    """Kernel-check the table obligations for a table that must not be written under /verif: the generated modules go
    to a temporary directory as `C12Scratch.*`, compiled with plain `lean -o` against the library's built .oleans
    (chunks in parallel).  Returns (ok, log)."""
    import concurrent.futures
    import shutil
    import subprocess
    import tempfile

    lean_dir = GEN_DIR.parent.parent
    tmp = Path(tempfile.mkdtemp(prefix="c12gen_"))
    try:
        mod = tmp / "C12Scratch"
        mod.mkdir()
        texts = {n: t.replace("import OV.Gen.C12", "import C12Scratch.C12") for n, t in table_texts(rows, shapes).items()}
        for n, t in texts.items():
            (mod / n).write_text(t)
        lp = subprocess.run(["lake", "env", "printenv", "LEAN_PATH"], cwd=lean_dir, capture_output=True, text=True, timeout=120)
        if lp.returncode != 0:
            return False, "cannot read LEAN_PATH: " + lp.stderr[-300:]
        env = dict(os.environ, LEAN_PATH=lp.stdout.strip() + ":" + str(tmp))

        def compile_one(name: str):
            src = mod / name
            p = subprocess.run(["lake", "env", "env", f"LEAN_PATH={env['LEAN_PATH']}", "lean", f"--root={tmp}", "-o", str(src.with_suffix(".olean")), str(src)],
                               cwd=lean_dir, capture_output=True, text=True, timeout=timeout)
            return name, p.returncode, (p.stdout + p.stderr)[-1500:]

        logs = []
        n, rc, out = compile_one("C12Schemas.lean")
        logs.append(f"{n}: rc={rc} {out}")
        if rc != 0:
            return False, "\n".join(logs)
        chunks = sorted(k for k in texts if k.startswith("C12Chunk"))
        with concurrent.futures.ThreadPoolExecutor(max_workers=8) as ex:
            for n, rc2, out in ex.map(compile_one, chunks):
                logs.append(f"{n}: rc={rc2} {out}")
                rc = rc or rc2
        if rc != 0:
            return False, "\n".join(logs)
        n, rc, out = compile_one("C12SchemasOk.lean")
        logs.append(f"{n}: rc={rc} {out}")
        return rc == 0, "\n".join(logs)
    except subprocess.TimeoutExpired:
        return False, "timeout"
    finally:
        shutil.rmtree(tmp, ignore_errors=True)


if __name__ == "__main__":
    rows, shapes, problems, changed = regenerate()
    print(json.dumps(dict(rows=len(rows), shapes=len(shapes), problems=problems[:10], changed=changed,
                          sha=hashlib.sha1(render(rows, shapes).encode()).hexdigest()[:12])))
