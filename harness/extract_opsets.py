"""C17 translator: generated opset classes (parsed with `ast`, never imported) and the installed
`onnx.defs` schemas  ->  plain data  ->  `lean/OV/Gen/C17*.lean` tables.

Everything that is a *name* is encoded as a natural number (`enc`): the kernel of Lean 4.33 reduces
`String` equality through UTF-8 byte arrays (milliseconds per comparison, measured), `Nat` equality
is a GMP call.  `enc` is injective (big-endian bytes of the UTF-8 encoding behind a leading 0x01),
`dec` inverts it; the Lean files carry the decoded names in comments.
"""
from __future__ import annotations

import ast
import struct
from pathlib import Path
from typing import Any

from harness import core

GEN = core.LEAN / "OV" / "Gen"
IMPL_REL = "onnxscript/onnx_opset/_impl"
INIT_REL = "onnxscript/onnx_opset/__init__.py"
TOP_INIT_REL = "onnxscript/__init__.py"


# every text whose code was written into a table during the current `emit_lean` (the complete name set, by construction)
_ENC_SEEN: set[str] = set()


def enc(s: str) -> int:
    _ENC_SEEN.add(s)
    return int.from_bytes(b"\x01" + s.encode("utf-8"), "big")


def lean_str(s: str) -> str:
    out = []
    for ch in s:
        if ch in '"\\':
            out.append("\\" + ch)
        elif 32 <= ord(ch) < 127:
            out.append(ch)
        else:
            out.append("\\u{%x}" % ord(ch))
    return '"' + "".join(out) + '"'


def dec(n: int) -> str:
    b = n.to_bytes((n.bit_length() + 7) // 8, "big")
    return b[1:].decode("utf-8", "replace")


def f32bits(x: float) -> int | None:
    try:
        return struct.unpack("<I", struct.pack("<f", x))[0]
    except (OverflowError, struct.error):
        return None


# --------------------------------------------------------------------------- default values
# canonical form: ["absent"] | ["none"] | ["int", i] | ["flt", bits] | ["str", code]
#               | ["list", [scalar…]] (scalar = ["int",i] | ["flt",bits] | ["str",code]) | ["other", code]


def _scalar_of_py(v: Any):
    if isinstance(v, bool):
        return None
    if isinstance(v, int):
        return ["int", v]
    if isinstance(v, float):
        b = f32bits(v)
        return None if b is None else ["flt", b]
    if isinstance(v, str):
        return ["str", enc(v)]
    return None


def default_of_ast(node: ast.expr | None):
    """Canonical default of a parameter from its AST (None = the parameter has no default)."""
    if node is None:
        return ["absent"]
    try:
        v = ast.literal_eval(node)
    except Exception:
        return ["other", enc(ast.dump(node))]
    if v is None:
        return ["none"]
    if isinstance(v, tuple):
        elems = [_scalar_of_py(x) for x in v]
        if all(e is not None for e in elems):
            return ["list", elems]
        return ["other", enc(repr(v))]
    s = _scalar_of_py(v)
    return s if s is not None else ["other", enc(repr(v))]


def default_of_attr(attr) -> list:
    """Canonical default of a schema attribute (the value a node *without* the attribute denotes)."""
    import onnx

    if attr.required:
        return ["absent"]
    dv = attr.default_value
    if not dv.name:
        return ["none"]
    T = onnx.AttributeProto
    if dv.type == T.INT:
        return ["int", int(dv.i)]
    if dv.type == T.FLOAT:
        return ["flt", f32bits(dv.f)]
    if dv.type == T.STRING:
        return ["str", enc(dv.s.decode("utf-8"))]
    if dv.type == T.INTS:
        return ["list", [["int", int(i)] for i in dv.ints]]
    if dv.type == T.FLOATS:
        return ["list", [["flt", f32bits(f)] for f in dv.floats]]
    if dv.type == T.STRINGS:
        return ["list", [["str", enc(s.decode("utf-8"))] for s in dv.strings]]
    return ["other", enc(f"attrtype{int(dv.type)}:" + dv.SerializeToString().hex())]


# --------------------------------------------------------------------------- schemas (authority)

OPTION = {"Single": 0, "Optional": 1, "Variadic": 2}


def extract_schemas() -> list[dict]:
    import onnx.defs

    out = []
    for s in onnx.defs.get_all_schemas_with_history():
        out.append(
            {
                "name": s.name,
                "domain": s.domain,
                "since": int(s.since_version),
                "deprecated": bool(s.deprecated),
                "inputs": [[i.name, OPTION[i.option.name]] for i in s.inputs],
                # raw iteration order of onnx's attribute map (not sorted); the model does not rely on it
                "attrs": [
                    {"name": a.name, "required": bool(a.required), "default": default_of_attr(a), "type": int(a.type)}
                    for a in s.attributes.values()
                ],
            }
        )
    out.sort(key=lambda d: (d["domain"], d["name"], d["since"]))
    return out


# --------------------------------------------------------------------------- generated classes (parsed)


def _is_name(node, ident: str) -> bool:
    return isinstance(node, ast.Name) and node.id == ident


def _const(node, typ):
    if isinstance(node, ast.Constant) and type(node.value) is typ:
        return node.value
    return None


def is_stub(fn: ast.FunctionDef) -> bool:
    a = fn.args
    if fn.decorator_list or a.posonlyargs or a.kwonlyargs or a.defaults:
        return False
    if [x.arg for x in a.args] != ["self"] or a.vararg is None or a.kwarg is None:
        return False
    body = list(fn.body)
    if body and isinstance(body[0], ast.Expr) and isinstance(body[0].value, ast.Constant) and isinstance(body[0].value.value, str):
        body = body[1:]
    if len(body) != 1 or not isinstance(body[0], ast.Raise) or body[0].cause is not None:
        return False
    e = body[0].exc
    return (
        isinstance(e, ast.Call)
        and _is_name(e.func, "NotImplementedError")
        and len(e.args) == 1
        and not e.keywords
        and _const(e.args[0], str) is not None
    )


def parse_method(fn: ast.FunctionDef) -> dict:
    """Everything `mirrors` looks at, read off the AST of one generated method."""
    m: dict[str, Any] = {"name": fn.name, "lineno": fn.lineno}
    a = fn.args
    if is_stub(fn):
        # `def Op(self, *args, **kwargs): raise NotImplementedError("…")` — shadows an inherited method of an
        # operator that is deprecated from this class's version on (proposed fix C17-F1)
        m.update(pos=[], vararg=None, kwonly=[], call=["", 0, ""], op_name="", fwd_inputs=[], fwd_attrs=[],
                 uses_prepare=False, shape_ok=True, stub=True)
        return m
    m["stub"] = False
    shape_ok = not fn.decorator_list and not a.posonlyargs and a.kwarg is None
    shape_ok = shape_ok and bool(a.args) and a.args[0].arg == "self"
    pos = a.args[1:]
    ndef = len(a.defaults)
    defaults = [None] * (len(a.args) - ndef) + list(a.defaults)
    defaults = defaults[1:] if a.args else defaults
    m["pos"] = [[p.arg, default_of_ast(d)] for p, d in zip(pos, defaults)]
    m["vararg"] = a.vararg.arg if a.vararg else None
    m["kwonly"] = [[p.arg, default_of_ast(d)] for p, d in zip(a.kwonlyargs, a.kw_defaults)]

    body = list(fn.body)
    if body and isinstance(body[0], ast.Expr) and isinstance(body[0].value, ast.Constant) and isinstance(body[0].value.value, str):
        body = body[1:]
    call = ["?", 0, "?"]
    op_name = "?"
    fwd_inputs: list[list] = []
    fwd_attrs: list[list] = []
    uses_prepare = False
    if len(body) != 3:
        shape_ok = False
    else:
        s1, s2, s3 = body
        # schema = get_schema("Name", ver, "domain")
        ok1 = (
            isinstance(s1, ast.Assign)
            and len(s1.targets) == 1
            and _is_name(s1.targets[0], "schema")
            and isinstance(s1.value, ast.Call)
            and _is_name(s1.value.func, "get_schema")
            and len(s1.value.args) == 3
            and not s1.value.keywords
        )
        if ok1:
            n, v, d = (_const(s1.value.args[0], str), _const(s1.value.args[1], int), _const(s1.value.args[2], str))
            if n is None or v is None or d is None or v < 0:
                ok1 = False
            else:
                call = [n, v, d]
        # op = Op(self, "Name", schema)
        ok2 = (
            isinstance(s2, ast.Assign)
            and len(s2.targets) == 1
            and _is_name(s2.targets[0], "op")
            and isinstance(s2.value, ast.Call)
            and _is_name(s2.value.func, "Op")
            and len(s2.value.args) == 3
            and not s2.value.keywords
            and _is_name(s2.value.args[0], "self")
            and _const(s2.value.args[1], str) is not None
            and _is_name(s2.value.args[2], "schema")
        )
        if ok2:
            op_name = s2.value.args[1].value
        # return op(*self._prepare_inputs(schema, a, b, *c), k=k, …)   |   return op(k=k, …)
        ok3 = isinstance(s3, ast.Return) and isinstance(s3.value, ast.Call) and _is_name(s3.value.func, "op")
        if ok3:
            c = s3.value
            for kw in c.keywords:
                if kw.arg is None:
                    ok3 = False
                    fwd_attrs.append(["**", "?"])
                elif isinstance(kw.value, ast.Name):
                    fwd_attrs.append([kw.arg, kw.value.id])
                else:
                    fwd_attrs.append([kw.arg, "<expr:" + ast.dump(kw.value) + ">"])
            if len(c.args) == 0:
                pass
            elif (
                len(c.args) == 1
                and isinstance(c.args[0], ast.Starred)
                and isinstance(c.args[0].value, ast.Call)
                and isinstance(c.args[0].value.func, ast.Attribute)
                and _is_name(c.args[0].value.func.value, "self")
                and c.args[0].value.func.attr == "_prepare_inputs"
                and not c.args[0].value.keywords
                and c.args[0].value.args
                and _is_name(c.args[0].value.args[0], "schema")
            ):
                uses_prepare = True
                for x in c.args[0].value.args[1:]:
                    if isinstance(x, ast.Name):
                        fwd_inputs.append([x.id, False])
                    elif isinstance(x, ast.Starred) and isinstance(x.value, ast.Name):
                        fwd_inputs.append([x.value.id, True])
                    else:
                        fwd_inputs.append(["<expr:" + ast.dump(x) + ">", False])
            else:
                ok3 = False
                for x in c.args:
                    fwd_inputs.append(["<expr:" + ast.dump(x) + ">", False])
        shape_ok = shape_ok and ok1 and ok2 and ok3
    m.update(
        call=call,
        op_name=op_name,
        fwd_inputs=fwd_inputs,
        fwd_attrs=fwd_attrs,
        uses_prepare=uses_prepare,
        shape_ok=bool(shape_ok),
    )
    return m


def _imports_ok(tree: ast.Module) -> bool:
    """`get_schema` comes from onnx.defs and `Op`, `Opset` from onnxscript.values, and nothing at module
    level rebinds them."""
    got = {}
    rebound = False
    for st in tree.body:
        if isinstance(st, ast.ImportFrom):
            for al in st.names:
                got[al.asname or al.name] = (st.module, al.name)
        elif isinstance(st, ast.Import):
            for al in st.names:
                got[(al.asname or al.name).split(".")[0]] = (al.name, None)
        elif isinstance(st, (ast.Assign, ast.AnnAssign, ast.AugAssign, ast.FunctionDef, ast.ClassDef)):
            names = []
            if isinstance(st, ast.Assign):
                for t in st.targets:
                    names += [n.id for n in ast.walk(t) if isinstance(n, ast.Name)]
            elif isinstance(st, (ast.AnnAssign, ast.AugAssign)):
                names += [n.id for n in ast.walk(st.target) if isinstance(n, ast.Name)]
            else:
                names.append(st.name)
            if any(n in ("get_schema", "Op", "Opset") for n in names):
                rebound = True
    return (
        not rebound
        and got.get("get_schema") == ("onnx.defs", "get_schema")
        and got.get("Op") in (("onnxscript.values", "Op"), ("onnxscript._internal.values", "Op"))
        and got.get("Opset") in (("onnxscript.values", "Opset"), ("onnxscript._internal.values", "Opset"))
    )


class _Src:
    def __init__(self, name: str, text: str):
        self.name = name
        self.text = text


def extract_classes(repo: Path | None, sources: dict[str, str] | None = None) -> list[dict]:
    """`sources` (file name -> text) replaces reading `repo` (used for the in-process regeneration)."""
    out = []
    if sources is None:
        assert repo is not None
        files = [_Src(p.name, p.read_text(encoding="utf-8")) for p in sorted((repo / IMPL_REL).glob("*.py"))]
    else:
        files = [_Src(k, v) for k, v in sorted(sources.items())]
    for path in files:
        if path.name == "__init__.py":
            continue
        tree = ast.parse(path.text)
        imports_ok = _imports_ok(tree)
        n_classes = 0
        for st in tree.body:
            if not isinstance(st, ast.ClassDef):
                continue
            n_classes += 1
            c: dict[str, Any] = {"name": st.name, "file": path.name, "imports_ok": imports_ok}
            c["base"] = st.bases[0].id if len(st.bases) == 1 and isinstance(st.bases[0], ast.Name) else "?"
            c["domain"], c["version"] = "?", 0
            c["class_ok"] = not st.decorator_list and not st.keywords and len(st.bases) == 1
            methods = []
            seen = set()
            for b in st.body:
                if isinstance(b, ast.FunctionDef) and b.name == "__new__":
                    # return Opset.__new__(cls, "domain", version)
                    ok = False
                    if len(b.body) == 1 and isinstance(b.body[0], ast.Return) and isinstance(b.body[0].value, ast.Call):
                        call = b.body[0].value
                        f = call.func
                        if (
                            isinstance(f, ast.Attribute)
                            and f.attr == "__new__"
                            and _is_name(f.value, "Opset")
                            and len(call.args) == 3
                            and _is_name(call.args[0], "cls")
                        ):
                            d, v = _const(call.args[1], str), _const(call.args[2], int)
                            if d is not None and v is not None and v >= 0:
                                c["domain"], c["version"] = d, v
                                ok = True
                    c["class_ok"] = c["class_ok"] and ok
                elif isinstance(b, ast.FunctionDef):
                    m = parse_method(b)
                    if b.name in seen:  # a later def of the same name wins in Python; keep the last one
                        methods = [x for x in methods if x["name"] != b.name]
                    seen.add(b.name)
                    methods.append(m)
                elif isinstance(b, ast.AsyncFunctionDef):
                    c["class_ok"] = False
            c["methods"] = methods
            out.append(c)
        if n_classes != 1:
            for c in out:
                if c["file"] == path.name:
                    c["class_ok"] = False
    out.sort(key=lambda c: (c["domain"], c["version"], c["name"]))
    return out


def extract_exports(repo: Path, init_source: str | None = None) -> dict:
    """`onnxscript/onnx_opset/__init__.py`: `opsetN = OpsetN()` and `all_opsets[(domain, N)] = opsetN`;
    `onnxscript/__init__.py`: which of them are re-exported as `onnxscript.opsetN`."""
    tree = ast.parse(init_source if init_source is not None else (repo / INIT_REL).read_text(encoding="utf-8"))
    imported = {}  # class name -> module
    inst = {}  # export name -> class name
    table = []  # [domain, version, export name]
    for st in tree.body:
        if isinstance(st, ast.ImportFrom) and st.module and st.module.startswith("onnxscript.onnx_opset._impl."):
            for al in st.names:
                imported[al.asname or al.name] = st.module.rsplit(".", 1)[1]
        elif isinstance(st, ast.Assign) and len(st.targets) == 1 and isinstance(st.targets[0], ast.Name):
            v = st.value
            if isinstance(v, ast.Call) and isinstance(v.func, ast.Name) and not v.args and not v.keywords:
                inst[st.targets[0].id] = v.func.id
        elif isinstance(st, ast.AnnAssign) and isinstance(st.target, ast.Name) and st.target.id == "all_opsets":
            if isinstance(st.value, ast.Dict):
                for k, v in zip(st.value.keys, st.value.values):
                    try:
                        d, n = ast.literal_eval(k)
                    except Exception:
                        d, n = "?", 0
                    table.append([d, int(n) if isinstance(n, int) and n >= 0 else 0, v.id if isinstance(v, ast.Name) else "?"])
    top = ast.parse((repo / TOP_INIT_REL).read_text(encoding="utf-8"))
    reexported = []
    for st in top.body:
        if isinstance(st, ast.ImportFrom) and st.module == "onnx_opset" and st.level == 1:
            reexported += [al.name for al in st.names if al.asname in (None, al.name)]
    exports = []
    for d, n, name in table:
        cls = inst.get(name, "?")
        exports.append(
            {
                "export": name,
                "cls": cls,
                "module": imported.get(cls, "?"),
                "domain": d,
                "version": n,
                "top": name in reexported,
            }
        )
    inst_only = sorted(set(inst) - {e["export"] for e in exports})
    return {"exports": exports, "instances_not_in_all_opsets": inst_only}


# --------------------------------------------------------------------------- the generator itself, run in-process


def regenerate(repo: Path) -> dict:
    """Run the real `opgen.onnx_opset_builder.OpsetsBuilder` of `repo` against the installed onnx (nothing is
    written), render its modules with the real `pygen.PythonWriter`, and read them back with the same parser
    as the checked-in files.  Returns {"classes": …, "exports": …, "unsupported": {...}}."""
    import importlib
    import io
    import sys

    opgen_dir = str(repo / "opgen")
    saved = {k: sys.modules.pop(k) for k in ("onnx_opset_builder", "pygen") if k in sys.modules}
    sys.path.insert(0, opgen_dir)
    try:
        B = importlib.import_module("onnx_opset_builder")
        cg = importlib.import_module("pygen")
        builder = B.OpsetsBuilder(
            module_base_name="onnxscript.onnx_opset",
            min_default_opset_version=14,
            include_opsets=set(),
            exclude_opsets={(d, 1) for d in UNGENERATED_DOMAINS},
        )
        res = builder.build()
        sources: dict[str, str] = {}
        init_src = None
        for m in res.all_modules:
            w = io.StringIO()
            m.accept(cg.PythonWriter(w))
            stem = m.name.rsplit(".", 1)[1]
            if stem == "__init__":
                init_src = w.getvalue()
            else:
                sources[stem + ".py"] = w.getvalue()
    finally:
        sys.path.remove(opgen_dir)
        for k in ("onnx_opset_builder", "pygen"):
            sys.modules.pop(k, None)
        sys.modules.update(saved)
    classes = extract_classes(None, sources)
    ex = extract_exports(repo, init_src) if init_src is not None else {"exports": [], "instances_not_in_all_opsets": []}
    return {
        "classes": classes,
        "exports": ex["exports"],
        "unsupported": {k: [str(e.op) for e in v] for k, v in res.unsupported_ops.items()},
    }


def strip_positions(classes: list[dict]) -> dict:
    """{class name: {base, domain, version, methods:{name: method-without-lineno}}} for comparison."""
    out = {}
    for c in classes:
        out[c["name"]] = {
            "base": c["base"],
            "domain": c["domain"],
            "version": c["version"],
            "ok": bool(c["class_ok"] and c["imports_ok"]),
            "methods": {m["name"]: {k: v for k, v in m.items() if k != "lineno"} for m in c["methods"]},
        }
    return out


# --------------------------------------------------------------------------- documented exceptions

# domains that have schemas in onnx.defs but, by decision of the generator's invocation, no class
# (`python -m opgen --exclude ai.onnx.preview.training/1`, the example in opgen/__main__.py)
UNGENERATED_DOMAINS = ["ai.onnx.preview.training"]


def dep_live_cells(classes: list[dict], schemas: list[dict]) -> list[list]:
    """(domain, class version, op) cells where the schema in force is deprecated and attribute lookup still
    reaches a live (non-stub) definition of an older version — finding C17-F1; empty once opgen emits stubs."""
    out = []
    by = {}
    for s in schemas:
        by.setdefault((s["domain"], s["name"]), []).append(s)
    for (d, n), ss in sorted(by.items()):
        if not any(s["deprecated"] for s in ss):
            continue
        for c in sorted(classes, key=lambda c: (c["domain"], c["version"])):
            if c["domain"] != d:
                continue
            inforce = [s for s in ss if s["since"] <= c["version"]]
            if not inforce:
                continue
            s0 = max(inforce, key=lambda s: s["since"])
            if not s0["deprecated"]:
                continue
            cands = [(c2["version"], m) for c2 in classes if c2["domain"] == d and c2["version"] <= c["version"]
                     for m in c2["methods"] if m["name"] == n]
            if cands and not max(cands, key=lambda t: t[0])[1].get("stub"):
                out.append([d, c["version"], n])
    return out


def extract_ir_map() -> list[list]:
    """`onnx.helper.OP_SET_ID_VERSION_MAP` of the installed onnx (read by `values.select_ir_version`):
    [[domain, opset version, ir_version], …] in the dict's own order."""
    import onnx.helper

    return [[d, int(v), int(ir)] for (d, v), ir in onnx.helper.OP_SET_ID_VERSION_MAP.items()]


def extract_all(repo: Path | None = None) -> dict:
    repo = repo or core.REPO
    _ENC_SEEN.clear()
    classes = extract_classes(repo)
    schemas = extract_schemas()
    ex = extract_exports(repo)
    # texts encoded while extracting (string defaults, dumps of other defaults); `emit_lean` adds those it encodes itself
    return {"classes": classes, "schemas": schemas, "ir_map": extract_ir_map(), **ex, "_names": sorted(_ENC_SEEN)}


# --------------------------------------------------------------------------- Lean emission


def L_list(items: list[str], per_line: bool = False) -> str:
    if per_line and items:
        return "[\n    " + ",\n    ".join(items) + "]"
    return "[" + ", ".join(items) + "]"


def L_scalar(s) -> str:
    k = s[0]
    if k == "int":
        return f".int ({s[1]})"
    if k == "flt":
        return f".flt {s[1]}"
    return f".str {s[1]}"


def L_default(d) -> str:
    k = d[0]
    if k == "absent":
        return ".absent"
    if k == "none":
        return ".pyNone"
    if k in ("int", "flt", "str"):
        return f"(.sc ({L_scalar(d)}))"
    if k == "list":
        return f"(.list {L_list([L_scalar(x) for x in d[1]])})"
    return f"(.other {d[1]})"


def L_schema(s: dict) -> str:
    ins = L_list([f"({enc(n)}, {o})" for n, o in s["inputs"]])
    ats = L_list([f"⟨{enc(a['name'])}, {'true' if a['required'] else 'false'}, {L_default(a['default'])}⟩" for a in s["attrs"]])
    return (
        f"⟨{enc(s['name'])}, {enc(s['domain'])}, {s['since']}, {'true' if s['deprecated'] else 'false'}, {ins}, {ats}⟩"
        f" -- {s['domain']}::{s['name']}({s['since']})"
    )


def L_method(m: dict) -> str:
    pos = L_list([f"({enc(n)}, {L_default(d)})" for n, d in m["pos"]])
    kwo = L_list([f"({enc(n)}, {L_default(d)})" for n, d in m["kwonly"]])
    va = f"some {enc(m['vararg'])}" if m["vararg"] else "none"
    fi = L_list([f"({enc(n)}, {'true' if st else 'false'})" for n, st in m["fwd_inputs"]])
    fa = L_list([f"({enc(k)}, {enc(v)})" for k, v in m["fwd_attrs"]])
    cn, cv, cd = m["call"]
    return (
        f"⟨{enc(m['name'])}, ({enc(cn)}, {cv}, {enc(cd)}), {enc(m['op_name'])}, {pos}, {va}, {kwo}, {fi}, {fa}, "
        f"{'true' if m['uses_prepare'] else 'false'}, {'true' if m['shape_ok'] else 'false'}, {'true' if m.get('stub') else 'false'}⟩"
    )


def lean_ident(cls_name: str) -> str:
    return "".join(ch if ch.isalnum() or ch == "_" else "_" for ch in cls_name)


HEADER = "-- GENERATED by harness/extract_opsets.py from /repo's working tree and the installed onnx.defs. Do not edit.\n"

# how many op names one `decide +kernel` chunk of the (domain, op, class) grid covers
NAMES_PER_CHUNK = 28


def emit_lean(data: dict, outdir: Path | None = None) -> dict:
    """Write OV/Gen/C17*.lean (only files whose content changed).  Returns {file: changed}."""
    outdir = outdir or GEN
    outdir.mkdir(parents=True, exist_ok=True)
    files: dict[str, str] = {}
    _ENC_SEEN.clear()

    # ---- schemas, one module per domain
    doms = sorted({s["domain"] for s in data["schemas"]})
    dom_mod = {}
    for i, d in enumerate(doms):
        mod = f"C17Schemas{i}"
        dom_mod[d] = mod
        rows = [L_schema(s) for s in data["schemas"] if s["domain"] == d]
        body = (
            HEADER
            + "import OV.Model.C17OpsetGen\nnamespace OV.Gen.C17\nopen OV.C17\n\n"
            + f"/-- every schema of domain {d!r} in onnx.defs (all versions) -/\n"
            + f"def schemas{i} : List Schema := [\n  "
            + "\n  ".join(r.replace(" -- ", ", -- ", 1) if k < len(rows) - 1 else r for k, r in enumerate(rows))
            + "\n  ]\n\nend OV.Gen.C17\n"
        )
        # the comma has to come before the comment
        files[mod] = body
    # ---- classes, one module per class
    cls_mods = []
    for c in data["classes"]:
        ident = lean_ident(c["name"])
        mod = f"C17Cls_{ident}"
        cls_mods.append((mod, ident, c))
        ms = c["methods"]
        rows = []
        for k, m in enumerate(ms):
            row = L_method(m)
            rows.append(row + ("," if k < len(ms) - 1 else "") + f" -- {m['name']}")
        ok = c["class_ok"] and c["imports_ok"]
        body = (
            HEADER
            + "import OV.Model.C17OpsetGen\nnamespace OV.Gen.C17\nopen OV.C17\n\n"
            + f"/-- class {c['name']}({c['base']}) in {c['file']}: Opset.__new__(cls, {c['domain']!r}, {c['version']}) -/\n"
            + f"def cls_{ident} : Cls := ⟨{enc(c['name'])}, {enc(c['base'])}, {enc(c['domain'])}, {c['version']}, "
            + f"{'true' if ok else 'false'}, [\n  "
            + "\n  ".join(rows)
            + "\n  ]⟩\n\nend OV.Gen.C17\n"
        )
        files[mod] = body
    # ---- the assembled tables
    ungenerated = [d for d in doms if d in UNGENERATED_DOMAINS]
    names_by_dom: dict[str, list[str]] = {}
    for s in data["schemas"]:
        names_by_dom.setdefault(s["domain"], [])
        if s["name"] not in names_by_dom[s["domain"]]:
            names_by_dom[s["domain"]].append(s["name"])
    for c in data["classes"]:
        names_by_dom.setdefault(c["domain"], [])
        for m in c["methods"]:
            if m["name"] not in names_by_dom[c["domain"]]:
                names_by_dom[c["domain"]].append(m["name"])
    all_doms = sorted(names_by_dom)
    exports = data["exports"]
    tables = (
        HEADER
        + "".join(f"import OV.Gen.{m}\n" for m in sorted(dom_mod.values()))
        + "".join(f"import OV.Gen.{m}\n" for m, _, _ in cls_mods)
        + "namespace OV.Gen.C17\nopen OV.C17\n\n"
        + "def schemas : List Schema := "
        + " ++ ".join(f"schemas{i}" for i in range(len(doms)))
        + "\n\ndef classes : List Cls := "
        + L_list([f"cls_{ident}" for _, ident, _ in cls_mods])
        + "\n\n/-- `all_opsets` of onnxscript/onnx_opset/__init__.py: export name, class, module file stem, key domain, key version, re-exported by onnxscript/__init__.py -/\n"
        + "def exports : List Export := "
        + L_list(
            [
                f"⟨{enc(e['export'])}, {enc(e['cls'])}, {enc(e['module'])}, {enc(e['domain'])}, {e['version']}, {'true' if e['top'] else 'false'}⟩"
                for e in exports
            ],
            per_line=True,
        )
        + "\n\n/-- domains with schemas in onnx.defs for which no class is generated (documented exception) -/\n"
        + "def ungeneratedDomains : List Nat := "
        + L_list([str(enc(d)) for d in ungenerated])
        + "\n\n/-- per domain, every operator name occurring in a schema or as a generated method -/\n"
        + "def opNames : List (Nat × List Nat) := "
        + L_list([f"({enc(d)}, {L_list([str(enc(n)) for n in sorted(names_by_dom[d])])})" for d in all_doms], per_line=True)
        + "\n\nend OV.Gen.C17\n"
    )
    files["C17Tables"] = tables
    # ---- grid chunks: (domain, slice of op names) each proved by one `decide +kernel`
    chunk_names = []
    k = 0
    for d in all_doms:
        ns = sorted(names_by_dom[d])
        for j in range(0, len(ns), NAMES_PER_CHUNK):
            sl = ns[j : j + NAMES_PER_CHUNK]
            nm = f"C17Grid{k}"
            chunk_names.append(nm)
            files[nm] = (
                HEADER
                + "import OV.Gen.C17Tables\nnamespace OV.Gen.C17\nopen OV.C17\n\n"
                + f"/-- domain {d!r}: {sl[0]} … {sl[-1]} -/\n"
                + f"def grid{k} : Nat × List Nat := ({enc(d)}, {L_list([str(enc(n)) for n in sl])})\n\n"
                + f"theorem grid{k}_ok : gridOk schemas classes ungeneratedDomains grid{k}.1 grid{k}.2 = true := by decide +kernel\n\n"
                + "end OV.Gen.C17\n"
            )
            k += 1
    files["C17Grid"] = (
        HEADER
        + "".join(f"import OV.Gen.{n}\n" for n in chunk_names)
        + "namespace OV.Gen.C17\nopen OV.C17\n\n"
        + "/-- the chunks, in order, cover `opNames` -/\n"
        + "def gridChunks : List (Nat × List Nat) := "
        + L_list([f"grid{i}" for i in range(k)])
        + "\n\ntheorem gridChunks_ok : ∀ g ∈ gridChunks, gridOk schemas classes ungeneratedDomains g.1 g.2 = true := by\n"
        + "  intro g hg\n  simp only [gridChunks, List.mem_cons, List.mem_nil_iff, or_false] at hg\n"
        + "  rcases hg with "
        + " | ".join(["rfl"] * k)
        + "\n"
        + "".join(f"  · exact grid{i}_ok\n" for i in range(k))
        + "\nend OV.Gen.C17\n"
    )
    files["C17CoverS"] = (
        HEADER
        + "import OV.Gen.C17Grid\nnamespace OV.Gen.C17\nopen OV.C17\n\n"
        + "/-- every registered schema's (domain, name) lies in a grid chunk -/\n"
        + "theorem schemas_covered : schemasCovered gridChunks schemas = true := by decide +kernel\n\nend OV.Gen.C17\n"
    )
    files["C17CoverM"] = (
        HEADER
        + "import OV.Gen.C17Grid\nnamespace OV.Gen.C17\nopen OV.C17\n\n"
        + "/-- every generated method's (class domain, name) lies in a grid chunk -/\n"
        + "theorem methods_covered : methodsCovered gridChunks classes = true := by decide +kernel\n\nend OV.Gen.C17\n"
    )
    files["C17CoverK"] = (
        HEADER
        + "import OV.Gen.C17Grid\nnamespace OV.Gen.C17\nopen OV.C17\n\n"
        + "/-- per (domain, name) the registered since_versions are pairwise distinct -/\n"
        + "theorem keys_unique : keysUnique schemas gridChunks = true := by decide +kernel\n\nend OV.Gen.C17\n"
    )
    files["C17Checks"] = (
        HEADER
        + "import OV.Gen.C17Tables\nnamespace OV.Gen.C17\nopen OV.C17\n\n"
        + f"/-- `Opset` (the base of every version-1 class) -/\ndef opsetBase : Nat := {enc('Opset')}\n\n"
        + "theorem chain_ok : chainOk opsetBase classes = true := by decide +kernel\n\n"
        + "theorem exports_ok : exportsOk classes exports = true := by decide +kernel\n\n"
        + "theorem classes_generated : classes.all (fun c => !ungeneratedDomains.contains c.domain) = true := by decide +kernel\n\n"
        + "theorem schemas_have_class : schemas.all (fun s => ungeneratedDomains.contains s.domain ||\n"
        + "    classes.any (fun c => c.domain == s.domain && c.version == s.since)) = true := by decide +kernel\n\n"
        + "/-- every generated method forwards each positional parameter (then `*vararg`) through `_prepare_inputs` in order and\n"
        + "each keyword-only parameter as `kw=kw` (stubs forward nothing) -/\n"
        + "theorem forwarding_ok : classes.all (fun c => c.methods.all forwardsOwnParams) = true := by decide +kernel\n\n"
        + "/-- the parameter names of every generated `def` are pairwise distinct -/\n"
        + "theorem params_distinct : classes.all (fun c => c.methods.all paramsDistinct) = true := by decide +kernel\n\n"
        + "end OV.Gen.C17\n"
    )
    files["C17IrMap"] = (
        HEADER
        + "import OV.Model.C17OpsetGen\nnamespace OV.Gen.C17\nopen OV.C17\n\n"
        + "/-- `onnx.helper.OP_SET_ID_VERSION_MAP` of the installed onnx: ((domain, opset version), ir_version) -/\n"
        + "def irMap : List ((Nat × Nat) × Nat) := "
        + L_list([f"(({enc(d)}, {v}), {ir})" for d, v, ir in data.get("ir_map", [])])
        + "\n\nend OV.Gen.C17\n"
    )
    # ---- the name set: every text that was encoded above, with the code this translator wrote, sorted by code
    _ENC_SEEN.add("ai.onnx")
    seen = sorted(_ENC_SEEN | set(data.get("_names", [])), key=lambda s: int.from_bytes(b"\x01" + s.encode("utf-8"), "big"))
    NAMES_PER_MODULE = 400
    name_mods = []
    for k in range(0, len(seen), NAMES_PER_MODULE):
        sl = seen[k : k + NAMES_PER_MODULE]
        j = k // NAMES_PER_MODULE
        name_mods.append(f"C17ChecksNames{j}")
        files[f"C17ChecksNames{j}"] = (
            HEADER
            + "import OV.Model.C17OpsetGen\nnamespace OV.Gen.C17\nopen OV.C17\n\n"
            + f"/-- texts {k}… of the name set (sorted by code) with the code the translator wrote for each -/\n"
            + f"def names{j} : List (String × Nat) := "
            + L_list([f"({lean_str(s)}, {int.from_bytes(b'\x01' + s.encode('utf-8'), 'big')})" for s in sl], per_line=True)
            + f"\n\n/-- the translator's code of every text is the model's `enc` of it (the kernel evaluates `enc` on the strings) -/\n"
            + f"theorem names{j}_enc : names{j}.all (fun p => enc p.1 == p.2) = true := by decide +kernel\n\nend OV.Gen.C17\n"
        )
    files["C17ChecksNames"] = (
        HEADER
        + "".join(f"import OV.Gen.{m}\n" for m in name_mods)
        + "namespace OV.Gen.C17\nopen OV.C17\n\n"
        + "/-- every text that occurs (as its code) in the regenerated tables: operator, class, module, parameter, attribute and\n"
        + "domain names, string defaults, dumps of other defaults -/\n"
        + "def names : List (String × Nat) := "
        + " ++ ".join(f"names{j}" for j in range(len(name_mods)))
        + "\n\ntheorem names_enc : names.all (fun p => enc p.1 == p.2) = true := by\n"
        + "  simp only [names, List.all_append, Bool.and_eq_true]\n  exact "
        + ("⟨" * (len(name_mods) - 1))
        + (", ".join([f"names0_enc"] + [f"names{j}_enc⟩" for j in range(1, len(name_mods))]))
        + "\n\n/-- the codes are strictly increasing along the list: distinct texts of the name set have distinct codes -/\n"
        + "theorem names_increasing : increasing (names.map Prod.snd) = true := by decide +kernel\n\nend OV.Gen.C17\n"
    )
    changed = {}
    keep = set()
    for mod, text in files.items():
        p = outdir / f"{mod}.lean"
        keep.add(p.name)
        if not p.exists() or p.read_text(encoding="utf-8") != text:
            p.write_text(text, encoding="utf-8")
            changed[mod] = True
        else:
            changed[mod] = False
    for p in outdir.glob("C17*.lean"):
        if p.name not in keep:
            p.unlink()
    return changed


if __name__ == "__main__":
    import json
    import sys

    d = extract_all()
    ch = emit_lean(d)
    print(json.dumps({"classes": len(d["classes"]), "methods": sum(len(c["methods"]) for c in d["classes"]),
                      "schemas": len(d["schemas"]), "files": len(ch), "changed": sum(ch.values())}))
    if len(sys.argv) > 1:
        Path(sys.argv[1]).write_text(json.dumps(d, indent=1))
