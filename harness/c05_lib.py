"""C05 plumbing: host-model construction, applying one real rule, the numeric oracle (search only)."""
from __future__ import annotations

import io
import contextlib
from fractions import Fraction

import numpy as np
import onnx
from onnx import TensorProto as TP
from onnx import helper as h
from onnx import numpy_helper as nh

_ort = None


def ort():
    global _ort
    if _ort is None:
        import onnxruntime

        onnxruntime.set_default_logger_severity(4)
        _ort = onnxruntime
    return _ort


NP2TP = {
    "float32": TP.FLOAT, "float64": TP.DOUBLE, "float16": TP.FLOAT16, "int64": TP.INT64, "int32": TP.INT32,
    "uint8": TP.UINT8, "int8": TP.INT8, "bool": TP.BOOL, "uint32": TP.UINT32, "int16": TP.INT16, "uint64": TP.UINT64,
}


def vi(name, dtype, shape):
    """value_info; dtype: numpy dtype name or TensorProto int; shape: list (str = symbolic, None dim) or None."""
    t = NP2TP[dtype] if isinstance(dtype, str) else dtype
    return h.make_tensor_value_info(name, t, shape)


def schema_values(op: str, attr: str, opset: int) -> list:
    """Value space of an enumerated string attribute, read from the *installed* ONNX schema of `op` at `opset`
    (not from the rule's source): e.g. Pad.mode at 19+ includes `wrap`; ScatterND.reduction grows with the opset."""
    import re
    try:
        sch = onnx.defs.get_schema(op, opset)
        desc = sch.attributes[attr].description
    except Exception:
        return []
    first = desc.split(". ")[0]
    ticks = re.findall(r"`([A-Za-z_]{3,})`", first)
    if ticks:
        return list(dict.fromkeys(ticks))
    caps = re.findall(r"\b[A-Z][A-Z_]{3,}\b", first)
    if caps:
        return list(dict.fromkeys(caps))
    if ":" in first:
        toks = [t.strip().split(" ")[0] for t in first.split(":", 1)[1].split(",")]
        return [t for t in dict.fromkeys(toks) if re.fullmatch(r"[a-z_]+", t)]
    return []


class Host:
    """Incrementally built host graph around one pattern instance."""

    def __init__(self, opset: int = 18):
        self.nodes: list = []
        self.inputs: list = []
        self.outputs: list = []
        self.inits: list = []
        self.value_info: list = []
        self.feeds: dict = {}      # name -> callable(np_rng) -> array
        self.opset = opset
        self.extra_opsets: list = []

    def inp(self, name, dtype: str, shape, gen=None, decl_shape="same"):
        """graph input; `shape` concrete (for feeds); `decl_shape` the declared annotation (default: same)."""
        ds = shape if decl_shape == "same" else decl_shape
        self.inputs.append(vi(name, dtype, ds))
        if gen is None:
            gen = default_gen(dtype, shape)
        self.feeds[name] = gen
        return name

    def const(self, name, arr: np.ndarray, origin: str = "init"):
        """operand with a compile-time value: origin init | cnode | ginit (initializer + graph input) | input."""
        arr = np.asarray(arr)
        if origin == "init":
            self.inits.append(nh.from_array(arr, name))
        elif origin == "cnode":
            self.nodes.append(h.make_node("Constant", [], [name], value=nh.from_array(arr, name)))
        elif origin == "ginit":
            self.inits.append(nh.from_array(arr, name))
            self.inputs.append(vi(name, arr.dtype.name, list(arr.shape)))
            # fed value *differs* from the default when fed at all; the oracle feeds it (overriding)
            self.feeds[name] = lambda r, a=arr: override_of(a)
        elif origin == "input":
            self.inputs.append(vi(name, arr.dtype.name, list(arr.shape)))
            self.feeds[name] = lambda r, a=arr: a
        else:
            raise ValueError(origin)
        return name

    def node(self, op, ins, outs, domain="", **attrs):
        self.nodes.append(h.make_node(op, ins, outs, domain=domain, **attrs))
        return outs[0]

    def out(self, name, dtype=None, shape=None):
        self.outputs.append(vi(name, dtype if dtype is not None else "float32", shape))

    def annotate(self, name, dtype, shape):
        self.value_info.append(vi(name, dtype, shape))

    def model(self, infer: bool = True) -> onnx.ModelProto:
        g = h.make_graph(self.nodes, "g", self.inputs, self.outputs, self.inits, value_info=self.value_info)
        ops = [h.make_opsetid("", self.opset)] + self.extra_opsets
        m = h.make_model(g, opset_imports=ops, ir_version=max(10, h.find_min_ir_version_for(ops)))
        if infer:
            try:
                m = onnx.shape_inference.infer_shapes(m, data_prop=True)
            except Exception:
                pass
        return m

    def make_feeds(self, np_rng) -> dict:
        return {k: np.asarray(g(np_rng)) for k, g in self.feeds.items()}


def override_of(a: np.ndarray) -> np.ndarray:
    """A run-time override of a default-valued input, different from the default."""
    if a.dtype == np.bool_:
        return ~a
    return (a + np.asarray(3, dtype=a.dtype)).astype(a.dtype)


def default_gen(dtype: str, shape):
    shape = tuple(int(d) for d in shape)

    def g(r):
        if dtype.startswith("float"):
            base = r.choice(np.array([-7.5, -3.0, -1.0, -0.5, 0.0, 0.25, 1.0, 2.0, 6.5, 12.0]), size=shape)
            return (base + r.uniform(-0.2, 0.2, size=shape) * (r.random_sample() < 0.5)).astype(dtype)
        if dtype == "bool":
            return r.random_sample(size=shape) < 0.5
        if dtype.startswith("uint"):
            return r.randint(0, 9, size=shape).astype(dtype)
        return r.randint(-9, 10, size=shape).astype(dtype)

    return g


# --------------------------------------------------------------------------- real rule application


def apply_rules(rules, model: onnx.ModelProto):
    """Apply `RewriteRuleSet(rules)` to a copy of the model.  Returns (count | 'raise:<Type>', after_proto|None)."""
    from onnxscript import ir
    from onnxscript.rewriter import RewriteRuleSet

    im = ir.serde.deserialize_model(model)
    rs = rules if isinstance(rules, RewriteRuleSet) else RewriteRuleSet(list(rules))
    buf = io.StringIO()
    try:
        with contextlib.redirect_stdout(buf), contextlib.redirect_stderr(buf):
            n = rs.apply_to_model(im)
    except Exception as e:  # a rule raising is an observable outcome of its own
        return f"raise:{type(e).__name__}", None
    return n, ir.serde.serialize_model(im)


class RuleState:
    """Pristine attribute state of every class-based rule object (`RewriteRuleClassBase` instances behind the shipped
    module-level rule singletons).  `restore()` puts every instance back, so that each case starts from a fresh rule
    object and *history* enters only through a case's explicit `pre` list (replays stay self-contained)."""

    def __init__(self):
        import copy
        import importlib
        import pkgutil

        import onnxscript.rewriter as RW
        from onnxscript.rewriter import RewriteRule, RewriteRuleSet
        from onnxscript.rewriter.rules import common, fusion

        rules = list(RW._DEFAULT_REWRITE_RULES)
        mods = [common]
        for pkg in (common, fusion):
            for mi in pkgutil.iter_modules(pkg.__path__):
                if mi.name.endswith("_test"):
                    continue
                try:
                    mods.append(importlib.import_module(pkg.__name__ + "." + mi.name))
                except Exception:
                    pass
        for m in mods:
            for v in vars(m).values():
                if isinstance(v, RewriteRule):
                    rules.append(v)
                elif isinstance(v, RewriteRuleSet):
                    rules.extend(v.rules)
                elif isinstance(v, (list, tuple)) and v and all(isinstance(x, RewriteRule) for x in v):
                    rules.extend(v)
        self.snap = {}
        for r in rules:
            for inst in self._instances(r):
                if id(inst) not in self.snap:
                    self.snap[id(inst)] = (inst, copy.copy(vars(inst)))

    @staticmethod
    def _instances(rule, depth=0):
        out = []
        for v in vars(rule).values():
            s = getattr(v, "__self__", None)
            if s is not None and not isinstance(s, type) and hasattr(s, "__dict__"):
                out.append(s)
            elif depth < 2 and hasattr(v, "__dict__") and type(v).__module__.startswith("onnxscript.rewriter"):
                out += RuleState._instances(v, depth + 1)
        return out

    def restore(self):
        import copy

        for inst, d in self.snap.values():
            cur = vars(inst)
            if cur.keys() != d.keys() or any(cur[k] is not d[k] for k in d if k != "_compiled_pattern"):
                keep = cur.get("_compiled_pattern")          # a cache of the compiled target pattern, not rule state
                cur.clear()
                cur.update(copy.copy(d))
                if keep is not None:
                    cur["_compiled_pattern"] = keep


_RULE_STATE = None


def rule_state() -> RuleState:
    """Created on first use — call once before any rule has been applied in this process."""
    global _RULE_STATE
    if _RULE_STATE is None:
        _RULE_STATE = RuleState()
    return _RULE_STATE


def default_ruleset():
    """A fresh `RewriteRuleSet` over the shipped `_DEFAULT_REWRITE_RULES` (their order, their rule objects)."""
    import onnxscript.rewriter as RW
    from onnxscript.rewriter import RewriteRuleSet

    return RewriteRuleSet(list(RW._DEFAULT_REWRITE_RULES))


# --------------------------------------------------------------------------- oracle (search / judgement of unproved rules)


def run_ort(model: onnx.ModelProto, feeds: dict):
    o = ort()
    so = o.SessionOptions()
    so.graph_optimization_level = o.GraphOptimizationLevel.ORT_DISABLE_ALL
    so.log_severity_level = 4
    sess = o.InferenceSession(model.SerializeToString(), so, providers=["CPUExecutionProvider"])
    # graph inputs that have an initializer (overridable defaults) are listed separately by onnxruntime
    names = {i.name for i in sess.get_inputs()} | {i.name for i in sess.get_overridable_initializers()}
    ro = o.RunOptions()
    ro.log_severity_level = 4
    return [sess.run(None, {k: v for k, v in f.items() if k in names}, ro) for f in feeds]


def run_ref(model: onnx.ModelProto, feeds: dict):
    from onnx.reference import ReferenceEvaluator

    ev = ReferenceEvaluator(model)
    names = set(ev.input_names)
    return [ev.run(None, {k: v for k, v in f.items() if k in names}) for f in feeds]


def same_outputs(a, b, exact: bool, tol=None) -> str | None:
    """None if equal, else a description."""
    if len(a) != len(b):
        return f"number of outputs {len(a)} vs {len(b)}"
    for i, (u, v) in enumerate(zip(a, b)):
        u = np.asarray(u)
        v = np.asarray(v)
        if u.dtype != v.dtype:
            return f"output {i}: dtype {u.dtype} vs {v.dtype}"
        if u.shape != v.shape:
            return f"output {i}: shape {list(u.shape)} vs {list(v.shape)}"
        if u.dtype.kind in "fc":
            uu, vv = u.astype(np.float64), v.astype(np.float64)
            ok = np.array_equal(uu, vv, equal_nan=True) if exact else np.allclose(uu, vv, rtol=(tol or (2e-4, 2e-5))[0], atol=(tol or (2e-4, 2e-5))[1], equal_nan=True)
        else:
            ok = np.array_equal(u, v)
        if not ok:
            return f"output {i}: values {np.asarray(u).reshape(-1)[:6].tolist()} vs {np.asarray(v).reshape(-1)[:6].tolist()}"
    return None


def oracle(before: onnx.ModelProto, after: onnx.ModelProto, feeds: list, exact: bool, prefer: str = "ort", tol=None) -> tuple[str, str]:
    """(status, detail).  status: same | differ | after_error | before_invalid.

    onnxruntime (optimisations off) first; when it cannot run the *original*, `onnx.reference` is used for
    both sides (e.g. auto_pad SAME_* with dilations)."""
    runners = {"ort": [("ort", run_ort), ("ref", run_ref)], "ref": [("ref", run_ref), ("ort", run_ort)],
               "ort_only": [("ort", run_ort)]}[prefer]
    last = ""
    for name, fn in runners:
        try:
            ob = fn(before, feeds)
        except Exception as e:
            last = f"{name}: {type(e).__name__}: {str(e)[:160]}"
            continue
        try:
            oa = fn(after, feeds)
        except Exception as e:
            return "after_error", f"{name}: original runs, rewritten model fails: {str(e)[:200]}".replace("\n", " ")
        for k, (x, y) in enumerate(zip(ob, oa)):
            d = same_outputs(x, y, exact, tol)
            if d is not None:
                return "differ", f"{name}: input #{k}: {d}"
        return "same", name
    return "before_invalid", last.replace("\n", " ")


def checker_status(m: onnx.ModelProto) -> str | None:
    try:
        onnx.checker.check_model(m, full_check=True)
        return None
    except Exception as e:
        return str(e)[:200].replace("\n", " ")


# --------------------------------------------------------------------------- encoding helpers shared with the driver protocol


def ints(l) -> str:
    l = list(l)
    return ",".join(str(int(v)) for v in l) if l else "."


def shape_tok(s) -> str:
    """None -> '-', [] -> '.', dims: int | str (symbolic name) | None (unknown)."""
    if s is None:
        return "-"
    if len(s) == 0:
        return "."
    return ",".join("?" if d is None else str(d) for d in s)


def frac(v) -> str:
    f = Fraction(v)
    return f"{f.numerator}/{f.denominator}" if f.denominator != 1 else str(f.numerator)


def get_init(m: onnx.ModelProto, name: str):
    for t in m.graph.initializer:
        if t.name == name:
            return nh.to_array(t)
    for n in m.graph.node:
        if n.op_type == "Constant" and n.output[0] == name:
            for a in n.attribute:
                if a.name == "value":
                    return nh.to_array(a.t)
                if a.name == "value_ints":
                    return np.array(list(a.ints), dtype=np.int64)
    return None


def find_node(m: onnx.ModelProto, op: str):
    for n in m.graph.node:
        if n.op_type == op:
            return n
    return None


def attr_of(n, name, default=None):
    for a in n.attribute:
        if a.name == name:
            return h.get_attribute_value(a)
    return default
