"""C09 part (b): generated whole models with symbolic dims, optimized once, run at many bindings.

A model is built from templates over a "current" data tensor whose symbolic shape the generator
tracks (dims: int | symbol name | ("u", k) unnamed input dim | None derived/unknown).  The body mixes
data ops with shape computations (Shape/Size/Gather/Concat/Reshape/Expand/Slice/Abs/Cast/Squeeze/
Flatten/Identity chains).  Every annotation placed in the model is truthful for every binding by
construction."""
from __future__ import annotations

import numpy as np
import onnx
from onnx import TensorProto, helper, numpy_helper

INT64_MAX = 9223372036854775807
VALUES = [0, 1, 2, 3, 7]


class Builder:
    def __init__(self, rng):
        self.rng = rng
        self.nodes = []
        self.inits = []
        self.inputs = []  # (name, elem, symshape)
        self.outputs = []  # names
        self.out_elem = {}
        self.extra_syms = set()
        self.pending_vi = None
        self.value_info = []  # (name, elem, symshape) truthful intermediate annotations
        self.shape_feeds = {}  # name -> symbolic int list (entries int | sym | ("u",k) | ("prod", [...]))
        self.n = 0
        self.tags = []  # template names used
        self.meta = {}  # known-finding relevant facts

    def fresh(self, p="t"):
        self.n += 1
        return f"{p}{self.n}"

    def node(self, op, ins, attrs=None, out=None):
        out = out or self.fresh(op.lower())
        self.nodes.append(helper.make_node(op, ins, [out], name=self.fresh("n_" + op), **(attrs or {})))
        return out

    def ci64(self, vals):
        name = self.fresh("c")
        arr = np.array(vals, dtype=np.int64)
        if self.rng.random() < 0.5:
            self.inits.append(numpy_helper.from_array(arr, name))
        else:
            self.nodes.append(helper.make_node("Constant", [], [name], value=numpy_helper.from_array(arr, name + "_v")))
        return name

    def add_input(self, elem, symshape, prefix="x"):
        name = self.fresh(prefix)
        self.inputs.append((name, elem, list(symshape)))
        return name


def dim_to_vi(d):
    if isinstance(d, int):
        return d
    if isinstance(d, str):
        return d
    return None


def gen_input_shape(rng, unnamed_counter):
    rank = rng.choice([1, 2, 2, 3, 3])
    out = []
    for _ in range(rank):
        r = rng.random()
        if r < 0.45:
            out.append(rng.choice(["N", "M", "N", "B"]))
        elif r < 0.55:
            unnamed_counter[0] += 1
            out.append(("u", unnamed_counter[0]))
        else:
            out.append(rng.choice([1, 2, 3, 3, 2, 6]) if rng.random() < 0.95 else 0)
    return out


def is_static(d):
    return isinstance(d, int)


def piece_for_dim(b: Builder, cur, cs, i):
    """A 1-element INT64 tensor equal to dim i of `cur`, built in one of several ways."""
    rng = b.rng
    d = cs[i]
    ways = ["gather", "shape_se", "slice"]
    if is_static(d):
        ways += ["const", "const"]
    w = rng.choice(ways)
    if w == "const":
        return b.ci64([d])
    if w == "gather":
        s = b.node("Shape", [cur])
        idx = i if rng.random() < 0.6 else i - len(cs)
        return b.node("Gather", [s, b.ci64([idx])], {"axis": 0})
    if w == "shape_se":
        if rng.random() < 0.5:
            return b.node("Shape", [cur], {"start": i, "end": i + 1})
        return b.node("Shape", [cur], {"start": i - len(cs), **({"end": i + 1 - len(cs)} if i + 1 < len(cs) else {})})
    s = b.node("Shape", [cur])
    return b.node("Slice", [s, b.ci64([i]), b.ci64([i + 1])])


def prod_dims(ds):
    if all(is_static(d) for d in ds):
        p = 1
        for d in ds:
            p *= d
        return p
    return None


def t_reshape_own(b, cur, cs):
    s = b.node("Shape", [cur])
    if b.rng.random() < 0.3:
        s = b.node("Cast", [s], {"to": TensorProto.INT64})
    if b.rng.random() < 0.2:
        s = b.node("Identity", [s])
    return b.node("Reshape", [cur, s]), cs


def t_expand_own(b, cur, cs):
    rng = b.rng
    if rng.random() < 0.3 and all(d is not None for d in cs):
        # constant target that keeps every dim through a 1 (or the static dim itself), optionally rank-extending by leading 1s
        k = rng.choice([0, 1, 1, 2]) if len(cs) <= 2 else rng.choice([0, 1])
        tl = [1] * k + [(d if is_static(d) and rng.random() < 0.6 else 1) for d in cs]
        b.meta.setdefault("expand_ones", []).append(k)
        return b.node("Expand", [cur, b.ci64(tl)]), [1] * k + list(cs)
    if all(is_static(d) for d in cs) and rng.random() < 0.4:
        t = b.ci64(list(cs))
    elif rng.random() < 0.5:
        t = b.node("Shape", [cur])
    else:
        t = b.node("Concat", [piece_for_dim(b, cur, cs, i) for i in range(len(cs))], {"axis": 0})
    return b.node("Expand", [cur, t]), cs


def t_pieces_reshape(b, cur, cs):
    """Reshape through a Concat of shape pieces, merging two adjacent dims (or not)."""
    rng = b.rng
    r = len(cs)
    if r >= 2 and rng.random() < 0.7:
        j = rng.randrange(r - 1)
        pieces = [piece_for_dim(b, cur, cs, i) for i in range(j)]
        p = prod_dims(cs[j : j + 2])
        use_minus1 = p is None or rng.random() < 0.5
        # a -1 next to a possibly-zero dim is ambiguous in the *original* model: keep it only when every other dim is a positive static
        others = cs[:j] + cs[j + 2 :]
        if use_minus1 and not all(is_static(d) and d > 0 for d in others):
            if p is None:
                return None
            use_minus1 = False
        pieces.append(b.ci64([-1 if use_minus1 else p]))
        pieces += [piece_for_dim(b, cur, cs, i) for i in range(j + 2, r)]
        ncs = cs[:j] + [p] + cs[j + 2 :]
    else:
        pieces = [piece_for_dim(b, cur, cs, i) for i in range(r)]
        ncs = list(cs)
    attrs = {}
    merged = len(pieces) != r
    if merged or rng.random() < 0.3:
        # after a merge the piece indices no longer line up with the input dims: make a runtime 0 literal
        attrs["allowzero"] = 1
    c = b.node("Concat", pieces, {"axis": 0}) if len(pieces) > 1 or rng.random() < 0.5 else pieces[0]
    return b.node("Reshape", [cur, c], attrs), ncs


def t_abs_chain(b, cur, cs):
    rng = b.rng
    i = rng.randrange(len(cs))
    k = rng.choice([0, 1, 2, 5, 1, 2]) if rng.random() < 0.93 else rng.choice([-1, -5])
    form = rng.choice(["shape_se", "full", "concat"])
    if form == "shape_se":
        s = b.node("Shape", [cur], {"start": i, "end": i + 1})
        a = b.node("Add", [s, b.ci64([k])] if rng.random() < 0.6 else [b.ci64([k]), s])
        if k < 0:
            b.meta.setdefault("abs_neg_add", []).append(a)
    elif form == "full":
        a = b.node("Shape", [cur])
    else:
        a = b.node("Concat", [piece_for_dim(b, cur, cs, i), b.ci64([abs(k)])], {"axis": 0})
    o = b.node("Abs", [a])
    b.outputs.append(o)
    b.out_elem[o] = TensorProto.INT64
    if form == "shape_se" and k < 0:
        b.meta.setdefault("abs_neg_outputs", []).append(o)
    if rng.random() < 0.4 and form == "shape_se":
        # use the |N+k| as an Expand target on a fresh leading axis
        pass
    return cur, cs


def t_size(b, cur, cs):
    o = b.node("Size", [cur])
    b.outputs.append(o)
    b.out_elem[o] = TensorProto.INT64
    return cur, cs


def t_flatten(b, cur, cs):
    rng = b.rng
    r = len(cs)
    axis = rng.randint(0, r)
    attrs = {} if axis == 1 and rng.random() < 0.5 else {"axis": axis if rng.random() < 0.7 or axis == r else axis - r}
    y = b.node("Flatten", [cur], attrs)
    b.meta.setdefault("flatten", []).append((y, list(cs)))
    return y, [prod_dims(cs[:axis]), prod_dims(cs[axis:])]


def t_slice(b, cur, cs):
    rng = b.rng
    ax = rng.randrange(len(cs))
    d = cs[ax]
    mode = rng.choice(["max", "static", "short"])
    if mode == "static" and not is_static(d):
        mode = "max"
    if mode == "max":
        end = INT64_MAX
        ncs = list(cs)
    elif mode == "static":
        end = d + rng.choice([0, 0, 1])
        ncs = list(cs)
    else:
        end = 1
        ncs = list(cs)
        ncs[ax] = (min(d, 1) if is_static(d) else None)
    axv = ax if rng.random() < 0.6 else ax - len(cs)
    y = b.node("Slice", [cur, b.ci64([0]), b.ci64([end]), b.ci64([axv]), b.ci64([1])])
    return y, ncs


def t_cast_out(b, cur, cs):
    s = b.node("Shape", [cur])
    to = b.rng.choice([TensorProto.INT64, TensorProto.FLOAT, TensorProto.INT32])
    o = b.node("Cast", [s], {"to": to})
    b.outputs.append(o)
    b.out_elem[o] = to
    return cur, cs


def t_squeeze_piece(b, cur, cs):
    """Reshape target built from Squeeze/Unsqueeze'd scalars of the shape."""
    rng = b.rng
    pieces = []
    for i in range(len(cs)):
        p = piece_for_dim(b, cur, cs, i)
        if rng.random() < 0.5:
            q = b.node("Squeeze", [p]) if rng.random() < 0.5 else b.node("Squeeze", [p, b.ci64([0])])
            p = b.node("Unsqueeze", [q, b.ci64([0])]) if rng.random() < 0.6 else b.node("Reshape", [q, b.ci64([-1])])
        pieces.append(p)
    c = b.node("Concat", pieces, {"axis": 0}) if len(pieces) > 1 else pieces[0]
    return b.node("Reshape", [cur, c]), cs


def t_identity(b, cur, cs):
    return b.node("Identity", [cur]), cs


def t_concat_zero(b, cur, cs):
    rng = b.rng
    if any(d is None for d in cs):
        return None
    ax = rng.randrange(len(cs))
    zs = list(cs)
    zs[ax] = 0
    z = b.add_input(TensorProto.FLOAT, zs, "z")
    ins = [cur, z] if rng.random() < 0.5 else [z, cur]
    return b.node("Concat", ins, {"axis": ax if rng.random() < 0.6 else ax - len(cs)}), cs


def t_materialize(b, cur, cs):
    """Reshape by a *runtime* shape input whose output carries a truthful annotation."""
    rng = b.rng
    syms = [d for d in cs if not is_static(d)]
    stat = [d for d in cs if is_static(d)]
    target = None
    c = rng.random()
    if c < 0.35:
        target = list(cs)
    elif c < 0.7 and stat:
        # regroup the static dims, keep the symbolic ones in place
        p = prod_dims(stat)
        facts = {1: [[1]], 2: [[2], [1, 2]], 3: [[3], [3, 1]], 4: [[4], [2, 2]], 6: [[6], [2, 3], [3, 2]], 9: [[3, 3]], 12: [[12], [2, 6], [3, 4], [2, 2, 3]], 18: [[2, 9], [3, 6]], 36: [[6, 6], [4, 9]], 0: [[0], [0, 2]]}
        if p in facts:
            target = syms + rng.choice(facts[p]) if rng.random() < 0.5 else rng.choice(facts[p]) + syms
    if target is None:
        target = list(cs)
    if any(d is None for d in target):
        return None
    s_in = b.add_input(TensorProto.INT64, [len(target)], "s")
    b.shape_feeds[s_in] = list(target)
    # a runtime 0 must mean "zero", not "copy dim i", unless the target lines up with the input dims
    az = {"allowzero": 1} if (target != list(cs) or rng.random() < 0.3) else {}
    y = b.node("Reshape", [cur, s_in], az)
    b.value_info.append((y, TensorProto.FLOAT, list(target)))
    b.meta.setdefault("materialize", []).append((y, list(target)))
    return y, list(target)


def t_expand_binary(b, cur, cs):
    """BinaryOp(Expand(cur, target), other): the pattern of `_remove_expand_before_binary_op`."""
    rng = b.rng
    r = len(cs)
    if any(d is None for d in cs):
        return None
    kind = rng.choice(["same", "lead", "other_bigger", "const", "dyn", "dyn"])
    op = rng.choice(["Add", "Mul", "Sub", "Div"])
    if kind == "same":
        other = b.add_input(TensorProto.FLOAT, list(cs), "y")
        ocs = list(cs)
        target = b.node("Shape", [other if rng.random() < 0.5 else cur])
        res = list(cs)
    elif kind == "lead":
        # other has an extra leading dim; expand cur to other's shape
        lead = rng.choice(["B", 2, 3])
        ocs = [lead] + list(cs)
        other = b.add_input(TensorProto.FLOAT, ocs, "y")
        target = b.node("Shape", [other])
        res = list(ocs)
    elif kind == "other_bigger":
        # other is 1 where cur is big, or big where cur is 1; the target is the true broadcast shape
        ocs = []
        for d in cs:
            c = rng.random()
            if is_static(d) and d == 1 and c < 0.6:
                ocs.append(rng.choice(["B", "M", 2, 3]))
            elif c < 0.75:
                ocs.append(d)
            else:
                ocs.append(1)
        other = b.add_input(TensorProto.FLOAT, ocs, "y")
        res = [o if (is_static(d) and d == 1) else d for d, o in zip(cs, ocs)]
        if rng.random() < 0.5:
            target = b.node("Shape", [other])
        else:
            target = b.node("Concat", [piece_for_dim(b, cur, cs, i) if not (is_static(cs[i]) and cs[i] == 1) else piece_for_dim(b, other, ocs, i) for i in range(r)], {"axis": 0})
    elif kind == "dyn":
        # the Expand target is a run-time graph input that really changes the result: a new leading dim K
        # and/or a static 1 of `cur` stretched to K; the other operand has cur's shape, so it does not supply it
        ocs = list(cs)
        other = b.add_input(TensorProto.FLOAT, ocs, "y")
        stretch = [i for i, d in enumerate(cs) if is_static(d) and d == 1]
        tv = list(cs)
        res = list(cs)
        mode = rng.choice(["lead", "stretch", "both"]) if stretch else "lead"
        if mode in ("stretch", "both"):
            i = rng.choice(stretch)
            tv[i] = "K"
            res[i] = "K"
        if mode in ("lead", "both"):
            tv = ["K"] + tv
            res = ["K"] + res
        target = b.add_input(TensorProto.INT64, [len(tv)], "s")
        b.shape_feeds[target] = tv
        b.extra_syms.add("K")
        if rng.random() < 0.4:
            b.pending_vi = list(res)  # truthful annotation of the Expand output (strategy 2)
    else:
        if not all(is_static(d) for d in cs):
            return None
        ocs = list(cs)
        other = b.add_input(TensorProto.FLOAT, ocs, "y")
        tv = list(cs)
        if rng.random() < 0.3:
            tv = [1] * rng.randint(0, 1) + tv
        target = b.ci64(tv)
        res = [1] * (len(tv) - r) + list(cs)
    e = b.node("Expand", [cur, target])
    if getattr(b, "pending_vi", None) is not None:
        evi = [d if not (isinstance(d, int) and False) else d for d in b.pending_vi]
        # the Expand output's own dims: cur's dims stretched — exactly `res` when the other operand has cur's shape
        b.value_info.append((e, TensorProto.FLOAT, evi))
        b.pending_vi = None
    ins = [e, other] if rng.random() < 0.5 else [other, e]
    y = b.node(op, ins)
    b.meta["expand_binary"] = True
    return y, res


def spec_slice(lst, start, end):
    """ONNX Shape(start, end): negative counts from the back, then clamp to [0, rank]."""
    r = len(lst)

    def norm(i):
        if i < 0:
            i += r
        return max(0, min(r, i))

    s_ = norm(start)
    e_ = r if end is None else norm(end)
    return list(lst[s_:e_]) if s_ < e_ else []


def t_shape_attr(b, cur, cs):
    """Shape with arbitrary (also out-of-range) start/end: as a graph output and as an Expand target for a
    tensor whose shape is a suffix of the true slice."""
    rng = b.rng
    r = len(cs)
    if any(d is None for d in cs):
        return None
    start = rng.randint(-r - 2, r + 1)
    end = rng.choice([None, None, rng.randint(-r - 2, r + 2)])
    attrs = {}
    if start != 0 or rng.random() < 0.5:
        attrs["start"] = start
    if end is not None:
        attrs["end"] = end
    sh = b.node("Shape", [cur], attrs)
    o = b.node("Identity", [sh])
    b.outputs.append(o)
    b.out_elem[o] = TensorProto.INT64
    T = spec_slice(cs, start, end)
    if T and rng.random() < 0.7:
        k = rng.randint(0, len(T))
        ys = T[k:]
        y = b.add_input(TensorProto.FLOAT, ys, "y")
        sh2 = b.node("Shape", [cur], attrs)
        e = b.node("Expand", [y, sh2])
        b.outputs.append(e)
        b.out_elem[e] = TensorProto.FLOAT
    return cur, cs


def t_scatter_all(b, cur, cs):
    """The ScatterAllDynamic pattern: indices Range(0, Gather(Shape<start>(data), axis)) over the first dim."""
    rng = b.rng
    r = len(cs)
    if any(d is None for d in cs) or r == 0:
        return None
    start = rng.choice([0, 0, 0, None, 1]) if r >= 2 else rng.choice([0, 0, None])
    k = start or 0
    g = rng.randrange(r - k)            # gathered index inside the slice: true dim is cs[k + g]
    rows = cs[k + g]
    tail = [rng.choice([2, 3])] if rng.random() < 0.6 else []
    # the scattered tensor's first dim is what `check` looks at: data.shape[g] (un-sliced index)
    td = b.add_input(TensorProto.FLOAT, [cs[g]] + tail, "td")
    upd = b.add_input(TensorProto.FLOAT, [rows] + tail, "upd")
    sh = b.node("Shape", [cur], {} if start is None else {"start": start})
    axn = b.fresh("c")
    b.inits.append(numpy_helper.from_array(np.array(g if rng.random() < 0.7 else g - (r - k), dtype=np.int64), axn))
    dim = b.node("Gather", [sh, axn], {"axis": 0})
    zn, on = b.fresh("c"), b.fresh("c")
    b.inits.append(numpy_helper.from_array(np.array(0, dtype=np.int64), zn))
    b.inits.append(numpy_helper.from_array(np.array(1, dtype=np.int64), on))
    rr = b.node("Range", [zn, dim, on])
    r2 = b.node("Unsqueeze", [rr, b.ci64([-1])])
    o = b.node("ScatterND", [td, r2, upd], {"reduction": "none"})
    b.outputs.append(o)
    b.out_elem[o] = TensorProto.FLOAT
    return cur, cs


def t_scatter_static(b, cur, cs):
    """ScatterND with constant indices over the first (static) dim: full range in order (redundant), or not."""
    rng = b.rng
    if any(d is None for d in cs) or not cs or not is_static(cs[0]) or cs[0] == 0 or cs[0] > 6:
        return None
    n = cs[0]
    c = rng.random()
    if c < 0.6:
        rows = [[i] for i in range(n)]
    elif c < 0.8:
        rows = [[i] for i in reversed(range(n))]
    else:
        rows = [[i] for i in range(max(n - 1, 1))]
    upd = b.add_input(TensorProto.FLOAT, [len(rows)] + list(cs[1:]), "upd")
    name = b.fresh("c")
    b.inits.append(numpy_helper.from_array(np.array(rows, dtype=np.int64), name))
    attrs = {}
    r = rng.random()
    if r < 0.4:
        attrs["reduction"] = "none"
    elif r < 0.55:
        attrs["reduction"] = "add"
    return b.node("ScatterND", [cur, name, upd], attrs), cs


def t_noop_arith(b, cur, cs):
    """x*1, x+0, x-0, x/1 with the neutral constant of shape [], [1] or [1,1]; x of rank 0 (a full reduction,
    also over symbolic dims) or the current tensor (rank >= 1, control).  A one-element constant of rank >= 1
    still broadcasts: the result has at least that rank."""
    rng = b.rng
    if rng.random() < 0.6:
        x = b.node("ReduceSum", [cur], {"keepdims": 0})       # all axes -> rank 0
    else:
        x = cur
    op, val = rng.choice([("Mul", 1.0), ("Add", 0.0), ("Sub", 0.0), ("Div", 1.0)])
    cshape = rng.choice([[], [1], [1], [1, 1]])
    name = b.fresh("c")
    arr = np.full(cshape, val, dtype=np.float32)
    if rng.random() < 0.5:
        b.inits.append(numpy_helper.from_array(arr, name))
    else:
        b.nodes.append(helper.make_node("Constant", [], [name], value=numpy_helper.from_array(arr, name + "_v")))
    ins = [x, name] if (op in ("Sub", "Div") or rng.random() < 0.5) else [name, x]
    o = b.node(op, ins)
    b.outputs.append(o)
    b.out_elem[o] = TensorProto.FLOAT
    return cur, cs


def t_reshape_reshape(b, cur, cs):
    """Reshape(Reshape(cur, s0), s1) with constant targets (the `ReshapeReshape` pattern): s1 uses 0 (copy the dim of the
    *intermediate* tensor), -1, allowzero, and the outer output optionally carries a truthful annotation.  Both Reshapes
    are valid for every binding (a -1 never sits beside a dim that can be 0)."""
    rng = b.rng
    r = len(cs)
    syms = [d for d in cs if not is_static(d)]
    q = prod_dims([d for d in cs if is_static(d)])
    inner = ["flat", "copy"]
    if len(syms) == 1 and q > 0:
        inner += ["sym_q", "q_sym"]
    w = rng.choice(inner)
    if w == "flat":
        s0, mid = [-1], [q if not syms else (syms[0] if (len(syms) == 1 and q == 1) else None)]
    elif w == "copy":
        s0, mid = [0] * r, list(cs)
    elif w == "sym_q":
        s0, mid = [-1, q], [syms[0], q]
    else:
        s0, mid = [q, -1], [q, syms[0]]
    outer = [("neg", [-1], [prod_dims(mid) if all(is_static(d) for d in mid) else (mid[0] if len(mid) == 1 else None)])]
    if len(mid) == 1:
        outer += [("zero", [0], list(mid)), ("zero_one", [0, 1], [mid[0], 1]), ("one_neg", [1, -1], [1, mid[0]]),
                  ("one_zero_via_neg", [-1, 1], [mid[0], 1])]
    if w == "sym_q":
        outer += [("zero_q", [0, q], list(mid)), ("neg_q", [-1, q], list(mid)), ("zero_q", [0, q], list(mid))]
    if w == "q_sym":
        outer += [("q_zero", [q, 0], list(mid)), ("q_neg", [q, -1], list(mid)), ("q_zero", [0, 0], list(mid))]
    if w == "copy" and r >= 2 and is_static(cs[0]) and cs[0] > 0:
        rest = cs[1:]
        outer += [("zero_neg", [0, -1], [cs[0], prod_dims(rest) if all(is_static(d) for d in rest) else (rest[0] if len(rest) == 1 else None)])] * 2
    if w == "copy" and r >= 2:
        outer += [("zeros", [0] * r, list(cs))]
    if all(is_static(d) for d in mid):
        outer += [("literal", [prod_dims(mid), 1], [prod_dims(mid), 1])]
    name, s1, res = rng.choice(outer)
    az = {}
    if (0 not in s1 or (name == "literal")) and rng.random() < 0.4:
        az = {"allowzero": 1}
    if name == "literal" and prod_dims(mid) == 0:
        az = {"allowzero": 1}
    m = b.node("Reshape", [cur, b.ci64(s0)])
    y = b.node("Reshape", [m, b.ci64(s1)], az)
    if rng.random() < 0.6:
        b.value_info.append((y, TensorProto.FLOAT, list(res)))
    b.meta.setdefault("reshape_reshape", []).append((y, name, list(s0), list(s1)))
    return y, list(res)


def t_concat_empty_other_axis(b, cur, cs):
    """Concat of operands that are all empty along an axis *other than* the concat axis (float[N,0] ++ float[M,0], axis 0):
    nothing may be dropped, the concat-axis extent is the sum.  Observed through the result's shape (output + Shape)."""
    rng = b.rng
    r = rng.choice([2, 2, 3])
    ax = rng.randrange(r)
    zx = rng.choice([i for i in range(r) if i != ax])
    base = [rng.choice(["N", "M", 2, 3]) for _ in range(r)]
    base[zx] = 0
    ops = []
    for _ in range(rng.choice([2, 2, 3])):
        shp = list(base)
        shp[ax] = rng.choice(["N", "M", "B", 1, 2, 3]) if rng.random() < 0.93 else 0
        ops.append(b.add_input(TensorProto.FLOAT, shp, "e"))
    c = b.node("Concat", ops, {"axis": ax if rng.random() < 0.6 else ax - r})
    b.outputs.append(c)
    b.out_elem[c] = TensorProto.FLOAT
    sh = b.node("Shape", [c])
    b.outputs.append(sh)
    b.out_elem[sh] = TensorProto.INT64
    return cur, cs


def t_if_siblings(b, cur, cs):
    """If(cond) whose then/else subgraphs compute on the outer tensor, (mostly) reuse the same value names for tensors of
    *different static dims*, and derive a Reshape target / an output from Shape of those tensors.  cond = (C < 2) for an
    extra symbol C fed through an INT64 input, so the bindings exercise both branches."""
    rng = b.rng
    r = len(cs)
    if r > 3:
        return None
    kin = b.add_input(TensorProto.INT64, [1], "k")
    b.shape_feeds[kin] = ["C"]
    b.extra_syms.add("C")
    cond = b.node("Less", [b.node("Squeeze", [kin, b.ci64([0])]), _scalar_i64(b, 2)])
    same = rng.random() < 0.75
    stat_axes = [i for i, d in enumerate(cs) if is_static(d) and d > 0]
    mode = rng.choice(["cat_axis", "stack"]) if stat_axes else "stack"
    ax = rng.choice(stat_axes) if mode == "cat_axis" else r
    mults = rng.sample([1, 2, 3, 4], 2)
    n_unary = rng.choice([0, 1, 1, 2])
    way = rng.choice(["shape_start", "gather", "slice"])
    ret = rng.choice(["reshape", "dim", "both"])
    ifc = b.meta.get("if_count", 0)
    graphs = []
    for j, k in enumerate(mults):
        sfx = "" if same else f"_{j}"
        pre = f"sib{ifc}"

        def nm(base, sfx=sfx, pre=pre):
            return f"{pre}_{base}{sfx}"

        nodes = []
        if mode == "stack":
            nodes.append(helper.make_node("Unsqueeze", [cur, nm("axr")], [nm("u")]))
            nodes.insert(0, helper.make_node("Constant", [], [nm("axr")], value=numpy_helper.from_array(np.array([r], dtype=np.int64), "v")))
            src, rank_h = nm("u"), r + 1
        else:
            src, rank_h = cur, r
        nodes.append(helper.make_node("Concat", [src] * k, [nm("t")], axis=ax if rng.random() < 0.5 else ax - rank_h))
        h = nm("t")
        for q in range(n_unary):
            nodes.append(helper.make_node(rng.choice(["Relu", "Neg", "Abs", "Identity"]), [h], [nm(f"a{q}")]))
            h = nm(f"a{q}")
        if way == "shape_start":
            nodes.append(helper.make_node("Shape", [h], [nm("d")], start=ax - rank_h, **({} if ax == rank_h - 1 else {"end": ax + 1 - rank_h})))
        elif way == "gather":
            nodes.append(helper.make_node("Shape", [h], [nm("sh")]))
            nodes.append(helper.make_node("Constant", [], [nm("gi")], value=numpy_helper.from_array(np.array([ax], dtype=np.int64), "v")))
            nodes.append(helper.make_node("Gather", [nm("sh"), nm("gi")], [nm("d")], axis=0))
        else:
            nodes.append(helper.make_node("Shape", [h], [nm("sh")]))
            nodes.append(helper.make_node("Constant", [], [nm("s0")], value=numpy_helper.from_array(np.array([ax], dtype=np.int64), "v")))
            nodes.append(helper.make_node("Constant", [], [nm("s1")], value=numpy_helper.from_array(np.array([ax + 1], dtype=np.int64), "v")))
            nodes.append(helper.make_node("Slice", [nm("sh"), nm("s0"), nm("s1")], [nm("d")]))
        outs = []
        if ret in ("reshape", "both"):
            # move the multiplied axis last, then [-1, that dim]: valid for every binding (the dim is a positive static)
            perm = [i for i in range(rank_h) if i != ax] + [ax]
            nodes.append(helper.make_node("Transpose", [h], [nm("tr")], perm=perm))
            nodes.append(helper.make_node("Constant", [], [nm("m1")], value=numpy_helper.from_array(np.array([-1], dtype=np.int64), "v")))
            nodes.append(helper.make_node("Concat", [nm("m1"), nm("d")], [nm("tg")], axis=0))
            nodes.append(helper.make_node("Reshape", [nm("tr"), nm("tg")], [nm("y")]))
            outs.append(helper.make_value_info(nm("y"), helper.make_tensor_type_proto(TensorProto.FLOAT, None)))
        if ret in ("dim", "both"):
            nodes.append(helper.make_node("Identity", [nm("d")], [nm("dd")]))
            outs.append(helper.make_value_info(nm("dd"), helper.make_tensor_type_proto(TensorProto.INT64, None)))
        graphs.append(helper.make_graph(nodes, f"br{j}_{pre}", [], outs))
    b.meta["if_count"] = b.meta.get("if_count", 0) + 1
    onames = [b.fresh("ifo") for _ in graphs[0].output]
    b.nodes.append(helper.make_node("If", [cond], onames, name=b.fresh("n_If"), then_branch=graphs[0], else_branch=graphs[1]))
    for o, vi_ in zip(onames, graphs[0].output):
        b.outputs.append(o)
        b.out_elem[o] = vi_.type.tensor_type.elem_type
    b.meta.setdefault("if_siblings", []).append({"same_names": same, "mode": mode, "mults": mults, "unary": n_unary})
    return cur, cs


def _scalar_i64(b, v):
    name = b.fresh("c")
    b.inits.append(numpy_helper.from_array(np.array(v, dtype=np.int64), name))
    return name


TEMPLATES = [
    (t_reshape_own, 3), (t_expand_own, 3), (t_pieces_reshape, 4), (t_abs_chain, 3), (t_size, 1),
    (t_flatten, 2), (t_slice, 2), (t_cast_out, 1), (t_squeeze_piece, 2), (t_identity, 1),
    (t_concat_zero, 1), (t_materialize, 2), (t_expand_binary, 3), (t_shape_attr, 2), (t_scatter_all, 2), (t_scatter_static, 2), (t_noop_arith, 3), (t_reshape_reshape, 3), (t_concat_empty_other_axis, 2), (t_if_siblings, 2),
]


def vi(name, elem, symshape):
    if symshape is None:
        return helper.make_value_info(name, helper.make_tensor_type_proto(elem, None))
    return helper.make_tensor_value_info(name, elem, [dim_to_vi(d) for d in symshape])


def gen_model(rng, idx=0):
    """Returns dict(proto_bytes, inputs=[(name, elem, symshape)], shape_feeds, tags, meta) or None."""
    b = Builder(rng)
    unnamed = [0]
    cs = gen_input_shape(rng, unnamed)
    cur = b.add_input(TensorProto.FLOAT, cs)
    nt = rng.randint(1, 4)
    weights = [w for _, w in TEMPLATES]
    for _ in range(nt):
        t = rng.choices([t for t, _ in TEMPLATES], weights)[0]
        if len(cs) == 0:
            break
        r = t(b, cur, cs)
        if r is None:
            continue
        b.tags.append(t.__name__)
        cur, cs = r
        # rules/evaluators reason about the *current* tensor's annotation: give derived tensors none
    if not b.tags:
        return None
    fin = b.node("Identity", [cur]) if rng.random() < 0.3 else cur
    if fin in [i[0] for i in b.inputs]:
        fin = b.node("Identity", [cur])
    b.outputs.insert(0, fin)
    b.out_elem[fin] = TensorProto.FLOAT
    return b


def finish(b: Builder, out_ranks=None):
    """The ModelProto; `out_ranks=None` gives a provisional model whose outputs carry no shape."""
    g_inputs = [vi(n, e, s) for n, e, s in b.inputs]
    g_outputs = [vi(n, b.out_elem[n], None if out_ranks is None else [None] * out_ranks[n]) for n in b.outputs]
    g = helper.make_graph(b.nodes, "g", g_inputs, g_outputs, initializer=b.inits,
                          value_info=[vi(n, e, s) for n, e, s in b.value_info if n not in b.outputs])
    m = helper.make_model(g, opset_imports=[helper.make_opsetid("", 18)], ir_version=8)
    return m


def symbols_of(b: Builder):
    syms, unn = set(b.extra_syms), set()
    for _, _, s in b.inputs:
        for d in s:
            if isinstance(d, str):
                syms.add(d)
            elif isinstance(d, tuple):
                unn.add(d)
    return sorted(syms), sorted(unn)


def concrete(d, binding):
    if isinstance(d, int):
        return d
    return binding[d]


def feeds_for(b: Builder, binding, rng_np):
    feeds = {}
    for name, elem, s in b.inputs:
        if name in b.shape_feeds:
            feeds[name] = np.array([concrete(d, binding) for d in b.shape_feeds[name]], dtype=np.int64)
        else:
            shp = [concrete(d, binding) for d in s]
            feeds[name] = rng_np.integers(-4, 5, size=shp).astype(np.float32)
    return feeds
