"""onnxruntime in a child process: a model that makes the runtime abort (std::terminate / segfault) must show
up as a result ("CRASH"), never kill the check.  Frames: 4-byte length + pickle.
Requests: ("session", id, bytes) -> "ok" | "LOADERR:…";  ("run", id, feeds) -> [arrays] | "RUNERR:…" | "LOADERR:…"."""
import pickle
import struct
import sys


def main():
    import onnxruntime as ort

    ort.set_default_logger_severity(4)
    so = ort.SessionOptions()
    so.graph_optimization_level = ort.GraphOptimizationLevel.ORT_DISABLE_ALL
    so.log_severity_level = 4
    so.intra_op_num_threads = 1
    ro = ort.RunOptions()
    ro.log_severity_level = 4
    sessions = {}
    inp, out = sys.stdin.buffer, sys.stdout.buffer
    while True:
        hdr = inp.read(4)
        if len(hdr) < 4:
            return
        (n,) = struct.unpack("<I", hdr)
        req = pickle.loads(inp.read(n))
        if req[0] == "session":
            _, sid, data = req
            try:
                sessions[sid] = ort.InferenceSession(data, so, providers=["CPUExecutionProvider"])
                res = "ok"
            except Exception as e:
                sessions[sid] = "LOADERR:" + str(e)[:260]
                res = sessions[sid]
        elif req[0] == "drop":
            for sid in req[1]:
                sessions.pop(sid, None)
            res = "ok"
        else:
            _, sid, feeds = req
            s = sessions.get(sid)
            if isinstance(s, str):
                res = s
            else:
                try:
                    res = s.run(None, feeds, ro)
                except Exception as e:
                    res = "RUNERR:" + str(e)[:260]
        blob = pickle.dumps(res, protocol=pickle.HIGHEST_PROTOCOL)
        out.write(struct.pack("<I", len(blob)))
        out.write(blob)
        out.flush()


if __name__ == "__main__":
    main()
