"""Regenerate the machine-written tables of DESIGN.md (between AUTOGEN markers) from
manifest.d/, evidence/, known_findings(.d), seeded/.  Run: python harness/mkdesign.py"""
import json
import re
from pathlib import Path

V = Path(__file__).resolve().parent.parent


def load_findings():
    open_, fixed = [], []
    files = [V / "known_findings.json"] + sorted((V / "known_findings.d").glob("*.json"))
    seen_open, seen_fixed = set(), set()
    for f in files:
        if not f.exists():
            continue
        d = json.loads(f.read_text())
        for e in d.get("findings", []):
            key = (e["id"], tuple(e.get("properties", [])))
            if e.get("status", "open") == "open" and e["id"] not in seen_open:
                seen_open.add(e["id"])
                open_.append(e)
        for e in d.get("fixed", []):
            if e["id"] not in seen_fixed:
                seen_fixed.add(e["id"])
                fixed.append(e)
    return open_, fixed


def esc(s, n=220):
    s = re.sub(r"\s+", " ", str(s)).replace("|", "\\|")
    return s if len(s) <= n else s[: n - 1] + "…"


def seeds_table():
    rows = ["| seed | property | what it changes (author's summary) | needs to manifest | result of `./check` on the patched tree |", "|---|---|---|---|---|"]
    for d in sorted((V / "seeded").iterdir(), key=lambda p: (p.name.split("-")[0], int(p.name.split("-")[1]))):
        if not (d / "meta.json").exists():
            continue
        m = json.loads((d / "meta.json").read_text())
        r = json.loads((d / "result.json").read_text()) if (d / "result.json").exists() else {}
        c = json.loads((d / "confirmed.json").read_text()) if (d / "confirmed.json").exists() else {}
        viol = [l for l in r.get("lines", []) if l.startswith("VIOLATION")]
        if r.get("exit") == 1 and viol:
            res = "VIOLATION" + (" (tie/proof only, no-failing-input-found)" if "no-failing-input-found" in viol[0] else " with concrete input")
            if r.get("detail"):
                res += ": " + esc(r["detail"][0].strip(), 160)
        elif r.get("exit") == 0:
            res = "**missed** (exit 0)"
        elif not r:
            res = "(not run yet)"
        else:
            res = f"exit {r.get('exit')}"
        note = m.get("coordinator_note", "")
        if note:
            res += " — " + esc(note, 200)
        rows.append(f"| {d.name} | {m.get('property')} | {esc(m.get('summary',''), 260)} | {esc(m.get('needs_to_manifest',''), 200)} | {res}{'' if c.get('confirmed', True) else ' (NOT confirmed)'} |")
    return "\n".join(rows)


def findings_tables():
    open_, fixed = load_findings()
    rows = ["| id | properties | what fails (reproduced on the real code) | Lean negation / note |", "|---|---|---|---|"]
    for e in sorted(open_, key=lambda e: (e.get("properties", [""])[0], e["id"])):
        rows.append(f"| {e['id']} | {', '.join(e.get('properties', []))} | {esc(e.get('what',''), 300)} | {esc(e.get('lean_negation') or e.get('note') or '', 120)} |")
    rows2 = ["| id | properties | /repo commit | record |", "|---|---|---|---|"]
    for e in sorted(fixed, key=lambda e: (e.get("properties", [""])[0], e["id"])):
        rows2.append(f"| {e['id']} | {', '.join(e.get('properties', []))} | `{e.get('commit','')}` | {esc(e.get('line',''), 300)} |")
    return "\n".join(rows), "\n".join(rows2), len(open_), len(fixed)


def checks_table():
    rows = ["| id | theorems (discharged / obligations) | quick wall (last run) | evaluations | level claimed (from manifest.d) |", "|---|---|---|---|---|"]
    for f in sorted((V / "manifest.d").glob("C*.json")) :
        m = json.loads(f.read_text())
        pid = m["property_id"]
        ev = V / "evidence" / f"{pid}.json"
        e = json.loads(ev.read_text()) if ev.exists() else {}
        c = e.get("coverage", {})
        rows.append(f"| {pid} | {c.get('discharged','?')} / {c.get('obligations','?')} | {e.get('wall_s','?')} s | {c.get('evaluations','?')} | {esc(m['level_claimed']['text'], 260)} |")
    return "\n".join(rows)


def seed_stats():
    import collections
    first = collections.defaultdict(collections.Counter)
    final = collections.defaultdict(collections.Counter)
    for d in sorted((V / "seeded").iterdir()):
        if not (d / "meta.json").exists():
            continue
        m = json.loads((d / "meta.json").read_text())
        r = json.loads((d / "result.json").read_text()) if (d / "result.json").exists() else {}
        k = int(d.name.split("-")[1])
        rnd = m.get("round") or (1 if k <= 3 else 2 if k <= 6 else 3)
        note = m.get("coordinator_note", "")
        if rnd >= 2 and not note:
            f = "unrecorded"
        elif re.search(r"MISSED|NOT detected|not detected|NOT yet detected|counts as NOT", note):
            f = "missed"
        elif re.search(r"EXIT 2|INFRA", note):
            f = "infrastructure exit (counted as a miss)"
        elif re.search(r"first run[^.;|]*(broken tie|tie only|tie break|no-failing-input-found|proof obligation)|round \d, first run: tie only|reported only (as|through) a (broken tie|failed proof)", note):
            f = "reported, no failing input found"
        else:
            f = "reported with a concrete input"
        first[rnd][f] += 1
        viol = [l for l in r.get("lines", []) if l.startswith("VIOLATION")]
        if r.get("exit") == 1 and viol:
            g = "reported, no failing input found" if "no-failing-input-found" in viol[0] else "reported with a concrete input"
        elif r.get("exit") == 0:
            g = "missed"
        elif not r:
            g = "not run"
        else:
            g = f"exit {r.get('exit')}"
        final[rnd][g] += 1
    cols = ["reported with a concrete input", "reported, no failing input found", "missed", "infrastructure exit (counted as a miss)"]
    rows = ["| round | seeds | first run: concrete input | first run: tie/proof only | first run: missed | first run: infra exit | latest run: concrete input | latest: tie/proof only | latest: missed / other |", "|---|---|---|---|---|---|---|---|---|"]
    for rnd in sorted(first):
        n = sum(first[rnd].values())
        fl = final[rnd]
        other = sum(v for k2, v in fl.items() if k2 not in cols[:2])
        if first[rnd]["unrecorded"]:
            n = f"{n} ({first[rnd]['unrecorded']} not yet run)"
        rows.append(f"| {rnd} | {n} | {first[rnd][cols[0]]} | {first[rnd][cols[1]]} | {first[rnd][cols[2]]} | {first[rnd][cols[3]]} | {fl[cols[0]]} | {fl[cols[1]]} | {other} |")
    return "\n".join(rows)


def delivered_list():
    out = []
    for f in sorted((V / "design_notes").glob("C*.summary.md")):
        out.append(f.read_text().strip())
    return "\n\n".join(out) if out else "(summaries not written yet)"


def theorems_table():
    rows = ["| id | # | theorems in `lean/OV/Props/Cxx.lean` (names; `_partial` = proved under a stated extra hypothesis, `_refuted`/`_witness` = kernel-checked counterexample) |", "|---|---|---|"]
    for f in sorted((V / "lean" / "OV" / "Props").glob("C*.lean")):
        names = re.findall(r"^theorem\s+([A-Za-z0-9_.']+)", f.read_text(), flags=re.M)
        rows.append(f"| {f.stem} | {len(names)} | {', '.join('`'+n+'`' for n in names)} |")
    return "\n".join(rows)


def replace(text, tag, body):
    a, b = f"<!-- AUTOGEN:{tag} -->", f"<!-- /AUTOGEN:{tag} -->"
    if a not in text:
        return text
    i, j = text.index(a) + len(a), text.index(b)
    return text[:i] + "\n" + body + "\n" + text[j:]


def main():
    p = V / "DESIGN.md"
    t = p.read_text()
    o, f, no, nf = findings_tables()
    t = replace(t, "seeds", seeds_table())
    t = replace(t, "open-findings", o)
    t = replace(t, "fixed-findings", f)
    t = replace(t, "checks", checks_table())
    t = replace(t, "theorems", theorems_table())
    t = replace(t, "seedstats", seed_stats())
    t = replace(t, "delivered", delivered_list())
    p.write_text(t)
    print("open findings:", no, "fixed:", nf)


if __name__ == "__main__":
    main()
