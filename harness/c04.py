"""C04 — optimize() is total on valid models; the result is valid with the same interface;
overridable initializer-inputs are never folded.

Proof obligations: lean/OV/Props/C04.lean over the same executable model as C03
(lean/OV/Model/C03{Graph,Fold,Pass}.lean; driver drv_c03).
Tie: the C03 correspondence stream (real fold_constants vs Lean foldGraph, including exception parity).
Property oracle, routinely on every generated model: optimize / fold_constants / rewrite under several option
tuples must return without raising; onnx.checker (full_check) and an independent scope/topology walker on the
result; graph inputs/outputs names, order, element types and declared shapes unchanged; every
initializer-input keeps its initializer, and a run with *overridden* initializer-inputs agrees with the original.
"""
from __future__ import annotations

import json
from collections import Counter

import numpy as np

from harness import c03_lib as L
from harness import c03_run as R
from harness import c03_streams as S
from harness import c04_extract
from harness import c04_lib as C
from harness import core

PROP_MODULES = ["OV.Props.C04"]


def witnesses(run: core.Run, stats: Counter):
    listed = {f["id"]: f for f in run.findings}
    for entry in R.load_corpus("corpus_c04.jsonl"):
        wid, fid = entry["witness"], entry["finding"]
        m, override = R.WITNESSES[wid][0]()
        init_inputs = sorted({t.name for t in m.graph.initializer} & {i.name for i in m.graph.input})
        d = None
        for api in ("optimize", "fold_constants"):
            d = R.judge_validity(m, api, entry.get("opts", {}), run.rng, init_inputs)
            if d:
                break
        stats["witness_replayed"] += 1
        f = listed.get(fid)
        if d is None:
            stats["witness_pass"] += 1
            continue
        if f is not None and f.get("status") == "open":
            run.known(fid, f"{wid}: {d}".replace("\n", " "))
        elif f is None and entry.get("owner") not in (None, "C03", "C04"):
            stats[f"witness_unlisted_{fid}"] += 1
        else:
            run.violation({"witness": wid, "finding": fid, "model_b64": R.b64(m), "api": "optimize", "opts": {}},
                          f"witness {wid} of finding {fid} (not listed as open for C04) fails: {d}")


def main(run: core.Run) -> None:
    run.assumptions += [
        "A-ir: NameFixPass / OutputFixPass / replace_nodes_and_values / serde are contracts (executed for real in the streams)",
        "onnx.checker (full_check) and onnxruntime are oracles, not theorems",
        "'valid model' = passes onnx.checker and executes on onnxruntime CPU with optimisations disabled",
    ]
    # translator tie: the pass order of optimize_ir is read off the source and compared with the modelled order by the
    # theorem OV.Props.C04.pipeline_order_matches_source (a drift makes the proof obligations fail)
    table = c04_extract.regenerate()
    run.coverage["pipeline_table"] = {k: table[k] for k in ("loop", "tail", "prefix", "guard", "steps", "early_stop", "defaults",
                                                            "other_statements", "fold_fixes_names_when_modified", "changed")}
    audit = run.prove(PROP_MODULES)
    drv = core.Driver("C03")
    stats: Counter = Counter()
    hist: Counter = Counter()

    if run.replay_path:
        body = json.loads(open(run.replay_path).read())
        case = body["case"]
        m = R.unb64(case["model_b64"])
        init_inputs = sorted({t.name for t in m.graph.initializer} & {i.name for i in m.graph.input})
        if "history" in case or "presentation" in case or str(case.get("family", "")).startswith(("alias_", "sts_", "shared_", "inits_", "fout_")):
            d = C.replay_case(case, m, run.rng, init_inputs)
        else:
            d = R.judge_validity(m, case.get("api", "optimize"), case.get("opts", {}), run.rng, init_inputs)
        print(f"REPLAY {case.get('api')} {case.get('opts')}: {d}")
        if d:
            run.violation(case, f"replayed case still fails: {d}")
        run.coverage.update(evaluations=1, distinct_nontrivial=1)
        return

    witnesses(run, stats)

    drift = R.fingerprint_drift()
    run.coverage["fingerprint_drift"] = drift
    n_models = run.size(1600, 12000)
    if drift and run.tier == "quick":
        n_models *= 3
    models = R.gen_stream(run, n_models, stats) + R.directed_tie_models() + C.directed_tie_models()
    tie_problems = R.fold_tie(run, drv, models, stats, hist)

    failures = []
    open_ids = {f["id"] for f in run.open_findings()}
    n_val = run.size(750, 5000)
    for k, (m, meta) in enumerate(models[:n_val]):
        combos = [("optimize", R.OPTION_TUPLES[k % len(R.OPTION_TUPLES)]), ("fold_constants", R.OPTION_TUPLES[(k + 2) % len(R.OPTION_TUPLES)])]
        if k % 3 == 0:
            combos.append(("rewrite", {}))
        if k % 5 == 0:
            combos.append(("optimize", {}))
        if run.tier == "thorough":
            combos += [("optimize", o) for o in R.OPTION_TUPLES[1:5]]
        for api, opts in combos:
            stats["validity_runs"] += 1
            if meta["init_inputs"]:
                stats["override_runs"] += 1
            d = R.judge_validity(m, api, opts, run.rng, meta["init_inputs"], meta.get("overrides"))
            if d:
                # a semantic finding of the stream (C03-D1: keepdims honoured) never explains an exception
                fid = R.known_in_stream(meta, open_ids) if " raised " not in d else None
                if not fid and "C09-N3" in open_ids and R.classify_c09n3(m, d):
                    fid = "C09-N3"
                if not fid and "C04-D7" in open_ids and api in ("optimize", "rewrite") and R.classify_c04d7(m, api, opts, d, run.rng, meta["init_inputs"], meta.get("overrides")):
                    fid = "C04-D7"
                if not fid and "C04-D4" in open_ids and R.classify_c04d4(m, api, opts, d, run.rng, meta["init_inputs"]):
                    fid = "C04-D4"
                if fid:
                    stats[f"known_{fid}_in_stream"] += 1
                    continue
                failures.append((m, meta, api, opts, d))

    # ---- rules introducing a new domain, matching only inside subgraphs / functions / main graph
    rule_failures = []
    for desc, d in R.custom_rule_stream(run, stats):
        # C04-D11 (aef7e04) and C04-D15 (f8abc79) are fixed: every failure of the user-rule stream is a violation; a rewrite that
        # does not return within the watchdog is a failure of the case
        rule_failures.append((desc, d))
    # ---- directed families of the round-3 findings (old opsets, If in function bodies, Identity onto declared inputs)
    rule_failures += R.round3_stream(run, stats, open_ids)
    # ---- round 5: interior names shared by sibling scopes, function outputs out of inlined branches (C04-D12, C04-D13),
    #      histories (second calls, re-used objects) and presentations (more / less optional information) of generated models
    rule_failures += C.directed_stream(run, stats, open_ids)
    rule_failures += C.boundary_stream(run, stats, open_ids)
    rule_failures += C.clip_chain_stream(run, stats, open_ids)
    tie_problems += C.function_tie_stream(drv, stats, hist)
    n_hist = run.size(210, 1400)
    rule_failures += C.second_call_stream(run, models, stats, n_hist, open_ids)
    rule_failures += C.presentation_stream(run, models[n_hist:], stats, run.size(150, 1000), open_ids)
    # ---- functions (checker/walker on bodies, `modified`), evaluator state across opsets, shape inference with overrides
    extra = (S.function_stream(run, drv, stats, hist, run.size(16, 64)) + S.opset_history_stream(run, stats)
             + S.shape_override_stream(run, stats, run.size(10, 40)))
    for kind, desc, detail in extra:
        if kind == "validity" or (kind == "semantic" and "override" in desc):
            rule_failures.append(({k: v for k, v in desc.items() if k != "meta"}, detail))
        elif kind == "tie":
            tie_problems.append(("tie", {"model_b64": desc["model_b64"], "in_limit": 8192, "out_limit": 262144, "should_fold": "N",
                                         "tags": [str(desc.get("meta"))]}, detail))

    for m, meta in models[:6]:
        run.sample({"tags": meta["tags"], "opset": meta["opset"], "nodes": len(m.graph.node), "init_inputs": meta["init_inputs"]})

    if rule_failures:
        desc, d = rule_failures[0]
        run.violation({**desc, "others": len(rule_failures) - 1}, d)
    elif failures:
        failures.sort(key=lambda t: len(t[0].graph.node))
        m, meta, api, opts, d = failures[0]
        run.violation({"model_b64": R.b64(m), "api": api, "opts": opts, "tags": meta["tags"], "others": len(failures) - 1}, d)
    elif tie_problems:
        found = None
        for _, desc, detail in tie_problems[:12]:
            m = R.unb64(desc["model_b64"])
            init_inputs = sorted({t.name for t in m.graph.initializer} & {i.name for i in m.graph.input})
            for api in ("fold_constants", "optimize"):
                for opts in [dict(input_size_limit=desc["in_limit"], output_size_limit=desc["out_limit"])] + R.OPTION_TUPLES:
                    d = R.judge_validity(m, api, opts, run.rng, init_inputs)
                    if d:
                        found = (desc, api, opts, d)
                        break
                if found:
                    break
            if found:
                break
        if found:
            desc, api, opts, d = found
            run.violation({"model_b64": desc["model_b64"], "api": api, "opts": opts, "tags": desc["tags"]}, d)
        else:
            _, desc, detail = tie_problems[0]
            run.violation({**desc, "broken": "correspondence OV.C03.foldGraph vs FoldConstantsPass", "detail": detail,
                           "others": len(tie_problems) - 1},
                          f"correspondence broken (foldGraph vs fold_constants): {detail[:300]}; no model found on which totality/validity/interface fails",
                          no_input=True)
    if not audit["ok"]:
        run.violation({"broken": "proof obligations of OV.Props.C04", "problems": audit["problems"], "log": audit["build_log"][-1500:]},
                      "Lean proof obligations for C04 do not check: " + "; ".join(audit["problems"][:3]), no_input=True)

    tagc = Counter(t for _, meta in models for t in meta["tags"])
    run.coverage.update(
        evaluations=stats["tie_cases"] + stats["validity_runs"],
        distinct_nontrivial=stats["tie_agree_modified"],
        rule="generated models on which fold_constants modified the graph and the Lean foldGraph produced the identical canonical structure; "
        "each of the first n models is additionally run through optimize/fold_constants/rewrite and judged by checker + walker + interface + override run",
        traces_validated_against_impl=stats["tie_agree"],
        distribution={"stats": dict(stats), "model_branches": dict(sorted(hist.items())), "generator_snippets": dict(sorted(tagc.items()))},
        exhaustive=False,
    )
    if stats["override_runs"] == 0:
        raise core.Infra("generator degenerated: no model with an overridable initializer-input")
    for b in ("gate:graphinput", "clear:initializer", "out:replaced", "if:then", "if:else", "fold:initializer", "out:alreadyoutput"):
        if hist[b] == 0:
            raise core.Infra(f"generator degenerated: model branch never reached: {b}")
    required = ([f"history_{k}" for k in C.HISTORIES] + [f"presentation_{k}" for k in C.PRESENTATIONS]
                + ["family_shared", "family_fout", "family_inits", "family_pass_shared", "family_pass_fout", "family_pass_inits",
                   "history_result_differs_from_input",
                   "boundary_alias", "boundary_sts", "boundary_pass_alias", "boundary_pass_sts", "c04_fn_tie_models",
                   "family_clipchain", "family_pass_clipchain"])
    for c in required:
        if stats[c] == 0:
            raise core.Infra(f"stream degenerated: required counter is 0: {c}")
    if stats["presentation_refused"] > 0.3 * sum(stats[f"presentation_{k}"] for k in C.PRESENTATIONS):
        raise core.Infra("presentation stream degenerated: >30% of the presentations are not valid models")
