"""C03 — the `dce` slot of optimize_ir: onnx_ir's RemoveUnusedNodesPass vs the Lean model `OV.C03.dcePass`
(lean/OV/Model/C03Dce.lean; theorem `OV.Props.C03.dce_refines`).

Stream: directed models (dead chains, dead If whose bodies read outer values — "ghost" uses —, dead nodes inside bodies,
trailing absent inputs, unused optional outputs at the top level and inside bodies, variadic outputs, BatchNormalization
with running outputs, unused initializers in every role) + the first models of the random-DAG stream.
(i) tie: real pass on ir.Model vs `drv_c03 dce` — canonical structure, which outputs were renamed to "", `modified`;
(ii) oracle: onnxruntime (fallback onnx.reference) original vs remove_unused_nodes / optimize;
(iii) history: the pass applied twice (second result must equal the model's second result as well).
Schema facts (formal output options) are read from onnx.defs here, independently of onnx_ir.
"""
from __future__ import annotations

from collections import Counter

import numpy as np
import onnx
import onnx_ir as ir
from onnx import TensorProto as T
from onnx import helper as h
from onnx import numpy_helper as nh

from harness import c03_lib as L
from harness import core

F = T.FLOAT


def vi(n, t, s):
    return h.make_tensor_value_info(n, t, s)


def _mk(nodes, ins, outs, inits=(), opset=18):
    g = h.make_graph(nodes, "g", ins, outs, initializer=list(inits))
    m = h.make_model(g, opset_imports=[h.make_opsetid("", opset)])
    m.ir_version = 8
    return m


def _f(name, vals):
    return nh.from_array(np.array(vals, dtype=np.float32), name)


# ----------------------------------------------------------------------------- directed families


def fam_dead_chain(rng, v):
    """a dead chain of length v%3+1 next to a live path; the chain's last node reads an initializer nobody else reads"""
    k = v % 3 + 1
    nodes = [h.make_node("Neg", ["X"], ["a"])]
    prev = "X"
    for i in range(k):
        nodes.append(h.make_node(rng.choice(["Abs", "Exp", "Relu"]), [prev], [f"d{i}"]))
        prev = f"d{i}"
    nodes.append(h.make_node("Add", [prev, "w"], ["dead"]))
    nodes.append(h.make_node("Mul", ["a", "X"], ["Y"]))
    inits = [_f("w", [1.0, 2.0]), _f("unused", [3.0])]
    ins = [vi("X", F, [2])]
    if v % 2:
        ins.append(vi("unused", F, [1]))  # an unused initializer that is also a graph input stays
    return _mk(nodes, ins, [vi("Y", F, [2])], inits), ["dce_dead_chain"]


def _branch(name, nodes, out):
    return h.make_graph(nodes, name, [], [vi(out, F, [2])])


def fam_ghost(rng, v):
    """a dead If whose bodies read `a` (and the initializer `w`): the removed node's bodies keep those uses registered"""
    tb = _branch("tb", [h.make_node("Abs", ["a"], ["t"])], "t")
    eb = _branch("eb", [h.make_node("Add", ["a", "w"], ["e"])], "e")
    nodes = [h.make_node("Neg", ["X"], ["a"]), h.make_node("If", ["c"], ["dead"], then_branch=tb, else_branch=eb),
             h.make_node("Exp", ["X"], ["Y"])]
    if v % 2:
        nodes.insert(2, h.make_node("Relu", ["dead"], ["dead2"]))
    return _mk(nodes, [vi("X", F, [2]), vi("c", T.BOOL, [])], [vi("Y", F, [2])], [_f("w", [1.0, 2.0])]), ["dce_ghost"]


def fam_inner(rng, v):
    """a live If: dead nodes inside the bodies (one reads an outer value whose producer then dies), an unused optional
    output inside a body (nested graphs have no opset import: it stays), an inner dead If (inner ghost)"""
    inner_t = _branch("it", [h.make_node("Abs", ["b"], ["q"])], "q")
    inner_e = _branch("ie", [h.make_node("Neg", ["b"], ["r"])], "r")
    tb_nodes = [h.make_node("Abs", ["a"], ["t0"]), h.make_node("Exp", ["X"], ["t"]),
                h.make_node("LayerNormalization", ["X", "X", ""], ["ln", "mean", "isd"]),
                h.make_node("Add", ["t", "ln"], ["t2"])]
    if v % 2:
        tb_nodes.insert(1, h.make_node("If", ["c"], ["deadif"], then_branch=inner_t, else_branch=inner_e))
    tb = _branch("tb", tb_nodes, "t2")
    eb = _branch("eb", [h.make_node("Relu", ["X"], ["e"]), h.make_node("Sqrt", ["e"], ["e_dead"])], "e")
    nodes = [h.make_node("Neg", ["X"], ["a"]), h.make_node("Abs", ["X"], ["b"]),
             h.make_node("If", ["c"], ["Y"], then_branch=tb, else_branch=eb)]
    return _mk(nodes, [vi("X", F, [2]), vi("c", T.BOOL, [])], [vi("Y", F, [2])]), ["dce_inner"]


def fam_trailing(rng, v):
    """trailing absent inputs (Clip x,"",""; Clip x,"",hi keeps the gap), unused optional outputs (Dropout mask,
    LayerNormalization mean/inv_std, MaxPool indices), a used optional output, variadic Split, zero-output-used middle"""
    nodes = [h.make_node("Clip", ["X", "", ""], ["a"]), h.make_node("Clip", ["a", "", "hi"], ["a2"]),
             h.make_node("Dropout", ["a2", "", ""], ["d", "mask"]),
             h.make_node("LayerNormalization", ["d", "X", ""], ["l", "mean", "isd"]),
             h.make_node("Split", ["l"], ["s1", "s2"], num_outputs=2),
             h.make_node("Add", ["s1", "s1"], ["Z"])]
    outs = [vi("Z", F, [1])]
    if v % 3 == 1:  # the middle optional output is used, the last is not: only the last goes
        nodes.append(h.make_node("Identity", ["mean"], ["M"]))
        outs.append(vi("M", F, [1]))
    if v % 3 == 2:  # the last optional output is used: the middle one is renamed to "" but stays
        nodes.append(h.make_node("Identity", ["isd"], ["M"]))
        outs.append(vi("M", F, [1]))
    if v % 2:
        nodes.append(h.make_node("Unsqueeze", ["X", "ax"], ["u4"]))
        nodes.append(h.make_node("MaxPool", ["u4r"], ["mp", "idx"], kernel_shape=[1, 1]))
        nodes.insert(-1, h.make_node("Reshape", ["X", "shp"], ["u4r"]))
        nodes.append(h.make_node("Reshape", ["mp", "shp2"], ["P"]))
        outs.append(vi("P", F, [2]))
    inits = [_f("hi", 5.0), nh.from_array(np.array([0], np.int64), "ax"), nh.from_array(np.array([1, 1, 1, 2], np.int64), "shp"),
             nh.from_array(np.array([2], np.int64), "shp2")]
    return _mk(nodes, [vi("X", F, [2])], outs, inits), ["dce_trailing"]


def fam_batchnorm(rng, v):
    """BatchNormalization with its running outputs declared: unused → renamed, `training_mode` popped (finding C03-D4 when
    training_mode=1); used → untouched; inference form with one output"""
    inits = [_f("s", [1, 1]), _f("b", [0, 0]), _f("m", [5, 5]), _f("var", [2, 2])]
    outs = [vi("Y", F, [4, 2])]
    tm = [1, 1, 0, None][v % 4]
    kw = {} if tm is None else {"training_mode": tm}
    nouts = ["Y"] if (tm in (0, None)) else ["Y", "rm", "rv"]
    nodes = [h.make_node("BatchNormalization", ["X", "s", "b", "m", "var"], nouts, **kw)]
    tags = ["dce_bn"]
    if tm == 1 and v % 8 >= 4:
        nodes.append(h.make_node("Identity", ["rm"], ["RM"]))
        outs.append(vi("RM", F, [2]))
        tags.append("dce_bn_used")
    elif tm == 1:
        tags.append("dce_bn_training_unused")
    return _mk(nodes, [vi("X", F, [4, 2])], outs, inits, opset=17), tags


def fam_inits(rng, v):
    """initializers in every role: unused, unused+graph input, unused+graph output, read only inside a live body,
    read only by a dead node, read only inside a ghost body"""
    tb = _branch("tb", [h.make_node("Add", ["X", "in_body"], ["t"])], "t")
    eb = _branch("eb", [h.make_node("Relu", ["X"], ["e"])], "e")
    gt = _branch("gt", [h.make_node("Add", ["X", "in_ghost"], ["gt_o"])], "gt_o")
    ge = _branch("ge", [h.make_node("Neg", ["X"], ["ge_o"])], "ge_o")
    nodes = [h.make_node("If", ["c"], ["y0"], then_branch=tb, else_branch=eb),
             h.make_node("Add", ["X", "by_dead"], ["dead"]),
             h.make_node("If", ["c"], ["dead_if"], then_branch=gt, else_branch=ge),
             h.make_node("Identity", ["y0"], ["Y"])]
    inits = [_f(n, [1.0, 2.0]) for n in ("unused", "unused_in", "as_out", "in_body", "by_dead", "in_ghost")]
    ins = [vi("X", F, [2]), vi("c", T.BOOL, [])] + ([vi("unused_in", F, [2])] if v % 2 else [])
    outs = [vi("Y", F, [2])] + ([vi("as_out", F, [2])] if v % 4 >= 2 else [])
    return _mk(nodes, ins, outs, inits), ["dce_inits"]


FAMILIES = [fam_dead_chain, fam_ghost, fam_inner, fam_trailing, fam_batchnorm, fam_inits]
REQUIRED_BRANCHES = ["dce:removed", "dce:removed-ghost", "dce:trim-inputs", "dce:trim-outputs", "dce:bn-training-mode-popped",
                     "dce:bodies", "dce:init-removed", "thm:dce"]


def dce_models(rng, n):
    out = []
    for k in range(n):
        fam = FAMILIES[k % len(FAMILIES)]
        m, tags = fam(rng, k // len(FAMILIES) + rng.randrange(0, 2) * 0)
        out.append((m, {"tags": tags, "opset": m.opset_import[0].version}))
    return out


# ----------------------------------------------------------------------------- tie


def schema_flags(m: onnx.ModelProto) -> list[str]:
    ops = set()

    def walk(g):
        for n in g.node:
            if n.domain in ("", "ai.onnx"):
                ops.add(n.op_type)
            for a in n.attribute:
                if a.type == onnx.AttributeProto.GRAPH:
                    walk(a.g)

    walk(m.graph)
    ver = next((o.version for o in m.opset_import if o.domain in ("", "ai.onnx")), None)
    toks = []
    for op in sorted(ops):
        try:
            sch = onnx.defs.get_schema(op, ver, domain="")
            code = {onnx.defs.OpSchema.FormalParameterOption.Single: "0", onnx.defs.OpSchema.FormalParameterOption.Optional: "1",
                    onnx.defs.OpSchema.FormalParameterOption.Variadic: "2"}
            fl = ",".join(code[o.option] for o in sch.outputs) or "-"
        except Exception:
            fl = "?"
        toks += [op, fl]
    return [str(len(toks) // 2)] + toks


def empties_real(g: ir.Graph):
    return tuple((tuple(o.name == "" or o.name is None for o in n.outputs),
                  tuple(sorted((k, empties_real(a.as_graph())) for k, a in n.attributes.items() if a.type == ir.AttributeType.GRAPH)))
                 for n in g)


def empties_model(g: dict):
    return tuple((tuple(o == "" for o in n["outputs"]), tuple(sorted((k, empties_model(sg)) for k, sg in n["subs"])))
                 for n in g["nodes"])


def parse_dce_answer(line: str):
    ts = line.split(" ")
    if ts[0] != "OK":
        raise core.Infra(f"dce driver answer: {line[:200]}")
    mod = ts[1] == "mod=1"
    cnt = int(ts[2][4:])
    assert ts[3] == "HIST"
    k = int(ts[4])
    return mod, cnt, ts[5 : 5 + k], ts[5 + k :]


def _line(case: L.Case, mi: ir.Model, m: onnx.ModelProto) -> str:
    for key in ("_enc_names", "_enc_used", "_enc_keep"):
        case.__dict__.pop(key, None)
    vis: dict = {}
    gt = L.enc_graph(mi.graph, case, vis)
    ops = "1" if "" in mi.graph.opset_imports else "0"
    return " ".join([f"dce OPS={ops} SCH", *schema_flags(m), *gt])


def dce_tie(drv: core.Driver, models, stats: Counter, hist: Counter):
    """Returns a list of ("tie", desc, detail)."""
    from onnx_ir.passes.common import RemoveUnusedNodesPass
    from harness import c03_run as R

    problems = []
    for rounds in (1, 2):
        cases, lines, irs = [], [], []
        for m, meta in models:
            mi = ir.serde.deserialize_model(m)
            if rounds == 2:  # history: the pass on its own result
                RemoveUnusedNodesPass()(mi)
                m = ir.serde.serialize_model(mi)
                mi = ir.serde.deserialize_model(m)
            c = L.Case(m, 0, 0)
            c.meta = meta
            try:
                lines.append(_line(c, mi, m))
            except core.Infra:
                stats["dce_unencodable"] += 1
                continue
            cases.append(c)
            irs.append(mi)
        answers = []
        for k in range(0, len(lines), 200):
            answers += drv.ask(lines[k : k + 200])
        for c, mi, a in zip(cases, irs, answers):
            mod, cnt, hh, gt = parse_dce_answer(a)
            stats["dce_tie_cases"] += 1
            for x in hh:
                hist[x] += 1
            desc = {"model_b64": R.b64(c.proto), "in_limit": 8192, "out_limit": 262144, "should_fold": "N",
                    "tags": list(c.meta.get("tags", [])) + [f"dce_round{rounds}"]}
            try:
                res = RemoveUnusedNodesPass()(mi)
            except Exception as e:
                problems.append(("tie", desc, f"RemoveUnusedNodesPass raised {type(e).__name__}: {str(e)[:120]}"))
                continue
            gm, _ = L.parse_graph_tokens(gt)
            d = L.first_diff(L.canon_real_side(c, mi.graph), L.canon_model_side(c, gm))
            if d is None:
                d = L.first_diff(empties_real(mi.graph), empties_model(gm), "renamed-outputs")
            if d is None and mod != bool(res.modified):
                d = f"modified flag: model={mod} (count {cnt}) real={res.modified}"
            if d:
                problems.append(("tie", desc, "dcePass vs RemoveUnusedNodesPass: " + d))
            else:
                stats["dce_tie_agree"] += 1
                if mod:
                    stats["dce_tie_agree_modified"] += 1
    return problems


# ----------------------------------------------------------------------------- oracle


def reference_diff(m0: onnx.ModelProto, m1: onnx.ModelProto, feeds_list) -> str | None:
    """onnx.reference before/after (used where onnxruntime cannot execute the original)."""
    import warnings

    import onnx.reference as oref

    warnings.filterwarnings("ignore", category=RuntimeWarning, module=r"onnx\.reference.*")
    try:
        s0 = oref.ReferenceEvaluator(m0)
    except Exception:
        return None
    try:
        s1 = oref.ReferenceEvaluator(m1)
    except Exception as e:
        return f"optimized model is rejected by onnx.reference: {str(e)[:160]}"
    for feeds in feeds_list:
        try:
            r0 = s0.run(None, feeds)
        except Exception:
            continue
        try:
            r1 = s1.run(None, feeds)
        except Exception as e:
            return f"optimized model fails under onnx.reference where the original runs: {str(e)[:160]}"
        for a, b in zip(r0, r1):
            d = L.outputs_equal(a, b)
            if d:
                return f"(onnx.reference) {d}"
    return None


def pred_c03d4(m: onnx.ModelProto) -> bool:
    """C03-D4: a default-domain BatchNormalization with training_mode != 0 whose outputs 1 and 2 are unused"""
    def walk(g, outer_used):
        used = set(outer_used) | {o.name for o in g.output}
        for n in g.node:
            used.update(n.input)
            for a in n.attribute:
                if a.type == onnx.AttributeProto.GRAPH:
                    for nn in a.g.node:
                        used.update(nn.input)
        for n in g.node:
            if n.op_type == "BatchNormalization" and n.domain in ("", "ai.onnx"):
                tm = next((a.i for a in n.attribute if a.name == "training_mode"), 0)
                if tm != 0 and not any(o in used for o in list(n.output)[1:3]):
                    return True
            for a in n.attribute:
                if a.type == onnx.AttributeProto.GRAPH and walk(a.g, used):
                    return True
        return False

    return walk(m.graph, set())


def dce_stream(run: core.Run, drv: core.Driver, random_models, stats: Counter, hist: Counter, n: int):
    """Returns (results, known) — results like the other streams: ("tie"|"semantic", desc, detail)."""
    from harness import c03_run as R

    directed = dce_models(run.rng, n)
    results = dce_tie(drv, directed + list(random_models), stats, hist)
    known = []
    for m, meta in directed:
        feeds = R.three_feeds(m, run.rng)
        for api, opts in (("remove_unused_nodes", {}), ("optimize", {}), ("optimize", {"num_iterations": 1, "onnx_shape_inference": False})):
            stats["dce_semantic_runs"] += 1
            try:
                m2 = R.apply_api(api, m, opts)
            except Exception:
                continue
            if "dce_bn" in meta["tags"] and any(a.name == "training_mode" and a.i for n in m.graph.node for a in n.attribute):
                # onnxruntime's training-mode BatchNormalization updates the running statistics in place: a session is not
                # a function of its feeds (the second run differs from the first), so it cannot serve as the oracle here;
                # onnx.reference is stateless.  onnxruntime is still asked whether the result loads.
                d = reference_diff(m, m2, feeds) or L.semantic_diff(m, m2, [])
            else:
                d = L.semantic_diff(m, m2, feeds) or reference_diff(m, m2, feeds)
            if d:
                desc = {"model_b64": R.b64(m), "api": api, "opts": opts, "meta": meta["tags"]}
                if pred_c03d4(m):
                    known.append((desc, d))
                else:
                    results.append(("semantic", desc, f"{api}({opts}) changes what the model computes: {d}"))
    for t in meta_tags(directed):
        stats[f"dce_family_{t}"] += 1
    return results, known


def meta_tags(models):
    return [t for _, meta in models for t in meta["tags"]]
