"""C10 — case encoding, construction of the real model, canonical observation.

case = {"entry": "ir"|"proto"|"native", "fb": "none"|"yes"|"no", "target": int,
        "decl": int|None, "ai": int|None, "nodes": [NODE], "funcs": [{"decl","ai","nodes":[NODE]}],
        "extra_inits": int}
NODE = {"d": 0|1, "v": int|None, "ref": 0|1, "op": OP, "bodies": [[LEAF]]}     LEAF = NODE without bodies
OP   = {"k":"P","name":str} | {"k":"GS","mode","align","pad"} |
       {"k":"DFT","axis","inv","one","len":0|1,"axisIn","rank":3|4} |
       {"k":"GN","hasS":0|1,"hasB":0|1,"g":int|None,"eps":str|None,"c","sLen","bLen","xVis","sVis","bVis"} |
       {"k":"CALL","f":int}

Every node is its own strand (own graph inputs, own graph output), so no node is dead and the
clean-up passes remove nothing.
"""
from __future__ import annotations

import numpy as np
import onnx
from onnx import TensorProto as TP
from onnx import helper as h
from onnx import numpy_helper as nh

# --------------------------------------------------------------------------- encoding for the Lean driver


def _o(x):
    return "_" if x is None else str(x)


def op_token(op: dict) -> str:
    k = op["k"]
    if k == "P":
        return f"P:{op['name']}"
    if k == "GS":
        return f"GS:{_o(op['mode'])}:{_o(op['align'])}:{_o(op['pad'])}"
    if k == "DFT":
        return f"DFT:{_o(op['axis'])}:{_o(op['inv'])}:{_o(op['one'])}:{op['len']}:{_o(op['axisIn'])}:{op['rank']}"
    if k == "GN":
        sv = op["sVis"] if op["hasS"] else "m"  # an absent input shows no shape
        bv = op["bVis"] if op["hasB"] else "m"
        return (
            f"GN:1{op['hasS']}{op['hasB']}:{_o(op['g'])}:{_o(op['eps'])}:{op['c']}:{op['sLen']}:{op['bLen']}:"
            f"{op['xVis']}{sv}{bv}"
        )
    if k == "CALL":
        return f"CALL:{op['f']}"
    raise ValueError(k)


def node_items(n: dict) -> list[str]:
    out = ["N", str(n["d"]), _o(n["v"]), str(n["ref"]), op_token(n["op"])]
    for b in n.get("bodies", []):
        out.append("{")
        for l in b:
            out += node_items(l)
        out.append("}")
    return out


def iter_nodes(nodes):
    """Every node of a node list, subgraphs of any depth included, in visiting order."""
    for n in nodes:
        yield n
        for b in n.get("bodies", []):
            yield from iter_nodes(b)


def case_line(case: dict, capi_ok: bool, inputs: list[str], inits: list[str]) -> str:
    toks = [
        "conv", case["entry"], case["fb"], str(case["target"]), "ok" if capi_ok else "fail",
        f"decl={_o(case['decl'])}", f"ai={_o(case['ai'])}",
        "in=" + (",".join(inputs) or "-"), "init=" + (",".join(inits) or "-"),
    ]
    for n in case["nodes"]:
        toks += node_items(n)
    for f in case["funcs"]:
        toks += ["F", _o(f["decl"]), _o(f["ai"])]
        for n in f["nodes"]:
            toks += node_items(n)
    return " ".join(toks)


# --------------------------------------------------------------------------- building the real model


BODY_OWNERS = ("If", "Loop", "Scan", "SequenceMap", "MultiBody")


def vi(name, shape, t=TP.FLOAT):
    return h.make_tensor_value_info(name, t, shape)


class _B:
    """Collects graph inputs / initializers / outputs while strands are emitted."""

    def __init__(self):
        self.inputs, self.inits, self.outputs = [], [], []
        self.n = 0
        self.custom_domain = "cust"   # functions use a private domain the main graph does not import
        self.valnames = False         # exporter-style `val_<n>` names for the outputs of subgraph bodies
        self.valctr = 0

    def fresh(self):
        self.n += 1
        return f"s{self.n}"


def _strand(b: _B, node: dict, out_sink: list, subgraph_of=None):
    """Emit the NodeProto for one case node; register its inputs in `b`, its output in `out_sink`."""
    op, p = node["op"], b.fresh()
    k = op["k"]
    dom = "" if node["d"] else b.custom_domain
    extra_attrs = []
    if node["ref"]:
        a = onnx.AttributeProto()
        a.name, a.ref_attr_name, a.type = "verif_ref", "verif_a", onnx.AttributeProto.INT
        extra_attrs.append(a)
    if k == "P":
        b.inputs.append(vi(f"{p}_x", [2, 3]))
        n = h.make_node(op["name"], [f"{p}_x"], [f"{p}_y"], domain=dom)
        out_sink.append(vi(f"{p}_y", [2, 3]))
    elif k == "GS":
        b.inputs += [vi(f"{p}_x", [1, 1, 4, 4]), vi(f"{p}_g", [1, 3, 3, 2])]
        kw = {}
        if op["mode"] is not None:
            kw["mode"] = op["mode"]
        if op["align"] is not None:
            kw["align_corners"] = op["align"]
        if op["pad"] is not None:
            kw["padding_mode"] = op["pad"]
        n = h.make_node("GridSample", [f"{p}_x", f"{p}_g"], [f"{p}_y"], domain=dom, **kw)
        out_sink.append(vi(f"{p}_y", [1, 1, 3, 3]))
    elif k == "DFT":
        shape = [2, 4, 1] if op["rank"] == 3 else [2, 3, 4, 1]
        b.inputs.append(vi(f"{p}_x", shape))
        ins = [f"{p}_x"]
        ax = op["axis"] if op["axis"] is not None else (op["axisIn"] if op["axisIn"] is not None else 1)
        if op["len"]:
            b.inits.append(nh.from_array(np.array(shape[ax], dtype=np.int64), f"{p}_n"))
            ins.append(f"{p}_n")
        if op["axisIn"] is not None:
            if not op["len"]:
                ins.append("")
            b.inits.append(nh.from_array(np.array(op["axisIn"], dtype=np.int64), f"{p}_a"))
            ins.append(f"{p}_a")
        kw = {}
        for nm, key in (("axis", "axis"), ("inverse", "inv"), ("onesided", "one")):
            if op[key] is not None:
                kw[nm] = op[key]
        n = h.make_node("DFT", ins, [f"{p}_y"], domain=dom, **kw)
        out_sink.append(vi(f"{p}_y", [None] * len(shape)))
    elif k == "GN":
        xs = {"k": [2, op["c"], 3], "s": [2, "C", 3], "m": None}[op["xVis"]]
        b.inputs.append(vi(f"{p}_x", xs))
        ins = [f"{p}_x"]
        rs = np.random.RandomState(op["c"] * 31 + op["sLen"])
        for tag, has, ln, vis in (("s", op["hasS"], op["sLen"], op["sVis"]), ("b", op["hasB"], op["bLen"], op["bVis"])):
            if not has:
                continue
            nm = f"{p}_{tag}"
            if vis == "k":
                b.inits.append(nh.from_array((rs.rand(ln) + 0.5).astype(np.float32), nm))
            else:
                b.inputs.append(vi(nm, ["S"] if vis == "s" else None))
            ins.append(nm)
        if op["hasB"] and not op["hasS"]:
            ins.insert(1, "")
        kw = {}
        if op["g"] is not None:
            kw["num_groups"] = op["g"]
        if op["eps"] is not None:
            kw["epsilon"] = float(op["eps"])
        n = h.make_node("GroupNormalization", ins, [f"{p}_y"], domain=dom, **kw)
        out_sink.append(vi(f"{p}_y", [None, None, None]))
    else:
        raise ValueError(k)
    n.attribute.extend(extra_attrs)
    return n


def _emit_nodes(b: _B, nodes: list, out_sink: list, funcs_sig=None):
    protos = []
    for node in nodes:
        op = node["op"]
        if op["k"] == "CALL":
            fi, fo, finits = funcs_sig[op["f"]]
            p = b.fresh()
            ren_in = []
            for v in fi:
                if v.name in finits:
                    t = onnx.TensorProto()
                    t.CopyFrom(finits[v.name])
                    t.name = f"{p}_{v.name}"
                    b.inits.append(t)
                    ren_in.append(t.name)
                    continue
                nv = onnx.ValueInfoProto()
                nv.CopyFrom(v)
                nv.name = f"{p}_{v.name}"
                b.inputs.append(nv)
                ren_in.append(nv.name)
            outs = []
            for v in fo:
                nv = onnx.ValueInfoProto()
                nv.CopyFrom(v)
                nv.name = f"{p}_{v.name}"
                out_sink.append(nv)
                outs.append(nv.name)
            protos.append(h.make_node(f"F{op['f']}", ren_in, outs, domain="fn"))
        elif node.get("bodies"):
            p = b.fresh()
            b.inputs.append(vi(f"{p}_c", [], TP.BOOL))
            graphs, outs_per = [], []
            for bi, body in enumerate(node["bodies"]):
                bouts: list = []
                bnodes = _emit_nodes(b, body, bouts)
                if b.valnames:
                    # the body's outputs are produced directly by a node and consumed by no node
                    for vo in bouts:
                        new = f"val_{b.valctr}"
                        b.valctr += 1
                        for bn in bnodes:
                            for oi, on in enumerate(bn.output):
                                if on == vo.name:
                                    bn.output[oi] = new
                        vo.name = new
                graphs.append(h.make_graph(bnodes, f"{p}_b{bi}", [], bouts))
                outs_per.append(bouts)
            nout = max(len(o) for o in outs_per) if outs_per else 0
            onames = [f"{p}_y{j}" for j in range(nout)]
            # the owner of the subgraphs: `If` (then/else), or any other operator with graph-valued attributes
            # (Loop / Scan / SequenceMap: `body`), or one GRAPHS-typed attribute holding all bodies (`MultiBody`)
            owner = op["name"] if op["k"] == "P" and op.get("name") in BODY_OWNERS else "If"
            n = h.make_node(owner, [f"{p}_c"], onames, domain="" if node["d"] else b.custom_domain)
            if owner == "MultiBody":
                n.attribute.append(h.make_attribute("branches", graphs))
            else:
                first = ["then_branch", "else_branch"] if owner == "If" else ["body"]
                names = first + [f"extra_branch{j}" for j in range(len(graphs))]
                for nm, g in zip(names, graphs):
                    n.attribute.append(h.make_attribute(nm, g))
            if node["ref"]:
                a = onnx.AttributeProto()
                a.name, a.ref_attr_name, a.type = "verif_ref", "verif_a", onnx.AttributeProto.INT
                n.attribute.append(a)
            longest = max(outs_per, key=len) if outs_per else []
            for j, nm in enumerate(onames):
                out_sink.append(vi(nm, [None] * len(longest[j].type.tensor_type.shape.dim)))
            protos.append(n)
        else:
            protos.append(_strand(b, node, out_sink))
    return protos


def build_proto(case: dict) -> onnx.ModelProto:
    funcs, sig = [], []
    for i, f in enumerate(case["funcs"]):
        fb = _B()
        fb.custom_domain = "priv"
        fb.valnames = bool(case.get("valnames"))
        fouts: list = []
        fnodes = _emit_nodes(fb, f["nodes"], fouts)
        # function inputs: value inputs and (as plain inputs) what would be initializers
        fin = list(fb.inputs) + [vi(t.name, list(t.dims), t.data_type) for t in fb.inits]
        imports = []
        if f["decl"] is not None:
            imports.append(h.make_opsetid("", f["decl"]))
        if f["ai"] is not None:
            imports.append(h.make_opsetid("ai.onnx", f["ai"]))
        imports += [h.make_opsetid("cust", 1), h.make_opsetid("priv", 1)]
        fp = h.make_function("fn", f"F{i}", [v.name for v in fin], [v.name for v in fouts], fnodes, opset_imports=imports)
        if any(n["ref"] for n in iter_nodes(f["nodes"])):
            fp.attribute.append("verif_a")
        funcs.append(fp)
        sig.append((fin, fouts, {t.name: t for t in fb.inits}))
    b = _B()
    b.n = 100
    b.valnames = bool(case.get("valnames"))
    outs: list = []
    nodes = _emit_nodes(b, case["nodes"], outs, sig)
    for j in range(case.get("extra_inits", 0)):
        # an initializer that is also consumed: Add(x, w) strand; the 2nd one is larger than the C-API size limit
        # w0 small; w1 big (> the 1000-element limit of call_onnx_api: stripped for the C API);
        # w2 big AND a graph input (overridable default); w3 small and a graph input
        size = 4 if j in (0, 3) else 1200
        nm = f"w{j}"
        b.inits.append(nh.from_array(np.ones(size, dtype=np.float32), nm))
        if j >= 2:
            b.inputs.append(vi(nm, [size]))  # an initializer that is also a graph input
        b.inputs.append(vi(f"wx{j}", [size]))
        nodes.append(h.make_node("Add", [f"wx{j}", nm], [f"wy{j}"]))
        outs.append(vi(f"wy{j}", [size]))
    g = h.make_graph(nodes, "g", b.inputs, outs, initializer=b.inits)
    imports = []
    if case["decl"] is not None:
        imports.append(h.make_opsetid("", case["decl"]))
    if case["ai"] is not None:
        imports.append(h.make_opsetid("ai.onnx", case["ai"]))
    imports += [h.make_opsetid("cust", 1), h.make_opsetid("fn", 1)]
    _decorate(g)
    return h.make_model(g, opset_imports=imports, functions=funcs, ir_version=10)


def _decorate(g) -> None:
    """Metadata for the `_restore_metadata` stream: node names (every 5th repeats its predecessor's, every 7th has
    none), node / graph / input metadata_props and doc strings.  Nothing else in the checks looks at them."""
    g.doc_string = "gdoc"
    g.metadata_props.add(key="gk", value="gv")
    for j, i in enumerate(g.input):
        if j % 2 == 0:
            i.doc_string = f"d{j}"
        i.metadata_props.add(key="ik", value=f"iv{j}")
    ctr = [0]
    last = [""]

    def rec(nodes):
        for n in nodes:
            k = ctr[0]
            ctr[0] += 1
            if k % 7 == 6:
                n.name = ""
            elif k % 5 == 4 and last[0]:
                n.name = last[0]
            else:
                n.name = f"n{k}"
                last[0] = n.name
            if k % 2 == 0:
                n.doc_string = f"nd{k}"
            n.metadata_props.add(key="mk", value=f"v{k}")
            if k % 3 == 0:
                n.metadata_props.add(key="m2", value=f"w{k}")
            for a in n.attribute:
                if a.type == 5:
                    rec(a.g.node)
                elif a.type == 10:
                    for sg in a.graphs:
                        rec(sg.node)

    rec(g.node)


def apply_versions(model, case: dict) -> None:
    """Set `node.version` on the IR model (a NodeProto cannot carry it)."""

    def set_nodes(ir_nodes, case_nodes):
        ir_nodes = list(ir_nodes)
        assert len(ir_nodes) >= len(case_nodes)
        for irn, cn in zip(ir_nodes, case_nodes):
            irn.version = cn["v"]
            if cn.get("bodies"):
                graphs = []
                for a in irn.attributes.values():
                    if a.is_ref():
                        continue
                    if a.type.name == "GRAPH":
                        graphs.append(a.as_graph())
                    elif a.type.name == "GRAPHS":
                        graphs.extend(a.as_graphs())
                for gr, body in zip(graphs, cn["bodies"]):
                    set_nodes(gr, body)

    set_nodes(model.graph, case["nodes"])
    for f, cf in zip(model.functions.values(), case["funcs"]):
        set_nodes(f, cf["nodes"])


# --------------------------------------------------------------------------- observing the real model


def _const_of(value):
    """Constant scalar/vector behind a value (Constant node or initializer), else None."""
    if value is None:
        return None
    if value.const_value is not None:
        try:
            return np.asarray(value.const_value.numpy())
        except Exception:
            return None
    prod = value.producer()
    if prod is not None and prod.op_type == "Constant" and prod.domain == "":
        for nm in ("value_int", "value_ints", "value"):
            if nm in prod.attributes:
                a = prod.attributes[nm].value
                if nm == "value":
                    return np.asarray(a.numpy())
                return np.asarray(a)
    return None


def _vis(value, idx):
    if value.shape is None:
        return "m", "?"
    try:
        d = value.shape[idx]
    except IndexError:
        return "s", "?"
    return ("k", str(d)) if isinstance(d, int) else ("s", "?")


def obs_op(n) -> str:
    if n.domain == "fn":
        return f"CALL:{n.op_type[1:]}"
    t = n.op_type

    def attr(name):
        a = n.attributes.get(name)
        if a is None or a.is_ref():
            return None
        return a.value

    if t == "Constant" and n.domain == "":
        if "value_int" in n.attributes:
            return f"K:s:{attr('value_int')}"
        if "value_ints" in n.attributes:
            return "K:v:" + "~".join(str(int(x)) for x in attr("value_ints"))
        return "P:Constant"
    if t == "GridSample":
        return f"GS:{_o(attr('mode'))}:{_o(attr('align_corners'))}:{_o(attr('padding_mode'))}"
    if t == "DFT":
        ins = list(n.inputs)
        has_len = len(ins) > 1 and ins[1] is not None
        ax_in = None
        if len(ins) > 2 and ins[2] is not None:
            c = _const_of(ins[2])
            ax_in = "?" if c is None else int(c)
        return f"DFT:{_o(attr('axis'))}:{_o(attr('inverse'))}:{_o(attr('onesided'))}:{int(has_len)}:{_o(ax_in)}"
    if t == "GroupNormalization":
        ins = list(n.inputs)
        has = [int(i < len(ins) and ins[i] is not None) for i in range(3)]
        xv = _vis(ins[0], 1) if has[0] else ("m", "?")
        sv = _vis(ins[1], 0) if has[1] else ("m", "?")
        bv = _vis(ins[2], 0) if has[2] else ("m", "?")
        eps = attr("epsilon")
        eps = None if eps is None else repr(round(float(eps), 6))
        return (
            f"GN:{has[0]}{has[1]}{has[2]}:{_o(attr('num_groups'))}:{_o(eps)}:{xv[0]}{sv[0]}{bv[0]}:"
            f"{xv[1]}:{sv[1]}:{bv[1]}"
        )
    return f"P:{t}"


def obs_leaf(n) -> str:
    ref = int(any(a.is_ref() for a in n.attributes.values()))
    return f"{int(n.domain == '')}{ref}@{_o(n.version)}/{obs_op(n)}"


def obs_node(n) -> str:
    s = obs_leaf(n)
    for a in n.attributes.values():
        if a.is_ref():
            continue
        if a.type.name == "GRAPH":
            s += "{" + ",".join(obs_node(l) for l in a.as_graph()) + "}"
        elif a.type.name == "GRAPHS":
            for g in a.as_graphs():
                s += "{" + ",".join(obs_node(l) for l in g) + "}"
    return s


def obs_model(model, err: str) -> str:
    oi = model.opset_imports
    funcs = "|".join(
        f"{_o(f.opset_imports.get(''))}/{_o(f.opset_imports.get('ai.onnx'))}/" + ";".join(obs_node(n) for n in f)
        for f in model.functions.values()
    )
    return (
        f"err={err} decl={_o(oi.get(''))} ai={_o(oi.get('ai.onnx'))} "
        f"in={','.join(v.name for v in model.graph.inputs) or '-'} "
        f"init={','.join(model.graph.initializers.keys()) or '-'} "
        f"nodes={';'.join(obs_node(n) for n in model.graph)} funcs={funcs}"
    )


def eps_token(e):
    return None if e is None else repr(round(float(e), 6))
