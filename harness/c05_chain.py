"""C05 — the rule-set driver on one host (`OV/Model/C05Chain.lean`).

Hosts are chains of 2–6 unary order operators `Relu | Clip(lo?, hi?) | Min(·, c) | Max(·, c)`; the *whole* rule set is applied
(never a single rule) and applied **twice with the same `RewriteRuleSet` object**:

  set = order    the eight rules of `_min_max_to_clip.rules` + `_fuse_relus_clips.rules` in `_DEFAULT_REWRITE_RULES` order
        shuf     the same eight in a permutation drawn with the case (the model applies the same permutation)
        default  `RewriteRuleSet(_DEFAULT_REWRITE_RULES)` — every default rule is consulted at every node
        entry    `onnxscript.rewriter.rewrite(model)` — the public entry point with its clean-up passes (count = removed nodes)

Observation: (count of the first call, count of the second call, the final chain with constants and shared markers); compared
with `Chain.count` / `Chain.sweep` of the Lean model.  Oracle: every shared intermediate and the final output before vs after.
"""
from __future__ import annotations

import numpy as np

from harness.c05_families import Family, around_gen, parse_bound
from harness.c05_lib import Host, get_init

F32 = "float32"


def _order_rules():
    from onnxscript.rewriter.rules.common import _fuse_relus_clips as RC
    from onnxscript.rewriter.rules.common import _min_max_to_clip as MM

    return [MM.min_min_rule, MM.max_max_rule, MM.min_max_rule, MM.max_min_rule,
            RC.successive_clip_relu_rule, RC.successive_relu_clip_rule, RC.successive_relu_rule, RC.successive_clip_rule]


def _expected_rule_order():
    """The eight rules, in the order they have inside `_DEFAULT_REWRITE_RULES` (the order the model's `chainRules` states)."""
    import onnxscript.rewriter as RW

    eight = _order_rules()
    ids = {id(r): i for i, r in enumerate(eight)}
    return [ids[id(r)] for r in RW._DEFAULT_REWRITE_RULES if id(r) in ids]


def _twice_class():
    from onnxscript.rewriter import RewriteRuleSet

    class Twice(RewriteRuleSet):
        """One rule-set object used for two successive `apply_to_model` calls on the same model."""

        counts = None
        entry = False

        def apply_to_model(self, model, **kw):
            if self.entry:
                import onnxscript.rewriter as RW

                def nn():
                    return sum(1 for n in model.graph if n.op_type != "Constant")
                k0 = nn()
                RW.rewrite(model)
                k1 = nn()
                RW.rewrite(model)
                k2 = nn()
                self.counts = (k0 - k1, k1 - k2)
            else:
                n1 = super().apply_to_model(model, **kw)
                n2 = super().apply_to_model(model, **kw)
                self.counts = (n1, n2)
            return self.counts[0] + self.counts[1]

    return Twice


class ChainFam(Family):
    name = "chain"
    n_inputs = 8
    rule_keys = ("successive_clip_rule", "successive_clip_relu_rule", "successive_relu_clip_rule", "successive_relu_rule",
                 "min_min_rule", "max_max_rule", "min_max_rule", "max_min_rule")
    SETS = ["order", "shuf", "default", "entry"]

    def __init__(self):
        self._last = None

    # ---- generation
    def gen_bound(self, rng):
        r = rng.random()
        if r < 0.22:
            return "-"
        if r < 0.27:
            return "n"
        if r < 0.31:
            return f"g{rng.randint(-6, 6)}"
        return f"c{rng.randint(-6, 6)}"

    def gen_op(self, rng, mm):
        r = rng.random()
        if mm and r < 0.4:
            k = "N" if rng.random() < 0.5 else "X"
            return f"{k}:" + ("n" if rng.random() < 0.07 else f"c{rng.randint(-6, 6)}")
        if r < 0.6 if mm else r < 0.35:
            return "R"
        return f"C:{self.gen_bound(rng)}:{self.gen_bound(rng)}"

    def gen(self, rng):
        k = rng.choice([2, 3, 3, 4, 4, 5, 6])
        mm = rng.random() < 0.6
        ops = [self.gen_op(rng, mm) for _ in range(k)]
        sh = [int(rng.random() < 0.12) for _ in range(k - 1)] + [1]
        st = rng.choice(self.SETS)
        order = list(range(8))
        if st == "shuf":
            rng.shuffle(order)
        return {"fam": "chain", "kind": st, "ops": ops, "sh": sh, "order": order, "rx": rng.choice([0, 1, 1, 2, 3]),
                "dtype": rng.choice([F32, F32, "int32", "float64"]), "origin": rng.choice(["init", "init", "cnode"])}

    def corpus(self):
        base = {"fam": "chain", "order": list(range(8)), "rx": 1, "dtype": F32, "origin": "init"}
        out = []
        for st in self.SETS:
            out += [
                dict(base, kind=st, ops=["C:c0:c5", "C:c1:c4", "C:c2:c3"], sh=[0, 0, 1]),
                dict(base, kind=st, ops=["R", "C:c-1:c4", "R", "C:c1:-"], sh=[0, 0, 0, 1]),
                dict(base, kind=st, ops=["N:c3", "X:c1", "R", "N:c2"], sh=[0, 0, 0, 1]),          # min_max → Clip → relu_clip
                dict(base, kind=st, ops=["X:c-2", "N:c4", "C:c0:c1", "R"], sh=[0, 0, 0, 1]),      # max_min → clip_clip → relu_clip
                dict(base, kind=st, ops=["C:c0:c5", "C:c1:c4", "C:c2:c3", "C:c2:c2"], sh=[0, 1, 0, 1]),
                dict(base, kind=st, ops=["C:n:c5", "C:c1:c4", "C:c2:c3"], sh=[0, 0, 1]),
                dict(base, kind=st, ops=["N:c3", "X:c5", "R"], sh=[0, 0, 1]),                     # min_max refuses (ub < lb)
                dict(base, kind=st, ops=["C:c0:c1", "C:c5:c10", "R", "R"], sh=[0, 0, 0, 1]),      # D2 region inside a chain
            ]
        out.append(dict(base, kind="shuf", order=[7, 6, 5, 4, 3, 2, 1, 0], ops=["R", "R", "C:c-3:c3", "C:c-1:-", "R"], sh=[0, 0, 0, 0, 1]))
        return out

    # ---- host
    def build(self, c):
        dt = c["dtype"]
        hst = Host(opset=18)
        shape = [2, 1, 3, 2, 3][5 - c["rx"]:] if c["rx"] else []
        consts = [0]
        for op in c["ops"]:
            for tok in op.split(":")[1:]:
                k, v = parse_bound(tok)
                if v is not None:
                    consts.append(v)
        hst.inp("x", dt, shape, gen=around_gen(consts, dt, shape))
        cur = "x"
        n = len(c["ops"])
        for i, op in enumerate(c["ops"]):
            out = "y" if i == n - 1 else f"t{i}"
            parts = op.split(":")
            if parts[0] == "R":
                hst.node("Relu", [cur], [out])
            elif parts[0] == "C":
                names = []
                for nm, tok in (("lo", parts[1]), ("hi", parts[2])):
                    k, v = parse_bound(tok)
                    if k == "-":
                        names.append("")
                    elif k == "n":
                        names.append(hst.const(f"k{i}{nm}", np.array(1 if nm == "hi" else -1, dtype=dt), "input"))
                    elif k == "g":
                        names.append(hst.const(f"k{i}{nm}", np.array(v, dtype=dt), "ginit"))
                    else:
                        names.append(hst.const(f"k{i}{nm}", np.array(v, dtype=dt), c["origin"]))
                while names and names[-1] == "":
                    names.pop()
                hst.node("Clip", [cur] + names, [out])
            else:
                k, v = parse_bound(parts[1])
                nm = hst.const(f"k{i}", np.array(2 if k == "n" else v, dtype=dt), "input" if k == "n" else c["origin"])
                hst.node("Min" if parts[0] == "N" else "Max", [cur, nm], [out])
            if c["sh"][i]:
                hst.out(out, dt, None)
            cur = out
        eight = _order_rules()
        Twice = _twice_class()
        if c["kind"] in ("order", "shuf"):
            rs = Twice([eight[i] for i in c["order"]])
        else:
            import onnxscript.rewriter as RW

            rs = Twice(list(RW._DEFAULT_REWRITE_RULES))
            rs.entry = c["kind"] == "entry"
        self._last = rs
        return hst, rs

    def line(self, c):
        return f"chain ops={';'.join(c['ops'])} sh={','.join(str(s) for s in c['sh'])} order={','.join(str(i) for i in c['order'])}"

    # ---- observation
    def observe(self, c, after):
        n1, n2 = self._last.counts
        outs = {o.name for o in after.graph.output}
        ginputs = {i.name for i in after.graph.input}
        prod = {}
        for n in after.graph.node:
            if n.op_type != "Constant":
                prod[n.output[0]] = n

        def opd(name, clip):
            if name == "":
                return "-"
            a = get_init(after, name)
            if a is None:
                return "n"
            if name in ginputs:
                return f"g{int(a.reshape(-1)[0])}" if clip else "n"
            if a.size != 1:
                return f"?size{a.size}"
            return f"c{int(a.reshape(-1)[0])}" + ("" if a.ndim == 0 else f"?rank{a.ndim}")

        toks = []
        cur = "y"
        while cur in prod:
            n = prod[cur]
            star = "*" if (cur in outs) else ""
            if n.op_type == "Relu":
                t = "R"
            elif n.op_type == "Clip":
                ins = list(n.input[1:]) + ["", ""]
                t = f"C:{opd(ins[0], True)}:{opd(ins[1], True)}"
            elif n.op_type in ("Min", "Max") and len(n.input) == 2:
                t = ("N:" if n.op_type == "Min" else "X:") + opd(n.input[1], False)
            else:
                t = f"?{n.op_type}/{len(n.input)}"
            toks.append(t + star)
            cur = n.input[0]
        if cur != "x":
            toks.append(f"?root:{cur}")
        nodes = sum(1 for n in after.graph.node if n.op_type != "Constant")
        if nodes != len(toks):
            toks.append(f"?nodes:{nodes}")
        return f"fire n={n1} n2={n2} ops={';'.join(reversed(toks))}"

    def finding(self, c):
        return None

    def counters(self, c, rec):
        """Extra coverage counters (required in c05.REQUIRED_BRANCHES)."""
        out = []
        if not rec["impl"].startswith("fire n="):
            return out
        n1 = int(rec["impl"].split()[1][2:])
        kinds = [o[0] for o in c["ops"]]
        if n1 >= 2:
            out.append("n>=2")
        if n1 >= 3:
            out.append("n>=3")
        mm_pair = any(a + b in ("NX", "XN") for a, b in zip(kinds, kinds[1:]))
        final = rec["impl"].split("ops=")[1].split(";")
        if n1 >= 2 and mm_pair and ("R" in kinds or "C" in kinds) and not any(t[0] in "NX" for t in final):
            out.append("minmax_then_reluclip")
        if any(c["sh"][:-1]):
            out.append("shared_inside")
        out.append("second_call")      # every fired case is applied twice with the same RewriteRuleSet object
        return out


def order_check():
    """The order of the eight rules inside `_DEFAULT_REWRITE_RULES` is the one `Chain.chainRules` states."""
    return _expected_rule_order() == list(range(8))
