"""C14 translator: rule classes' ASTs -> per-class stash discipline -> OV/Gen/C14Stash.lean.

Every class under onnxscript/rewriter/rules/{common,fusion} (table `rules`) and
onnxscript/rewriter/ort_fusions (table `ortRules`) that has a `check` and/or `rewrite` method
(own or inherited) gets one row.  A row states, for the *instance fields* (`self.x`) of the class:

* consts            fields assigned in `__init__` (own or inherited) and nowhere else;
* checkWrites       fields DEFINITELY assigned on every path of `check` that reaches a return which can be
                    a success (forward must-assignment analysis; `return r.fail(..)`, `return False/None`,
                    `raise`, and `return v` under `if not v:` are failure exits);
* checkMayWrite     fields assigned on some path of `check` (any exit);
* checkEarlyReads   non-const fields read in `check` at a point where they are not definitely assigned by
                    this very call (so the value would come from an earlier match / an earlier model);
* rewriteReads      non-const fields read in `rewrite` before `rewrite` itself assigned them;
* rewriteWrites     fields assigned in `rewrite`;
* scopeWrites       fields definitely assigned by `setup()` (the per-graph pre-visitor).

`self.helper(...)`/`super().check(...)` calls are summarised recursively through the MRO (resolved by class
name over all parsed files, incl. `_rewrite_rule.py` for the framework bases).

Nothing here decides the property: the rows are data for `OV.Props.C14.stash_write_before_read`
(by `decide`) and for the runtime monitor of harness/c14_worker.py, which validates the rows against
what the real instances do (fields written/read per phase of every real try_rewrite).
"""
from __future__ import annotations

import ast
import hashlib
from dataclasses import dataclass, field
from pathlib import Path

RULE_DIRS = ["onnxscript/rewriter/rules/common", "onnxscript/rewriter/rules/fusion"]
ORT_DIR = "onnxscript/rewriter/ort_fusions"
FRAMEWORK = ["onnxscript/rewriter/_rewrite_rule.py"]


# --------------------------------------------------------------------------- class table


@dataclass
class ClassInfo:
    name: str
    module: str  # repo-relative path
    lineno: int
    bases: list[str]
    methods: dict[str, ast.FunctionDef] = field(default_factory=dict)
    class_attrs: set[str] = field(default_factory=set)
    properties: set[str] = field(default_factory=set)


def _base_name(b: ast.expr) -> str | None:
    if isinstance(b, ast.Name):
        return b.id
    if isinstance(b, ast.Attribute):
        return b.attr
    if isinstance(b, ast.Subscript):
        return _base_name(b.value)
    return None


def parse_classes(repo: Path, rel: str) -> list[ClassInfo]:
    tree = ast.parse((repo / rel).read_text())
    out = []
    for node in ast.walk(tree):
        if isinstance(node, ast.ClassDef):
            ci = ClassInfo(node.name, rel, node.lineno, [b for b in map(_base_name, node.bases) if b])
            for st in node.body:
                if isinstance(st, (ast.FunctionDef, ast.AsyncFunctionDef)):
                    ci.methods[st.name] = st
                    for d in st.decorator_list:
                        dn = d.id if isinstance(d, ast.Name) else (d.attr if isinstance(d, ast.Attribute) else "")
                        if dn in ("property", "setter", "cached_property"):
                            ci.properties.add(st.name)
                elif isinstance(st, ast.Assign):
                    for t in st.targets:
                        if isinstance(t, ast.Name):
                            ci.class_attrs.add(t.id)
                elif isinstance(st, ast.AnnAssign) and isinstance(st.target, ast.Name) and st.value is not None:
                    # `x: T` without a value only declares an instance field; `x: ClassVar = v` defines a class attribute
                    ci.class_attrs.add(st.target.id)
            out.append(ci)
    return out


class World:
    def __init__(self, repo: Path):
        self.repo = repo
        self.by_name: dict[str, list[ClassInfo]] = {}
        self.files: dict[str, list[ClassInfo]] = {}

    def add_file(self, rel: str) -> None:
        cs = parse_classes(self.repo, rel)
        self.files[rel] = cs
        for c in cs:
            self.by_name.setdefault(c.name, []).append(c)

    def resolve(self, name: str, prefer_module: str) -> ClassInfo | None:
        cands = self.by_name.get(name, [])
        for c in cands:
            if c.module == prefer_module:
                return c
        return cands[0] if cands else None

    def mro(self, c: ClassInfo) -> list[ClassInfo]:
        """Linearised ancestors (depth-first, left to right, de-duplicated) — enough for single inheritance
        chains, which is all the rule classes use."""
        out, seen = [], set()

        def go(k: ClassInfo):
            if (k.module, k.name) in seen:
                return
            seen.add((k.module, k.name))
            out.append(k)
            for b in k.bases:
                p = self.resolve(b, k.module)
                if p is not None:
                    go(p)

        go(c)
        return out

    def descendants(self, c: ClassInfo) -> list[ClassInfo]:
        out = []
        for ks in self.by_name.values():
            for k in ks:
                if k is not c and any((a.module, a.name) == (c.module, c.name) for a in self.mro(k)):
                    out.append(k)
        return out

    def find_method(self, c: ClassInfo, name: str, after: ClassInfo | None = None):
        """(owner, FunctionDef) of `name` looked up on `c` (or, for super(), after class `after`)."""
        chain = self.mro(c)
        if after is not None:
            keys = [(k.module, k.name) for k in chain]
            i = keys.index((after.module, after.name)) if (after.module, after.name) in keys else -1
            chain = chain[i + 1 :]
        for k in chain:
            if name in k.methods:
                return k, k.methods[name]
        return None, None


# --------------------------------------------------------------------------- method summaries


@dataclass
class Summary:
    must_all: frozenset = frozenset()  # definitely assigned on every normal exit
    must_success: frozenset | None = None  # … on every exit that can be a success (None: no such exit)
    may: frozenset = frozenset()
    early_reads: frozenset = frozenset()
    dynamic: bool = False  # setattr/getattr/vars(self)/self escaping: analysis not exact


def is_self_attr(n: ast.AST) -> bool:
    return isinstance(n, ast.Attribute) and isinstance(n.value, ast.Name) and n.value.id == "self"


def is_super_call(n: ast.AST) -> str | None:
    """`super().m(...)` -> m"""
    if (
        isinstance(n, ast.Call)
        and isinstance(n.func, ast.Attribute)
        and isinstance(n.func.value, ast.Call)
        and isinstance(n.func.value.func, ast.Name)
        and n.func.value.func.id == "super"
    ):
        return n.func.attr
    return None


class Analyzer:
    """Forward must-assignment / early-read analysis of one method of one concrete class."""

    def __init__(self, world: World, cls: ClassInfo, owner: ClassInfo, depth: int = 0):
        self.w = world
        self.cls = cls  # the concrete class whose instance `self` is
        self.owner = owner  # the class that textually contains the method (for super())
        self.depth = depth
        self.may: set[str] = set()
        self.early: set[str] = set()
        self.success_sets: list[frozenset] = []
        self.exit_sets: list[frozenset] = []
        self.dynamic = False
        chain = world.mro(cls)
        self.method_names = set().union(*[set(k.methods) for k in chain]) if chain else set()
        self.class_attrs = set().union(*[k.class_attrs for k in chain]) if chain else set()
        # an abstract base reads class attributes its concrete subclasses define (`op_type: ClassVar = "Conv"`)
        for k in world.descendants(cls):
            self.class_attrs |= k.class_attrs
        self.properties = set().union(*[k.properties for k in chain]) if chain else set()

    # -- summaries of callees
    def callee(self, name: str, via_super: bool) -> Summary:
        if self.depth > 6:
            return Summary(dynamic=True)
        owner, fn = self.w.find_method(self.cls, name, after=self.owner if via_super else None)
        if fn is None:
            return Summary()
        return summarize(self.w, self.cls, owner, fn, self.depth + 1)

    # -- expressions: record reads (and calls' effects), return nothing
    def expr(self, e: ast.AST | None, D: set[str], cond: dict) -> None:
        if e is None:
            return
        for n in self._walk_eval_order(e):
            if is_self_attr(n) and isinstance(n.ctx, ast.Load):
                a = n.attr
                if a in self.properties:
                    s = self.callee(a, False)
                    self._apply_call(s, D)
                elif a in self.method_names or a in self.class_attrs or a.startswith("__"):
                    pass
                elif a not in D:
                    self.early.add(a)
            elif isinstance(n, ast.Call):
                # in-place mutation of a field's object (`self.x.add(..)`): a write for the purpose of "const" fields
                if isinstance(n.func, ast.Attribute) and n.func.attr in MUTATORS and is_self_attr(n.func.value):
                    self.may.add(n.func.value.attr)
                sup = is_super_call(n)
                if sup:
                    self._apply_call(self.callee(sup, True), D)
                elif is_self_attr(n.func) and n.func.attr in self.method_names:
                    self._apply_call(self.callee(n.func.attr, False), D)
                elif isinstance(n.func, ast.Name) and n.func.id in ("setattr", "getattr", "delattr", "vars"):
                    if n.args and isinstance(n.args[0], ast.Name) and n.args[0].id == "self":
                        if (
                            n.func.id == "setattr"
                            and len(n.args) >= 2
                            and isinstance(n.args[1], ast.Constant)
                            and isinstance(n.args[1].value, str)
                        ):
                            self.may.add(n.args[1].value)
                            D.add(n.args[1].value)
                        else:
                            self.dynamic = True
            elif isinstance(n, ast.NamedExpr) and is_self_attr(n.target):
                self.may.add(n.target.attr)
                D.add(n.target.attr)

    def _apply_call(self, s: Summary, D: set[str]) -> None:
        for r in s.early_reads:
            if r not in D:
                self.early.add(r)
        self.may |= s.may
        D |= s.must_all
        self.dynamic = self.dynamic or s.dynamic

    def _walk_eval_order(self, e: ast.AST):
        # children before parents approximates evaluation order well enough for `self.x` loads
        for ch in ast.iter_child_nodes(e):
            if isinstance(ch, (ast.FunctionDef, ast.AsyncFunctionDef, ast.ClassDef)):
                continue
            yield from self._walk_eval_order(ch)
        yield e

    # -- targets
    def store(self, t: ast.AST, D: set[str], cond: dict) -> None:
        if is_self_attr(t):
            self.may.add(t.attr)
            D.add(t.attr)
        elif isinstance(t, (ast.Tuple, ast.List)):
            for x in t.elts:
                self.store(x, D, cond)
        elif isinstance(t, ast.Starred):
            self.store(t.value, D, cond)
        elif isinstance(t, (ast.Subscript, ast.Attribute)):
            # self.x[i] = v / self.x.y = v : a read of self.x plus an in-place mutation
            self.expr(t.value, D, cond)
            base = t.value
            while isinstance(base, (ast.Subscript, ast.Attribute)) and not is_self_attr(base):
                base = base.value
            if is_self_attr(base):
                self.may.add(base.attr)
            if isinstance(t, ast.Subscript):
                self.expr(t.slice, D, cond)
        elif isinstance(t, ast.Name):
            cond.pop(t.id, None)

    # -- statements; returns True when the block cannot fall through
    def block(self, stmts, D: set[str], cond: dict, falsy: frozenset) -> bool:
        for st in stmts:
            if self.stmt(st, D, cond, falsy):
                return True
        return False

    def _success_extra(self, value: ast.AST | None, cond: dict, falsy: frozenset):
        """None if `return value` is a failure exit, else the extra fields known written when it succeeds."""
        if value is None:
            return None
        if isinstance(value, ast.Constant) and (value.value is False or value.value is None):
            return None
        if isinstance(value, ast.Call) and isinstance(value.func, ast.Attribute) and value.func.attr == "fail":
            return None
        if isinstance(value, ast.Name):
            if value.id in falsy:
                return None
            return frozenset(cond.get(value.id, ()))
        sup = is_super_call(value)
        if sup:
            s = self.callee(sup, True)
            return None if s.must_success is None else s.must_success
        if isinstance(value, ast.Call) and is_self_attr(value.func) and value.func.attr in self.method_names:
            s = self.callee(value.func.attr, False)
            return None if s.must_success is None else s.must_success
        return frozenset()

    def stmt(self, st: ast.stmt, D: set[str], cond: dict, falsy: frozenset) -> bool:
        if isinstance(st, ast.Return):
            extra = self._success_extra(st.value, cond, falsy)
            self.expr(st.value, D, cond)
            self.exit_sets.append(frozenset(D))
            if extra is not None:
                self.success_sets.append(frozenset(D) | extra)
            return True
        if isinstance(st, ast.Raise):
            self.expr(st.exc, D, cond)
            return True
        if isinstance(st, ast.Assign):
            self.expr(st.value, D, cond)
            for t in st.targets:
                self.store(t, D, cond)
            # v = super().check(...) / v = self.helper(...): remember what success of v implies
            if len(st.targets) == 1 and isinstance(st.targets[0], ast.Name):
                sup = is_super_call(st.value)
                s = None
                if sup:
                    s = self.callee(sup, True)
                elif (
                    isinstance(st.value, ast.Call)
                    and is_self_attr(st.value.func)
                    and st.value.func.attr in self.method_names
                ):
                    s = self.callee(st.value.func.attr, False)
                if s is not None and s.must_success is not None:
                    cond[st.targets[0].id] = set(s.must_success)
            return False
        if isinstance(st, ast.AugAssign):
            self.expr(st.value, D, cond)
            if is_self_attr(st.target):
                if st.target.attr not in D:
                    self.early.add(st.target.attr)
                self.may.add(st.target.attr)
                D.add(st.target.attr)
            else:
                self.store(st.target, D, cond)
            return False
        if isinstance(st, ast.AnnAssign):
            self.expr(st.value, D, cond)
            if st.value is not None:
                self.store(st.target, D, cond)
            return False
        if isinstance(st, ast.Delete):
            for t in st.targets:
                if is_self_attr(t):
                    D.discard(t.attr)
                    self.may.add(t.attr)
                else:
                    self.expr(t, D, cond)
            return False
        if isinstance(st, ast.Expr):
            self.expr(st.value, D, cond)
            return False
        if isinstance(st, ast.If):
            self.expr(st.test, D, cond)
            Dt, De = set(D), set(D)
            ft, fe = falsy, falsy
            t = st.test
            if isinstance(t, ast.UnaryOp) and isinstance(t.op, ast.Not) and isinstance(t.operand, ast.Name):
                ft = falsy | {t.operand.id}
                De |= cond.get(t.operand.id, set())
            elif isinstance(t, ast.Name):
                fe = falsy | {t.id}
                Dt |= cond.get(t.id, set())
            ct, ce = dict(cond), dict(cond)
            tt = self.block(st.body, Dt, ct, ft)
            te = self.block(st.orelse, De, ce, fe)
            D.clear()
            if tt and te:
                return True
            if tt:
                D |= De
                cond.clear(); cond.update(ce)
            elif te:
                D |= Dt
                cond.clear(); cond.update(ct)
            else:
                D |= Dt & De
                keep = {k: v for k, v in ct.items() if k in ce and ce[k] == v}
                cond.clear(); cond.update(keep)
            return False
        if isinstance(st, (ast.For, ast.AsyncFor, ast.While)):
            if isinstance(st, ast.While):
                self.expr(st.test, D, cond)
            else:
                self.expr(st.iter, D, cond)
            Db = set(D)
            if not isinstance(st, ast.While):
                self.store(st.target, Db, dict(cond))
            self.block(st.body, Db, dict(cond), falsy)
            De = set(D)
            self.block(st.orelse, De, dict(cond), falsy)
            # zero iterations possible: nothing from the body is definite afterwards
            return False
        if isinstance(st, (ast.With, ast.AsyncWith)):
            for it in st.items:
                self.expr(it.context_expr, D, cond)
                if it.optional_vars is not None:
                    self.store(it.optional_vars, D, cond)
            return self.block(st.body, D, cond, falsy)
        if isinstance(st, ast.Try) or st.__class__.__name__ == "TryStar":
            D0 = set(D)
            Db = set(D)
            tb = self.block(st.body, Db, dict(cond), falsy)
            if not tb:
                tb = self.block(st.orelse, Db, dict(cond), falsy)
            ends = [] if tb else [Db]
            for h in st.handlers:
                Dh = set(D0)
                if not self.block(h.body, Dh, dict(cond), falsy):
                    ends.append(Dh)
            D.clear()
            if ends:
                D |= set.intersection(*ends)
            Df = set(D)
            tf = self.block(st.finalbody, Df, cond, falsy)
            D |= Df
            return tf or not ends
        if isinstance(st, ast.Match):
            self.expr(st.subject, D, cond)
            ends = [set(D)]
            for case in st.cases:
                Dc = set(D)
                if not self.block(case.body, Dc, dict(cond), falsy):
                    ends.append(Dc)
            D.clear()
            D |= set.intersection(*ends)
            return False
        if isinstance(st, (ast.FunctionDef, ast.AsyncFunctionDef)):
            # closure: its reads happen later, with at least the current definite set; its writes are only "may"
            sub = Analyzer(self.w, self.cls, self.owner, self.depth + 1)
            sub.block(st.body, set(D), {}, frozenset())
            self.early |= sub.early
            self.may |= sub.may
            self.dynamic = self.dynamic or sub.dynamic
            return False
        if isinstance(st, (ast.Pass, ast.Break, ast.Continue, ast.Import, ast.ImportFrom, ast.Global, ast.Nonlocal, ast.ClassDef)):
            return False
        if isinstance(st, ast.Assert):
            self.expr(st.test, D, cond)
            return False
        self.dynamic = True
        self.unknown_stmt = type(st).__name__
        return False


_cache: dict = {}


VISITED: set = set()  # (class, method) pairs analysed since the last clear (reachability from an entry method)


def summarize(world: World, cls: ClassInfo, owner: ClassInfo, fn: ast.FunctionDef, depth: int = 0) -> Summary:
    key = (cls.module, cls.name, owner.module, owner.name, fn.name)
    VISITED.add((cls.name, fn.name))
    if key in _cache:
        return _cache[key]
    # recursion guard: a recursive activation starts with at least the outer activation's definite set, so its early
    # reads are among those the outer analysis records for the same body; contributing nothing is sound
    _cache[key] = Summary()
    a = Analyzer(world, cls, owner, depth)
    D: set[str] = set()
    fell = not a.block(fn.body, D, {}, frozenset())
    exits = list(a.exit_sets)
    if fell:
        exits.append(frozenset(D))  # implicit `return None`: a normal exit, a failure for check
    must_all = frozenset(set.intersection(*map(set, exits))) if exits else frozenset()
    must_success = frozenset(set.intersection(*map(set, a.success_sets))) if a.success_sets else None
    s = Summary(must_all, must_success, frozenset(a.may), frozenset(a.early), a.dynamic)
    _cache[key] = s
    return s


# --------------------------------------------------------------------------- rows


def class_row(world: World, c: ClassInfo) -> dict | None:
    chain = world.mro(c)
    names = {k.name for k in chain}
    if not ({"RewriteRuleClassBase", "PatternBase"} & names) or c.name in ("RewriteRuleClassBase", "PatternBase"):
        return None
    init_w: set[str] = set()
    other_w: set[str] = set()
    method_names = set().union(*[set(k.methods) for k in chain])
    sums: dict[str, Summary] = {}
    for m in sorted(method_names):
        owner, fn = world.find_method(c, m)
        s = summarize(world, c, owner, fn)
        sums[m] = s
    # writes per method *textually* (own statements + nested calls are in `may`)
    for m, s in sums.items():
        if m == "__init__":
            init_w |= s.may
        else:
            other_w |= s.may
    consts = init_w - other_w
    chk = sums.get("check")
    rew = sums.get("rewrite")
    setup = sums.get("setup")
    row = {
        "name": c.name,
        "module": c.module,
        "line": c.lineno,
        "hasCheck": chk is not None and world.find_method(c, "check")[0].name not in ("PatternBase",),
        "hasRewrite": rew is not None and world.find_method(c, "rewrite")[0].name not in ("RewriteRuleClassBase",),
        "consts": sorted(consts),
        "checkWrites": sorted((chk.must_success or frozenset()) - consts) if chk else [],
        "checkMayWrite": sorted(chk.may - consts) if chk else [],
        "checkEarlyReads": sorted(chk.early_reads - consts) if chk else [],
        "rewriteReads": sorted(rew.early_reads - consts) if rew else [],
        "rewriteWrites": sorted(rew.may) if rew else [],
        "scopeWrites": sorted(setup.must_all) if setup else [],
        "dynamic": bool((chk and chk.dynamic) or (rew and rew.dynamic)),
    }
    return row


def extract(repo: Path) -> dict:
    _cache.clear()
    world = World(repo)
    for rel in FRAMEWORK:
        world.add_file(rel)
    rule_files, ort_files = [], []
    for d in RULE_DIRS:
        for p in sorted((repo / d).glob("*.py")):
            if p.name.endswith("_test.py") or p.name == "__init__.py":
                continue
            rule_files.append(str(p.relative_to(repo)))
    for p in sorted((repo / ORT_DIR).glob("*.py")):
        if p.name.endswith("_test.py") or p.name in ("__init__.py", "_test_utils.py"):
            continue
        ort_files.append(str(p.relative_to(repo)))
    for rel in rule_files + ort_files:
        world.add_file(rel)
    rules, ort = [], []
    for rel in rule_files:
        for c in world.files[rel]:
            r = class_row(world, c)
            if r:
                rules.append(r)
    for rel in ort_files:
        for c in world.files[rel]:
            r = class_row(world, c)
            if r:
                ort.append(r)
    return {
        "rules": rules,
        "ortRules": ort,
        "files": rule_files,
        "ortFiles": ort_files,
        "converter": extract_converter_facts(repo),
    }


# --------------------------------------------------------------------------- Converter facts


MUTATORS = {"add", "append", "pop", "update", "clear", "extend", "remove", "discard", "insert", "setdefault"}


def extract_converter_facts(repo: Path) -> dict:
    """Which per-function state a `Converter` object keeps, which of it `_init_function_translation` /
    `translate_function_def` re-initialise, and whether `script()` builds a fresh Converter per function."""
    tree = ast.parse((repo / "onnxscript/_internal/converter.py").read_text())
    conv = next(n for n in ast.walk(tree) if isinstance(n, ast.ClassDef) and n.name == "Converter")
    meths = {m.name: m for m in conv.body if isinstance(m, ast.FunctionDef)}

    def assigned(fn) -> set[str]:
        out = set()
        for n in ast.walk(fn):
            if isinstance(n, (ast.Assign, ast.AnnAssign, ast.AugAssign)):
                ts = n.targets if isinstance(n, ast.Assign) else [n.target]
                for t in ts:
                    if is_self_attr(t):
                        out.add(t.attr)
        return out

    def mutated(fn) -> set[str]:
        out = set()
        for n in ast.walk(fn):
            if isinstance(n, ast.Call) and isinstance(n.func, ast.Attribute) and n.func.attr in MUTATORS:
                if is_self_attr(n.func.value):
                    out.add(n.func.value.attr)
            if isinstance(n, ast.Subscript) and isinstance(n.ctx, ast.Store):
                b = n.value
                while isinstance(b, ast.Subscript):
                    b = b.value
                if is_self_attr(b):
                    out.add(b.attr)
        return out

    init_fields = assigned(meths["__init__"])
    changed_elsewhere: set[str] = set()
    for name, fn in meths.items():
        if name != "__init__":
            changed_elsewhere |= assigned(fn) | mutated(fn)
    state = sorted(init_fields & changed_elsewhere)
    resets = set()
    for name in ("_init_function_translation", "translate_function_def"):
        if name in meths:
            resets |= assigned(meths[name])
    # script(): transform -> script_check -> converter.Converter(...)
    mtree = ast.parse((repo / "onnxscript/_internal/main.py").read_text())
    fns = {n.name: n for n in ast.walk(mtree) if isinstance(n, ast.FunctionDef)}

    def calls(fn, pred) -> bool:
        return any(isinstance(n, ast.Call) and pred(n.func) for n in ast.walk(fn))

    fresh = (
        "script_check" in fns
        and calls(fns["script_check"], lambda f: isinstance(f, ast.Attribute) and f.attr == "Converter")
        and "script" in fns
        and calls(fns["script"], lambda f: isinstance(f, ast.Name) and f.id == "script_check")
    )
    # constants by reference: `ir.tensor(<bare name>)` where the name is the user's object, not a snapshot of it
    by_ref = []
    for name in ("_emit_const", "_translate_attr"):
        fn = meths.get(name)
        if fn is None:
            continue
        for n in ast.walk(fn):
            if (
                isinstance(n, ast.Call)
                and isinstance(n.func, ast.Attribute)
                and n.func.attr == "tensor"
                and n.args
                and isinstance(n.args[0], ast.Name)
                and n.args[0].id in ("pyvalue", "val", "value")
            ):
                by_ref.append(name)
    # rewriter: does `_update_opset_imports` iterate the used_opsets SET through sorted(...)?
    rtree = ast.parse((repo / "onnxscript/rewriter/_rewrite_rule.py").read_text())
    imports_sorted = None
    for fn in ast.walk(rtree):
        if isinstance(fn, ast.FunctionDef) and fn.name == "_update_opset_imports":
            for n in ast.walk(fn):
                if isinstance(n, ast.For):
                    it = n.iter
                    imports_sorted = isinstance(it, ast.Call) and isinstance(it.func, ast.Name) and it.func.id == "sorted"
                    break
    return {
        "opsetImportsSorted": imports_sorted,
        "stateFields": state,
        "resetFields": sorted(resets & set(state)),
        "freshPerScript": bool(fresh),
        "constByRefSites": sorted(set(by_ref)),
    }


def row_ok(r: dict) -> bool:
    return set(r["rewriteReads"]) <= set(r["checkWrites"]) and not r["checkEarlyReads"] and not r["dynamic"]


def row_ok_scoped(r: dict) -> bool:
    """Relaxed discipline for ort_fusions: per-graph state re-initialised by `setup()` may also be read."""
    ok_src = set(r["checkWrites"]) | set(r["scopeWrites"])
    return (
        set(r["rewriteReads"]) <= ok_src
        and set(r["checkEarlyReads"]) <= set(r["scopeWrites"])
        and not r["dynamic"]
    )


# --------------------------------------------------------------------------- Lean emission


def lstr(s: str) -> str:
    return '"' + s.replace("\\", "\\\\").replace('"', '\\"') + '"'


def llist(xs) -> str:
    return "[" + ", ".join(lstr(x) for x in xs) + "]"


def lean_row(r: dict) -> str:
    return (
        "  { name := " + lstr(r["module"].rsplit("/", 1)[-1][:-3] + "." + r["name"])
        + f", hasCheck := {str(r['hasCheck']).lower()}, hasRewrite := {str(r['hasRewrite']).lower()}"
        + f", dynamic := {str(r['dynamic']).lower()}"
        + ",\n    consts := " + llist(r["consts"])
        + ", checkWrites := " + llist(r["checkWrites"])
        + ", checkMayWrite := " + llist(r["checkMayWrite"])
        + ",\n    checkEarlyReads := " + llist(r["checkEarlyReads"])
        + ", rewriteReads := " + llist(r["rewriteReads"])
        + ", rewriteWrites := " + llist(r["rewriteWrites"])
        + ", scopeWrites := " + llist(r["scopeWrites"])
        + " }"
    )


def emit_lean(data: dict) -> str:
    body = [
        "import OV.Model.C14History",
        "/-! GENERATED by harness/extract_stash.py from /repo's rule classes — do not edit. -/",
        "namespace OV.Gen.C14Stash",
        "open OV.C14",
        "",
        "/-- every rule class under rewriter/rules/{common,fusion} -/",
        "def rules : List RuleSpec := [",
        ",\n".join(lean_row(r) for r in data["rules"]),
        "]",
        "",
        "/-- every rule class under rewriter/ort_fusions -/",
        "def ortRules : List RuleSpec := [",
        ",\n".join(lean_row(r) for r in data["ortRules"]),
        "]",
        "",
        "/-- `Converter` per-function state, what `_init_function_translation`/`translate_function_def` reset, and",
        "whether `script()` constructs a fresh `Converter` per decorated function (`main.script_check`). -/",
        "def converterFacts : ConverterFacts :=",
        "  { stateFields := " + llist(data["converter"]["stateFields"])
        + ", resetFields := " + llist(data["converter"]["resetFields"])
        + f", freshPerScript := {str(data['converter']['freshPerScript']).lower()}"
        + ", constByRefSites := " + llist(data["converter"]["constByRefSites"])
        + f", opsetImportsSorted := {str(bool(data['converter'].get('opsetImportsSorted'))).lower()}" + " }",
        "",
        "end OV.Gen.C14Stash",
        "",
    ]
    return "\n".join(body)


def write_lean(data: dict, lean_dir: Path) -> tuple[Path, bool]:
    """Write OV/Gen/C14Stash.lean if its content changed (keeps lake's cache valid). Returns (path, changed)."""
    text = emit_lean(data)
    p = lean_dir / "OV" / "Gen" / "C14Stash.lean"
    p.parent.mkdir(exist_ok=True)
    if p.exists() and p.read_text() == text:
        return p, False
    p.write_text(text)
    return p, True


def digest(data: dict) -> str:
    import json

    return hashlib.sha1(json.dumps(data, sort_keys=True).encode()).hexdigest()[:12]


if __name__ == "__main__":
    import json
    import os
    import sys

    repo = Path(os.environ.get("VERIF_REPO", "/repo"))
    d = extract(repo)
    for tbl in ("rules", "ortRules"):
        for r in d[tbl]:
            flag = "ok" if row_ok(r) else ("scoped-ok" if row_ok_scoped(r) else "NOT-OK")
            interesting = r["checkMayWrite"] or r["rewriteReads"] or r["checkEarlyReads"] or r["rewriteWrites"]
            if interesting or flag != "ok" or "-v" in sys.argv:
                print(tbl, r["module"].rsplit("/", 1)[-1], r["name"], flag, json.dumps({k: v for k, v in r.items() if k not in ("name", "module", "line")}))
    print("converter:", d["converter"])
    if "--write" in sys.argv:
        print(write_lean(d, Path(__file__).resolve().parent.parent / "lean"))
    print(len(d["rules"]), "rule classes;", len(d["ortRules"]), "ort_fusions classes; digest", digest(d))
