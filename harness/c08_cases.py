"""C08 case families: for every covered torch_lib function a generator of argument tuples, the
driver line for the Lean model/spec, the call on the real torch_lib function and the call on
PyTorch eager.  Dtypes: f32, i64, i32, bool, u8, f16 (where the function accepts them).
"""
from __future__ import annotations

import numpy as np

from harness import c08_lib as L
from harness.c08_lib import Seq

NP = {"f32": np.float32, "f16": np.float16, "f64": np.float64, "i64": np.int64, "i32": np.int32,
      "i8": np.int8, "u8": np.uint8, "bool": np.bool_}


def sh(s):
    return L.shape_str(s)


def ints(l):
    return ",".join(str(int(x)) for x in l) if len(l) else "-"


def opt(x):
    return "N" if x is None else str(int(x))


def rshape(rng, min_rank=0, max_rank=4, zero_p=0.12):
    r = rng.randint(min_rank, max_rank)
    return [0 if rng.random() < zero_p else rng.choice([1, 1, 2, 2, 3, 3, 4, 5]) for _ in range(r)]


def rdim(rng, rank, oob_p=0.06):
    """A dim argument: uniformly over [-rank, rank-1], sometimes out of range."""
    if rng.random() < oob_p:
        return rng.choice([rank, -rank - 1, rank + 1])
    if rank == 0:
        return rng.choice([0, -1])
    return rng.randint(-rank, rank - 1)


def rdtype(rng, allowed=("f32", "i64", "i32", "bool", "u8", "f16")):
    return rng.choice(allowed)


def data(shape, dtype, kind="arange"):
    n = int(np.prod(shape)) if len(shape) else 1
    if dtype == "bool":
        a = (np.arange(n) % 3 != 1)
    elif kind == "signed" and dtype not in ("u8",):
        a = np.arange(n) - n // 2
    else:
        a = np.arange(n) % 120
    return np.asarray(np.asarray(a).astype(NP[dtype]).reshape(shape))


def datai(shape, dtype, i):
    a = data(shape, dtype)
    if dtype == "bool":
        return a
    return np.asarray((a + i).astype(NP[dtype]).reshape(shape))


# ----------------------------------------------------------------------------- family table

FAMILIES: dict[str, dict] = {}


def fam(name, family, overloads, outkind="single"):
    def deco(cls):
        FAMILIES[name] = dict(name=name, family=family, overloads=overloads, outkind=outkind,
                              gen=cls.gen, line=cls.line, call=cls.call, torch=cls.torch,
                              fnname=getattr(cls, "fnname", "aten_" + name),
                              grid=getattr(cls, "grid", None), branch=getattr(cls, "branch", None))
        return cls
    return deco


def _x(case):
    if case.get("small"):
        # products: keep values in {1, 2} so that neither runtime overflows (inf * 0 = nan is a float artefact)
        shape = case["shape"]
        n = int(np.prod(shape)) if len(shape) else 1
        return np.asarray((1 + (np.arange(n) % 7 == 3)).astype(NP[case.get("dtype", "f32")]).reshape(shape))
    return data(case["shape"], case.get("dtype", "f32"))


CAST_FAMS = {"sum": (7, 7, 11, 1), "sum_dim": (7, 7, 11), "prod": (7, 11), "prod_dim": (7, 11), "mean_dim": (11,)}
_TORCH_DT = {1: "float32", 7: "int64", 11: "float64"}


def _maybe_cast(rng, name, c):
    """dtype= argument of the reductions: sometimes a lossy one (float halves -> int64) so that the place of the Cast shows."""
    c["cast"] = None
    if name in CAST_FAMS and rng.random() < 0.3:
        c["cast"] = rng.choice(CAST_FAMS[name])
        if c["cast"] == 7 or name == "mean_dim":
            c["dtype"] = "f32"
    return c


def _xc(c):
    x = _x(c)
    if c.get("cast") is not None and c.get("dtype") == "f32":
        return np.asarray((x / np.float32(2)).astype(np.float32))      # halves: 0, .5, 1, 1.5, …
    return x


def _cast_kw(c):
    return {} if c.get("cast") is None else {"dtype": c["cast"]}


def _cast_tkw(c, t):
    return {} if c.get("cast") is None else {"dtype": getattr(t, _TORCH_DT[c["cast"]])}


# ---- view algebra -----------------------------------------------------------------------------

@fam("flatten", "view", ["aten::flatten.using_ints"])
class _Flatten:
    fnname = "aten_flatten"

    @staticmethod
    def gen(rng):
        s = rshape(rng)
        r = len(s)
        u = rng.random()
        if u < 0.2:                 # the rank-1 Identity branch
            return dict(shape=[rng.choice([0, 1, 2, 3, 5])], dtype=rdtype(rng), a=rng.choice([0, -1]), b=rng.choice([0, -1]))
        u = rng.random()
        if r >= 2 and u < 0.25:     # the Flatten(axis=1) branch
            return dict(shape=s, dtype=rdtype(rng), a=1, b=rng.choice([-1, r - 1]))
        if r >= 2 and u < 0.50:     # the Flatten(axis=end+1) branch
            return dict(shape=s, dtype=rdtype(rng), a=0, b=rng.choice([-2, r - 2]))
        return dict(shape=s, dtype=rdtype(rng), a=rdim(rng, r), b=rdim(rng, r))

    @staticmethod
    def line(c):
        return f"flatten {sh(c['shape'])} {c['a']} {c['b']}"

    @staticmethod
    def call(c):
        return [_x(c)], dict(start_dim=c["a"], end_dim=c["b"])

    @staticmethod
    def torch(c, t):
        return t.flatten(t.tensor(_x(c)), c["a"], c["b"])

    @staticmethod
    def branch(c):
        r = len(c["shape"])
        a, b = c["a"], c["b"]
        if r == 1:
            return "identity"
        if a == 1 and b in (-1, r - 1):
            return "Flatten(axis=1)"
        if a == 0 and b in (-2, r - 2):
            return "Flatten(axis=end+1)"
        return "reshape"


@fam("unflatten", "view", ["aten::unflatten.int"])
class _Unflatten:
    @staticmethod
    def gen(rng):
        s = rshape(rng, 1, 4)
        r = len(s)
        d = rdim(rng, r, 0.03)
        a = d % r if -r <= d < r else 0
        n = s[a]
        # factor n
        k = rng.randint(1, 3)
        sizes = []
        rem = n
        for _ in range(k - 1):
            divs = [x for x in range(1, rem + 1) if rem % x == 0] if rem > 0 else [0, 1, 2]
            f = rng.choice(divs)
            sizes.append(f)
            rem = rem // f if f else 0
        sizes.append(rem)
        rng.shuffle(sizes)
        if rng.random() < 0.3:
            sizes[rng.randrange(len(sizes))] = -1
        if rng.random() < 0.05:
            sizes[rng.randrange(len(sizes))] += 1
        return dict(shape=s, dtype=rdtype(rng, ("f32", "i64", "i32")), dim=d, sizes=sizes)

    @staticmethod
    def line(c):
        return f"unflatten {sh(c['shape'])} {c['dim']} {ints(c['sizes'])}"

    @staticmethod
    def call(c):
        return [_x(c), c["dim"], list(c["sizes"])], {}

    @staticmethod
    def torch(c, t):
        return t.unflatten(t.tensor(_x(c)), c["dim"], list(c["sizes"]))


def _gen_target(rng, s):
    """A reshape target for shape s: a re-factorisation, sometimes with -1, 0-size dims kept."""
    n = int(np.prod(s)) if s else 1
    k = rng.randint(0, 4)
    if n == 0:
        tgt = [rng.choice([0, 1, 2, 3]) for _ in range(max(k, 1))]
        if 0 not in tgt:
            tgt[rng.randrange(len(tgt))] = 0
    else:
        tgt = []
        rem = n
        for _ in range(max(k - 1, 0)):
            divs = [x for x in range(1, rem + 1) if rem % x == 0]
            f = rng.choice(divs)
            tgt.append(f)
            rem //= f
        if k > 0:
            tgt.append(rem)
        elif n != 1:
            tgt = [n]
        rng.shuffle(tgt)
    if tgt and rng.random() < 0.35:
        tgt[rng.randrange(len(tgt))] = -1
    if tgt and rng.random() < 0.06:
        tgt[rng.randrange(len(tgt))] += 1
    return tgt


@fam("view", "view", ["aten::view", "aten::_unsafe_view"])
class _View:
    @staticmethod
    def gen(rng):
        s = rshape(rng)
        return dict(shape=s, dtype=rdtype(rng), size=_gen_target(rng, s))

    @staticmethod
    def line(c):
        return f"view {sh(c['shape'])} {ints(c['size'])}"

    @staticmethod
    def call(c):
        return [_x(c), list(c["size"])], {}

    @staticmethod
    def torch(c, t):
        return t.tensor(_x(c)).view(list(c["size"]))


@fam("reshape", "view", ["aten::reshape"])
class _Reshape:
    gen = _View.gen

    @staticmethod
    def line(c):
        return f"reshape {sh(c['shape'])} {ints(c['size'])}"

    call = _View.call

    @staticmethod
    def torch(c, t):
        return t.reshape(t.tensor(_x(c)), list(c["size"]))


@fam("permute", "view", ["aten::permute"])
class _Permute:
    @staticmethod
    def gen(rng):
        s = rshape(rng)
        r = len(s)
        p = list(range(r))
        rng.shuffle(p)
        p = [x - r if rng.random() < 0.4 else x for x in p]
        if p and rng.random() < 0.05:
            p[rng.randrange(r)] = rng.choice([r, -r - 1, p[0]])
        return dict(shape=s, dtype=rdtype(rng), dims=p)

    @staticmethod
    def line(c):
        return f"permute {sh(c['shape'])} {ints(c['dims'])}"

    @staticmethod
    def call(c):
        return [_x(c), list(c["dims"])], {}

    @staticmethod
    def torch(c, t):
        return t.tensor(_x(c)).permute(list(c["dims"]))


@fam("transpose", "view", ["aten::transpose.int"])
class _Transpose:
    @staticmethod
    def gen(rng):
        s = rshape(rng)
        r = len(s)
        return dict(shape=s, dtype=rdtype(rng), a=rdim(rng, r), b=rdim(rng, r))

    @staticmethod
    def line(c):
        return f"transpose {sh(c['shape'])} {c['a']} {c['b']}"

    @staticmethod
    def call(c):
        return [_x(c), c["a"], c["b"]], {}

    @staticmethod
    def torch(c, t):
        return t.transpose(t.tensor(_x(c)), c["a"], c["b"])


@fam("t", "view", ["aten::t"])
class _T:
    @staticmethod
    def gen(rng):
        return dict(shape=rshape(rng, 0, 2), dtype=rdtype(rng))

    @staticmethod
    def line(c):
        return f"t {sh(c['shape'])}"

    @staticmethod
    def call(c):
        return [_x(c)], {}

    @staticmethod
    def torch(c, t):
        return t.t(t.tensor(_x(c)))


@fam("squeeze", "view", ["aten::squeeze"])
class _Squeeze:
    @staticmethod
    def gen(rng):
        return dict(shape=rshape(rng), dtype=rdtype(rng))

    @staticmethod
    def line(c):
        return f"squeeze {sh(c['shape'])}"

    @staticmethod
    def call(c):
        return [_x(c)], {}

    @staticmethod
    def torch(c, t):
        return t.squeeze(t.tensor(_x(c)))


@fam("squeeze_dim", "view", ["aten::squeeze.dim"])
class _SqueezeDim:
    @staticmethod
    def gen(rng):
        s = rshape(rng)
        return dict(shape=s, dtype=rdtype(rng), dim=rdim(rng, len(s)))

    @staticmethod
    def line(c):
        return f"squeeze_dim {sh(c['shape'])} {c['dim']}"

    @staticmethod
    def call(c):
        return [_x(c), c["dim"]], {}

    @staticmethod
    def torch(c, t):
        return t.squeeze(t.tensor(_x(c)), c["dim"])


@fam("unsqueeze", "view", ["aten::unsqueeze"])
class _Unsqueeze:
    @staticmethod
    def gen(rng):
        s = rshape(rng, 0, 3)
        return dict(shape=s, dtype=rdtype(rng), dim=rdim(rng, len(s) + 1))

    @staticmethod
    def line(c):
        return f"unsqueeze {sh(c['shape'])} {c['dim']}"

    @staticmethod
    def call(c):
        return [_x(c), c["dim"]], {}

    @staticmethod
    def torch(c, t):
        return t.unsqueeze(t.tensor(_x(c)), c["dim"])


def _gen_expand(rng, s, allow_neg1=True):
    extra = rng.randint(0, 2)
    size = [rng.choice([0, 1, 2, 3]) for _ in range(extra)]
    for d in s:
        r = rng.random()
        if allow_neg1 and r < 0.3:
            size.append(-1)
        elif d == 1 and r < 0.8:
            size.append(rng.choice([0, 1, 2, 3, 4]))
        elif r < 0.93:
            size.append(d)
        else:
            size.append(d + 1)
    if size and rng.random() < 0.03:
        size = size[1:]
    return size


@fam("expand", "view", ["aten::expand"])
class _Expand:
    @staticmethod
    def gen(rng):
        s = [rng.choice([1, 1, 2, 3, 0]) if rng.random() < 0.9 else 4 for _ in range(rng.randint(0, 3))]
        return dict(shape=s, dtype=rdtype(rng), size=_gen_expand(rng, s))

    @staticmethod
    def line(c):
        return f"expand {sh(c['shape'])} {ints(c['size'])}"

    @staticmethod
    def call(c):
        return [_x(c), list(c["size"])], {}

    @staticmethod
    def torch(c, t):
        return t.tensor(_x(c)).expand(list(c["size"]))


@fam("broadcast_to", "view", ["aten::broadcast_to"])
class _BroadcastTo:
    @staticmethod
    def gen(rng):
        s = [rng.choice([1, 1, 2, 3, 0]) for _ in range(rng.randint(0, 3))]
        return dict(shape=s, dtype=rdtype(rng), size=_gen_expand(rng, s, allow_neg1=rng.random() < 0.15))

    @staticmethod
    def line(c):
        return f"broadcast_to {sh(c['shape'])} {ints(c['size'])}"

    @staticmethod
    def call(c):
        return [_x(c), list(c["size"])], {}

    @staticmethod
    def torch(c, t):
        return t.broadcast_to(t.tensor(_x(c)), list(c["size"]))


# ---- slicing ----------------------------------------------------------------------------------

@fam("slice", "slice", ["aten::slice.Tensor"])
class _Slice:
    @staticmethod
    def gen(rng):
        s = rshape(rng, 1, 4)
        d = rdim(rng, len(s), 0.03)
        n = s[d % len(s)] if -len(s) <= d < len(s) else 3

        def bound():
            r = rng.random()
            if r < 0.2:
                return None
            if r < 0.27:
                return rng.choice([2**63 - 1, -(2**63), 100, -100])
            return rng.randint(-n - 2, n + 2)
        step = rng.choice([None, 1, 1, 2, 3, 7])
        if rng.random() < 0.06:
            return dict(shape=s, dtype=rdtype(rng), dim=d, start=None, end=None, step=None)
        return dict(shape=s, dtype=rdtype(rng), dim=d, start=bound(), end=bound(), step=step)

    @staticmethod
    def line(c):
        return f"slice {sh(c['shape'])} {c['dim']} {opt(c['start'])} {opt(c['end'])} {opt(c['step'])}"

    @staticmethod
    def call(c):
        return [_x(c), c["dim"], c["start"], c["end"], c["step"]], {}

    @staticmethod
    def torch(c, t):
        return t.ops.aten.slice.Tensor(t.tensor(_x(c)), c["dim"], c["start"], c["end"], 1 if c["step"] is None else c["step"])


@fam("narrow", "slice", ["aten::narrow"])
class _Narrow:
    @staticmethod
    def gen(rng):
        s = rshape(rng, 1, 4)
        d = rdim(rng, len(s), 0.03)
        n = s[d % len(s)] if -len(s) <= d < len(s) else 3
        start = rng.randint(-n - 1, n + 1)
        st = start + n if start < 0 else start
        length = rng.randint(0, max(n - st, 0)) if rng.random() < 0.9 else rng.randint(-1, n + 1)
        return dict(shape=s, dtype=rdtype(rng), dim=d, start=start, length=length, tensor_args=rng.random() < 0.3)

    @staticmethod
    def line(c):
        return f"narrow {sh(c['shape'])} {c['dim']} {c['start']} {c['length']} {int(bool(c.get('tensor_args')))}"

    @staticmethod
    def call(c):
        if c.get("tensor_args"):
            return [_x(c), np.array(c["dim"]), np.array(c["start"]), np.array(c["length"])], {}
        return [_x(c), c["dim"], c["start"], c["length"]], {}

    @staticmethod
    def torch(c, t):
        return t.narrow(t.tensor(_x(c)), c["dim"], c["start"], c["length"])


@fam("select", "slice", ["aten::select.int"])
class _Select:
    @staticmethod
    def gen(rng):
        s = rshape(rng, 1, 4)
        d = rdim(rng, len(s), 0.03)
        n = s[d % len(s)] if -len(s) <= d < len(s) else 3
        idx = rng.randint(-n, n - 1) if n > 0 and rng.random() < 0.92 else rng.choice([n, -n - 1])
        return dict(shape=s, dtype=rdtype(rng), dim=d, index=idx)

    @staticmethod
    def line(c):
        return f"select {sh(c['shape'])} {c['dim']} {c['index']}"

    @staticmethod
    def call(c):
        return [_x(c), c["dim"], c["index"]], {}

    @staticmethod
    def torch(c, t):
        return t.select(t.tensor(_x(c)), c["dim"], c["index"])


@fam("index_select", "slice", ["aten::index_select"])
class _IndexSelect:
    @staticmethod
    def gen(rng):
        s = rshape(rng, 0, 3, zero_p=0.05)
        r = len(s)
        d = rdim(rng, r, 0.03)
        n = (s[d % r] if -r <= d < r else 1) if r else 1
        scalar_idx = rng.random() < 0.15
        k = 1 if scalar_idx else rng.randint(0 if r else 1, 3)
        idx = [rng.randrange(n) if n > 0 else 0 for _ in range(k)]
        if n == 0:
            idx = []
            scalar_idx = False
        return dict(shape=s, dtype=rdtype(rng, ("f32", "i64", "i32")), dim=d, idx=idx, scalar_idx=scalar_idx,
                    idx_dtype=rng.choice(["i64", "i32"]))

    @staticmethod
    def line(c):
        return f"index_select {sh(c['shape'])} {c['dim']} {len(c['idx'])}"

    @staticmethod
    def _idx(c):
        a = np.array(c["idx"], dtype=NP[c["idx_dtype"]])
        return a.reshape(()) if c["scalar_idx"] else a

    @staticmethod
    def call(c):
        return [_x(c), c["dim"], _IndexSelect._idx(c)], {}

    @staticmethod
    def torch(c, t):
        return t.index_select(t.tensor(_x(c)), c["dim"], t.tensor(_IndexSelect._idx(c)))


@fam("chunk", "slice", ["aten::chunk"], outkind="list")
class _Chunk:
    @staticmethod
    def gen(rng):
        s = rshape(rng, 1, 3)
        return dict(shape=s, dtype=rdtype(rng, ("f32", "i64", "i32")), chunks=rng.choice([1, 2, 2, 3, 4, 5]), dim=rdim(rng, len(s), 0.03))

    @staticmethod
    def line(c):
        return f"chunk {sh(c['shape'])} {c['chunks']} {c['dim']}"

    @staticmethod
    def call(c):
        return [_x(c), c["chunks"], c["dim"]], {}

    @staticmethod
    def torch(c, t):
        return t.chunk(t.tensor(_x(c)), c["chunks"], c["dim"])


@fam("split", "slice", ["aten::split", "aten::split.Tensor"], outkind="seq")
class _Split:
    @staticmethod
    def gen(rng):
        s = rshape(rng, 1, 3)
        return dict(shape=s, dtype=rdtype(rng, ("f32", "i64", "i32")), size=rng.choice([1, 2, 2, 3, 4, 6]), dim=rdim(rng, len(s), 0.03))

    @staticmethod
    def line(c):
        return f"split {sh(c['shape'])} {c['size']} {c['dim']}"

    @staticmethod
    def call(c):
        return [_x(c), c["size"], c["dim"]], {}

    @staticmethod
    def torch(c, t):
        return t.split(t.tensor(_x(c)), c["size"], c["dim"])


@fam("split_with_sizes", "slice", ["aten::split_with_sizes"], outkind="seq")
class _SplitWithSizes:
    @staticmethod
    def gen(rng):
        s = rshape(rng, 1, 3)
        d = rdim(rng, len(s), 0.03)
        n = s[d % len(s)] if -len(s) <= d < len(s) else 3
        k = rng.randint(1, 3)
        cuts = sorted(rng.randint(0, n) for _ in range(k - 1))
        sizes = [b - a for a, b in zip([0] + cuts, cuts + [n])]
        if rng.random() < 0.05:
            sizes[-1] += 1
        return dict(shape=s, dtype=rdtype(rng, ("f32", "i64", "i32")), sizes=sizes, dim=d)

    @staticmethod
    def line(c):
        return f"split_with_sizes {sh(c['shape'])} {ints(c['sizes'])} {c['dim']}"

    @staticmethod
    def call(c):
        return [_x(c), list(c["sizes"]), c["dim"]], {}

    @staticmethod
    def torch(c, t):
        return t.split_with_sizes(t.tensor(_x(c)), list(c["sizes"]), c["dim"])


@fam("unbind", "slice", ["aten::unbind.int"], outkind="list")
class _Unbind:
    @staticmethod
    def gen(rng):
        s = rshape(rng, 1, 3)
        return dict(shape=s, dtype=rdtype(rng, ("f32", "i64", "i32")), dim=rdim(rng, len(s), 0.0))

    @staticmethod
    def line(c):
        return f"unbind {sh(c['shape'])} {c['dim']}"

    @staticmethod
    def call(c):
        return [_x(c), c["dim"]], {}

    @staticmethod
    def torch(c, t):
        return t.unbind(t.tensor(_x(c)), c["dim"])


@fam("flip", "slice", ["aten::flip"])
class _Flip:
    @staticmethod
    def gen(rng):
        s = rshape(rng)
        r = len(s)
        k = rng.randint(0, r)
        dims = rng.sample(range(r), k) if r else []
        dims = [d - r if rng.random() < 0.4 else d for d in dims]
        return dict(shape=s, dtype=rdtype(rng, ("f32", "i64", "i32")), dims=dims)

    @staticmethod
    def line(c):
        return f"flip {sh(c['shape'])} {ints(c['dims'])}"

    @staticmethod
    def call(c):
        return [_x(c), list(c["dims"])], {}

    @staticmethod
    def torch(c, t):
        return t.flip(t.tensor(_x(c)), list(c["dims"]))


@fam("roll", "slice", ["aten::roll"])
class _Roll:
    @staticmethod
    def gen(rng):
        s = rshape(rng, 0, 3)
        r = len(s)
        if r == 0 or rng.random() < 0.25:
            n = int(np.prod(s)) if s else 1
            return dict(shape=s, dtype=rdtype(rng, ("f32", "i64", "i32")), shifts=[rng.randint(-2 * n - 1, 3 * n + 1)], dims=[])
        k = rng.randint(1, min(r, 2))
        dims = rng.sample(range(r), k)
        shifts = [rng.randint(-2 * s[d] - 1, 3 * s[d] + 1) for d in dims]
        dims = [d - r if rng.random() < 0.4 else d for d in dims]
        return dict(shape=s, dtype=rdtype(rng, ("f32", "i64", "i32")), shifts=shifts, dims=dims)

    @staticmethod
    def line(c):
        return f"roll {sh(c['shape'])} {ints(c['shifts'])} {ints(c['dims'])}"

    @staticmethod
    def call(c):
        return [_x(c), list(c["shifts"]), list(c["dims"])], {}

    @staticmethod
    def torch(c, t):
        return t.roll(t.tensor(_x(c)), list(c["shifts"]), list(c["dims"]))


def _tri(name, upper):
    class _Tri:
        @staticmethod
        def gen(rng):
            s = rshape(rng, 2, 4, zero_p=0.06)
            return dict(shape=s, dtype=rdtype(rng, ("f32", "i64", "f16")), k=rng.randint(-s[-2] - 1, s[-1] + 1))

        @staticmethod
        def line(c):
            return f"{name} {sh(c['shape'])} {c['k']}"

        @staticmethod
        def call(c):
            return [_x(c) + 1, c["k"]], {}

        @staticmethod
        def torch(c, t):
            return getattr(t, name)(t.tensor(_x(c) + 1), c["k"])
    return _Tri


fam("tril", "slice", ["aten::tril"])(_tri("tril", False))
fam("triu", "slice", ["aten::triu"])(_tri("triu", True))


@fam("diagonal", "slice", ["aten::diagonal", "aten::diagonal_copy"])
class _Diagonal:
    @staticmethod
    def gen(rng):
        s = rshape(rng, 2, 4, zero_p=0.0)
        r = len(s)
        a, b = rng.sample(range(r), 2)
        a = a - r if rng.random() < 0.4 else a
        b = b - r if rng.random() < 0.4 else b
        return dict(shape=s, dtype=rdtype(rng, ("f32", "i64", "i32")), offset=rng.randint(-6, 6), d1=a, d2=b)

    @staticmethod
    def line(c):
        return f"diagonal {sh(c['shape'])} {c['offset']} {c['d1']} {c['d2']}"

    @staticmethod
    def call(c):
        return [_x(c), c["offset"], c["d1"], c["d2"]], {}

    @staticmethod
    def torch(c, t):
        return t.diagonal(t.tensor(_x(c)), c["offset"], c["d1"], c["d2"])


# ---- replication ------------------------------------------------------------------------------

@fam("repeat", "replication", ["aten::repeat"])
class _Repeat:
    @staticmethod
    def gen(rng):
        s = rshape(rng, 0, 3)
        n = len(s) + rng.choice([0, 0, 1, 2]) if rng.random() < 0.95 else max(len(s) - 1, 0)
        return dict(shape=s, dtype=rdtype(rng), reps=[rng.choice([0, 1, 1, 2, 3]) for _ in range(n)])

    @staticmethod
    def line(c):
        return f"repeat {sh(c['shape'])} {ints(c['reps'])}"

    @staticmethod
    def call(c):
        return [_x(c), list(c["reps"])], {}

    @staticmethod
    def torch(c, t):
        return t.tensor(_x(c)).repeat(list(c["reps"]))


@fam("tile", "replication", ["aten::tile"])
class _Tile:
    @staticmethod
    def gen(rng):
        s = rshape(rng, 0, 3)
        return dict(shape=s, dtype=rdtype(rng), dims=[rng.choice([0, 1, 1, 2, 3]) for _ in range(rng.randint(0, 4))])

    @staticmethod
    def line(c):
        return f"tile {sh(c['shape'])} {ints(c['dims'])}"

    @staticmethod
    def call(c):
        return [_x(c), list(c["dims"])], {}

    @staticmethod
    def torch(c, t):
        return t.tile(t.tensor(_x(c)), list(c["dims"]))


def _seq_line(name, c):
    return f"{name} {'/'.join(sh(s) for s in c['shapes'])} {c['dim']}"


@fam("stack", "replication", ["aten::stack"])
class _Stack:
    @staticmethod
    def gen(rng):
        s = rshape(rng, 0, 3)
        n = rng.randint(1, 3)
        shapes = [list(s) for _ in range(n)]
        if n > 1 and s and rng.random() < 0.05:
            shapes[1][0] += 1
        return dict(shapes=shapes, dtype=rdtype(rng), dim=rdim(rng, len(s) + 1))

    @staticmethod
    def line(c):
        return _seq_line("stack", c)

    @staticmethod
    def call(c):
        return [Seq([datai(s, c["dtype"], i) for i, s in enumerate(c["shapes"])]), c["dim"]], {}

    @staticmethod
    def torch(c, t):
        return t.stack([t.tensor(datai(s, c["dtype"], i)) for i, s in enumerate(c["shapes"])], c["dim"])


@fam("cat", "replication", ["aten::cat", "aten::concat", "aten::concatenate"])
class _Cat:
    @staticmethod
    def gen(rng):
        s = rshape(rng, 1, 3)
        r = len(s)
        d = rdim(rng, r, 0.03)
        a = d % r if -r <= d < r else 0
        n = rng.randint(1, 3)
        shapes = []
        for _ in range(n):
            t = list(s)
            t[a] = rng.choice([0, 1, 2, 3])
            shapes.append(t)
        if n > 1 and r > 1 and rng.random() < 0.04:
            shapes[0][(a + 1) % r] += 1
        if rng.random() < 0.25:
            shapes.insert(rng.randrange(len(shapes) + 1), [0])   # the legacy empty tensor
        return dict(shapes=shapes, dtype=rdtype(rng), dim=d)

    @staticmethod
    def line(c):
        return _seq_line("cat", c)

    @staticmethod
    def call(c):
        return [Seq([datai(s, c["dtype"], i) for i, s in enumerate(c["shapes"])])], dict(dim=c["dim"])

    @staticmethod
    def torch(c, t):
        return t.cat([t.tensor(datai(s, c["dtype"], i)) for i, s in enumerate(c["shapes"])], c["dim"])


# ---- reductions -------------------------------------------------------------------------------

def _gen_dims(rng, r, allow_empty=True):
    if r == 0:
        return rng.choice([[], [0], [-1]]) if allow_empty else [rng.choice([0, -1])]
    k = rng.randint(0 if allow_empty else 1, r)
    ds = rng.sample(range(r), k)
    ds = [d - r if rng.random() < 0.4 else d for d in ds]
    if rng.random() < 0.03:
        ds.append(rng.choice([r, -r - 1]))
    return ds


def _reduce(name, fnname, overloads, tfn, dtypes, has_none=False, fixed_kw=None):
    class _R:
        @staticmethod
        def gen(rng):
            s = rshape(rng)
            dims = _gen_dims(rng, len(s))
            if has_none and rng.random() < 0.2:
                dims = None
            return _maybe_cast(rng, name, dict(shape=s, dtype=rdtype(rng, dtypes), dims=dims, keep=rng.random() < 0.5))

        @staticmethod
        def line(c):
            return f"{name} {sh(c['shape'])} {'N' if c['dims'] is None else ints(c['dims'])} {int(c['keep'])}" + \
                (f" {opt(c.get('cast'))}" if name in CAST_FAMS else "")

        @staticmethod
        def call(c):
            return [_xc(c), (None if c["dims"] is None else list(c["dims"])), c["keep"]], _cast_kw(c)

        @staticmethod
        def torch(c, t):
            return tfn(t, t.tensor(_xc(c)), c["dims"], c["keep"], **_cast_tkw(c, t))
    _R.fnname = fnname
    return fam(name, "reduction", overloads)(_R)


_reduce("sum_dim", "aten_sum_dim_IntList", ["aten::sum.dim_IntList"],
        lambda t, x, d, k, **kw: t.sum(x, dim=d, keepdim=k, **kw), ("f32", "i64", "f16"), has_none=True)
_reduce("mean_dim", "aten_mean_dim", ["aten::mean.dim"],
        lambda t, x, d, k, **kw: t.mean(x, dim=d, keepdim=k, **kw), ("f32",))
_reduce("amax", "aten_amax", ["aten::amax"], lambda t, x, d, k: t.amax(x, dim=d, keepdim=k), ("f32", "i64", "i32"))
_reduce("amin", "aten_amin", ["aten::amin"], lambda t, x, d, k: t.amin(x, dim=d, keepdim=k), ("f32", "i64", "i32"))
_reduce("all_dims", "aten_all_dims", ["aten::all.dims"], lambda t, x, d, k: t.ops.aten.all.dims(x, d, k), ("f32", "i64", "bool"), has_none=True)
_reduce("any_dims", "aten_any_dims", ["aten::any.dims"], lambda t, x, d, k: t.ops.aten.any.dims(x, d, k), ("f32", "i64", "bool"), has_none=True)


def _reduce1(name, fnname, overloads, tfn, dtypes, optional_dim=False):
    class _R:
        @staticmethod
        def gen(rng):
            s = rshape(rng, zero_p=0.06)
            d = rdim(rng, len(s))
            if optional_dim and rng.random() < 0.3:
                d = None
            return _maybe_cast(rng, name, dict(shape=s, dtype=rdtype(rng, dtypes), dim=d, keep=rng.random() < 0.5, small=(name == "prod_dim")))

        @staticmethod
        def line(c):
            return f"{name} {sh(c['shape'])} {opt(c['dim'])} {int(c['keep'])}" + (f" {opt(c.get('cast'))}" if name in CAST_FAMS else "")

        @staticmethod
        def call(c):
            return [_xc(c), c["dim"], c["keep"]], _cast_kw(c)

        @staticmethod
        def torch(c, t):
            return tfn(t, t.tensor(_xc(c)), c["dim"], c["keep"], **_cast_tkw(c, t))
    _R.fnname = fnname
    return fam(name, "reduction", overloads)(_R)


_reduce1("all_dim", "aten_all_dim", ["aten::all.dim"], lambda t, x, d, k: t.all(x, dim=d, keepdim=k), ("f32", "i64", "bool"))
_reduce1("any_dim", "aten_any_dim", ["aten::any.dim"], lambda t, x, d, k: t.any(x, dim=d, keepdim=k), ("f32", "i64", "bool"))
_reduce1("argmax", "aten_argmax", ["aten::argmax"], lambda t, x, d, k: t.argmax(x, dim=d, keepdim=k), ("f32", "i64", "i32"), optional_dim=True)
_reduce1("argmin", "aten_argmin", ["aten::argmin"], lambda t, x, d, k: t.argmin(x, dim=d, keepdim=k), ("f32", "i64", "i32"), optional_dim=True)
_reduce1("prod_dim", "aten_prod_dim_int", ["aten::prod.dim_int"], lambda t, x, d, k, **kw: t.prod(x, dim=d, keepdim=k, **kw), ("f32", "i64"))


def _reduce0(name, fnname, overloads, tfn, dtypes):
    class _R:
        @staticmethod
        def gen(rng):
            return _maybe_cast(rng, name, dict(shape=rshape(rng), dtype=rdtype(rng, dtypes), small=(name == "prod")))

        @staticmethod
        def line(c):
            if name == "prod":
                return f"prod {sh(c['shape'])} {int(c['dtype'] in ('i64', 'i32', 'u8'))} {opt(c.get('cast'))} ."
            return f"{name} {sh(c['shape'])}" + (f" {opt(c.get('cast'))}" if name in CAST_FAMS else "")

        @staticmethod
        def call(c):
            return [_xc(c)], _cast_kw(c)

        @staticmethod
        def torch(c, t):
            return tfn(t, t.tensor(_xc(c)), **_cast_tkw(c, t))
    _R.fnname = fnname
    return fam(name, "reduction", overloads)(_R)


_reduce0("sum", "aten_sum", ["aten::sum"], lambda t, x, **kw: t.sum(x, **kw), ("f32", "i64", "f16"))
_reduce0("all", "aten_all", ["aten::all"], lambda t, x: t.all(x), ("f32", "i64", "bool"))
_reduce0("any", "aten_any", ["aten::any"], lambda t, x: t.any(x), ("f32", "i64", "bool"))
_reduce0("prod", "aten_prod", ["aten::prod"], lambda t, x, **kw: t.prod(x, **kw), ("f32", "i64"))


@fam("cumsum", "reduction", ["aten::cumsum"])
class _Cumsum:
    @staticmethod
    def gen(rng):
        s = rshape(rng)
        c = dict(shape=s, dtype=rdtype(rng, ("f32", "i64", "i64", "i32")), dim=rdim(rng, len(s)), cast=None)
        if rng.random() < 0.35:
            # dtype= : the input is cast before accumulating (float halves -> int64 shows the order)
            c["dtype"], c["cast"] = ("f32", 7) if rng.random() < 0.6 else (c["dtype"], rng.choice([1, 11, 7]))
        return c

    @staticmethod
    def line(c):
        return f"cumsum {sh(c['shape'])} {c['dim']} {opt(c.get('cast'))} ."

    @staticmethod
    def _data(c):
        x = _x(c)
        return np.asarray((x / np.float32(2)).astype(x.dtype)) if c["dtype"] == "f32" else x     # halves: 0, .5, 1, 1.5 …

    @staticmethod
    def call(c):
        return [_Cumsum._data(c), c["dim"]], ({} if c.get("cast") is None else {"dtype": c["cast"]})

    @staticmethod
    def torch(c, t):
        dt = {None: None, 1: t.float32, 7: t.int64, 11: t.float64}[c.get("cast")]
        return t.cumsum(t.tensor(_Cumsum._data(c)), c["dim"], dtype=dt)

    @staticmethod
    def branch(c):
        return ("rank0" if not c["shape"] else "cumsum") + (":cast" if c.get("cast") else "")


# ---- pool / conv / pad attribute adjustment -------------------------------------------------------

def il(a):
    """driver token of an int-or-list argument"""
    return f"i{a}" if isinstance(a, int) else ints(a)


def fdata(shape):
    n = int(np.prod(shape)) if len(shape) else 1
    return np.asarray((((np.arange(n) * 7) % 11) / 3.0 - 1.0).astype(np.float32).reshape(shape))


def _variant(rng, vals, allow_int=True):
    """a k-tuple given as list / int (if all equal) / 1-element list (if all equal)"""
    if len(set(vals)) == 1:
        u = rng.random()
        if allow_int and u < 0.25:
            return vals[0]
        if u < 0.4:
            return [vals[0]]
    return list(vals)


def _gen_pool(rng, k, with_dil):
    sp = [rng.randint(3, 8) for _ in range(k)]
    dil = [rng.choice([1, 1, 2]) for _ in range(k)] if with_dil else [1] * k
    ks = [rng.randint(1, 4) for _ in range(k)]
    for i in range(k):
        while (ks[i] - 1) * dil[i] + 1 > sp[i] + 2:
            ks[i] -= 1
            if ks[i] < 1:
                ks[i], dil[i] = 1, 1
    if k == 3:
        ks = [min(ks[i], sp[i]) for i in range(k)]
    pad = [rng.randint(0, ks[i] // 2) for i in range(k)]
    if rng.random() < 0.04:
        pad[0] += 2                      # beyond half the kernel: PyTorch refuses
    if rng.random() < 0.3:
        pad = [pad[0]] * k
    st = [rng.randint(1, 3) for _ in range(k)]
    stv = [] if rng.random() < 0.2 else _variant(rng, st)
    batched = rng.random() < 0.7
    shape = ([rng.choice([1, 2])] if batched else []) + [rng.choice([1, 2, 3])] + sp
    return dict(k=k, shape=shape, dtype="f32", ks=_variant(rng, ks), st=stv, pad=_variant(rng, pad),
                dil=_variant(rng, dil), ceil=rng.random() < 0.4, cip=rng.random() < 0.5)


def _avg(k):
    class _A:
        fnname = f"aten_avg_pool{k}d"

        @staticmethod
        def gen(rng):
            return _gen_pool(rng, k, False)

        @staticmethod
        def line(c):
            return f"avg_pool {k} {sh(c['shape'])} {il(c['ks'])} {il(c['st'])} {il(c['pad'])} {int(c['ceil'])} {int(c['cip'])}"

        @staticmethod
        def call(c):
            return [fdata(c["shape"]), c["ks"], c["st"], c["pad"], c["ceil"], c["cip"]], {}

        @staticmethod
        def torch(c, t):
            f = getattr(t.nn.functional, f"avg_pool{k}d")
            return f(t.tensor(fdata(c["shape"])), c["ks"], c["st"] if c["st"] != [] else None, c["pad"], c["ceil"], c["cip"])

        @staticmethod
        def branch(c):
            p = c["pad"]
            return "pad:int" if isinstance(p, int) else f"pad:len{len(p)}" + ("" if len(set(p)) == 1 else ":asym")
    return _A


for _k in (1, 2, 3):
    fam(f"avg_pool{_k}d", "attr", [f"aten::avg_pool{_k}d"])(_avg(_k))


def _max(k, wi):
    class _M:
        fnname = f"aten_max_pool{k}d" + ("_with_indices" if wi else "")

        @staticmethod
        def gen(rng):
            c = _gen_pool(rng, k, True)
            c["wi"] = wi
            if wi and len(c["shape"]) == k + 1:
                c["shape"] = [1] + c["shape"]
            return c

        @staticmethod
        def line(c):
            return (f"max_pool {k} {sh(c['shape'])} {il(c['ks'])} {il(c['st'])} {il(c['pad'])} {il(c['dil'])} "
                    f"{int(c['ceil'])} {int(wi)}")

        @staticmethod
        def call(c):
            return [fdata(c["shape"]), c["ks"], c["st"], c["pad"], c["dil"], c["ceil"]], {}

        @staticmethod
        def torch(c, t):
            f = getattr(t.nn.functional, f"max_pool{k}d")
            return f(t.tensor(fdata(c["shape"])), c["ks"], c["st"] if c["st"] != [] else None, c["pad"], c["dil"], c["ceil"],
                     return_indices=wi)

        @staticmethod
        def branch(c):
            p = c["pad"]
            return "pad:int" if isinstance(p, int) else f"pad:len{len(p)}" + ("" if len(set(p)) == 1 else ":asym")
    return _M


for _k in (1, 2, 3):
    fam(f"max_pool{_k}d", "attr", [f"aten::max_pool{_k}d"])(_max(_k, False))
fam("max_pool2d_with_indices", "attr", ["aten::max_pool2d_with_indices"], outkind="list")(_max(2, True))
fam("max_pool3d_with_indices", "attr", ["aten::max_pool3d_with_indices"], outkind="list")(_max(3, True))


def _gen_conv(rng, allow_transposed, allow_len1, k=None):
    k = k if k is not None else rng.choice([1, 2, 2, 3]) if allow_len1 else 2
    g = rng.choice([1, 1, 2])
    cg, og = rng.choice([1, 2]), rng.choice([1, 2])
    tr = allow_transposed and rng.random() < 0.35
    sp = [rng.randint(3, 7) for _ in range(k)]
    dil = [rng.choice([1, 1, 2]) for _ in range(k)]
    kern = [rng.randint(1, 3) for _ in range(k)]
    for i in range(k):
        while (kern[i] - 1) * dil[i] + 1 > sp[i]:
            kern[i] -= 1
            if kern[i] < 1:
                kern[i], dil[i] = 1, 1
    pad = [rng.randint(0, 2) for _ in range(k)]
    st = [rng.randint(1, 3) for _ in range(k)]
    op = [rng.randint(0, st[i] - 1) for i in range(k)] if tr else [0] * k
    if tr:
        for i in range(k):   # keep the transposed output non-empty
            while (sp[i] - 1) * st[i] - 2 * pad[i] + dil[i] * (kern[i] - 1) + op[i] + 1 < 1:
                pad[i] -= 1
    shape = [rng.choice([1, 2]), g * cg] + sp
    w = ([g * cg, og] if tr else [g * og, cg]) + kern
    var = (lambda v: _variant(rng, v, allow_int=False)) if allow_len1 else list
    return dict(shape=shape, dtype="f32", w=w, st=var(st), pad=var(pad), dil=var(dil), tr=tr, op=op, g=g, k=k,
                nout=g * og)


def _conv_line(c):
    return (f"conv {sh(c['shape'])} {sh(c['w'])} {il(c['st'])} {il(c['pad'])} {il(c['dil'])} {int(c['tr'])} "
            f"{ints(c['op'])} {c['g']}")


def _conv_torch(c, t):
    F = t.nn.functional
    x, w, b = t.tensor(fdata(c["shape"])), t.tensor(fdata(c["w"])), t.tensor(fdata([c["nout"]]))
    st, pad, dil = (tuple(v) if isinstance(v, list) else v for v in (c["st"], c["pad"], c["dil"]))
    if c["tr"]:
        return getattr(F, f"conv_transpose{c['k']}d")(x, w, b, st, pad, tuple(c["op"]), c["g"], dil)
    return getattr(F, f"conv{c['k']}d")(x, w, b, st, pad, dil, c["g"])


@fam("convolution", "attr", ["aten::convolution"])
class _Convolution:
    fnname = "aten_convolution"

    @staticmethod
    def gen(rng):
        return _gen_conv(rng, True, True)

    line = staticmethod(_conv_line)

    @staticmethod
    def call(c):
        return [fdata(c["shape"]), fdata(c["w"]), fdata([c["nout"]]), c["st"], c["pad"], c["dil"], c["tr"], c["op"], c["g"]], {}

    torch = staticmethod(_conv_torch)

    @staticmethod
    def branch(c):
        return ("transposed" if c["tr"] else "conv") + f":{c['k']}d:" + ("len1" if len(c["pad"]) == 1 and c["k"] > 1 else "full") \
            + ("" if len(set(c["pad"])) <= 1 else ":asym")


def _convnd(k):
    class _C:
        fnname = f"aten_conv{k}d"

        @staticmethod
        def gen(rng):
            c = _gen_conv(rng, False, False, k=k)
            c["bias"] = rng.random() < 0.6
            return c

        @staticmethod
        def line(c):
            return (f"convnd {sh(c['shape'])} {sh(c['w'])} {int(c['bias'])} {ints(c['st'])} {ints(c['pad'])} {ints(c['dil'])} {c['g']}")

        @staticmethod
        def call(c):
            return [fdata(c["shape"]), fdata(c["w"]), (fdata([c["nout"]]) if c["bias"] else None), c["st"], c["pad"], c["dil"], c["g"]], {}

        @staticmethod
        def torch(c, t):
            x, w = t.tensor(fdata(c["shape"])), t.tensor(fdata(c["w"]))
            b = t.tensor(fdata([c["nout"]])) if c["bias"] else None
            return getattr(t.nn.functional, f"conv{k}d")(x, w, b, tuple(c["st"]), tuple(c["pad"]), tuple(c["dil"]), c["g"])

        @staticmethod
        def branch(c):
            return "bias" if c["bias"] else "no-bias"
    return _C


for _k in (1, 2, 3):
    fam(f"conv{_k}d", "attr", [f"aten::conv{_k}d"])(_convnd(_k))


def _gen_pad(rng, mode):
    if mode == "constant":
        r = rng.randint(1, 4)
        s = [rng.randint(2, 5) for _ in range(r)]
        m = rng.randint(0, r)
        p = []
        for j in range(m):
            d = s[r - 1 - j]
            p += [rng.randint(-(d // 2) if rng.random() < 0.25 else 0, 3), rng.randint(0, 3)]
        return dict(shape=s, dtype="f32", pad=p, mode=mode)
    nd = rng.choice([1, 2])
    r = nd + rng.choice([1, 2])
    s = [rng.randint(3, 5) for _ in range(r)]
    return dict(shape=s, dtype="f32", pad=[rng.randint(0, 2) for _ in range(2 * nd)], mode=mode)


_ONNX_MODE = {"reflect": "reflect", "replicate": "edge", "circular": "wrap"}


def _pad_line(c, kind=None):
    if kind == "c":
        return f"pad {sh(c['shape'])} {ints(c['pad'])} c 1.5:FLOAT"
    if c["mode"] == "constant":
        return f"pad {sh(c['shape'])} {ints(c['pad'])} n -"
    return f"pad {sh(c['shape'])} {ints(c['pad'])} m {_ONNX_MODE[c['mode']]}"


@fam("constant_pad_nd", "attr", ["aten::constant_pad_nd"])
class _ConstPad:
    fnname = "aten_constant_pad_nd"

    @staticmethod
    def gen(rng):
        return _gen_pad(rng, "constant")

    @staticmethod
    def line(c):
        return _pad_line(c, "c")

    @staticmethod
    def call(c):
        return [fdata(c["shape"]), list(c["pad"]), 1.5], {}

    @staticmethod
    def torch(c, t):
        return t.nn.functional.pad(t.tensor(fdata(c["shape"])), tuple(c["pad"]), value=1.5)


@fam("pad", "attr", ["aten::pad"])
class _Pad:
    fnname = "aten_pad"

    @staticmethod
    def gen(rng):
        return _gen_pad(rng, rng.choice(["constant", "reflect", "replicate", "circular"]))

    line = staticmethod(_pad_line)

    @staticmethod
    def call(c):
        return [fdata(c["shape"]), list(c["pad"]), c["mode"]], {}

    @staticmethod
    def torch(c, t):
        return t.nn.functional.pad(t.tensor(fdata(c["shape"])), tuple(c["pad"]), mode=c["mode"])

    @staticmethod
    def branch(c):
        return "mode:" + c["mode"]


def _modepad(name, fnname, mode, nd):
    class _P:
        @staticmethod
        def gen(rng):
            r = nd + rng.choice([1, 2])
            s = [rng.randint(3, 5) for _ in range(r)]
            return dict(shape=s, dtype="f32", pad=[rng.randint(0, 2) for _ in range(2 * nd)], mode=mode)

        line = staticmethod(_pad_line)

        @staticmethod
        def call(c):
            return [fdata(c["shape"]), list(c["pad"])], {}

        @staticmethod
        def torch(c, t):
            return t.nn.functional.pad(t.tensor(fdata(c["shape"])), tuple(c["pad"]), mode=mode)
    _P.fnname = fnname
    return fam(name, "attr", ["aten::" + name])(_P)


_modepad("reflection_pad1d", "aten_reflection_pad1d", "reflect", 1)
_modepad("reflection_pad2d", "aten_reflection_pad2d", "reflect", 2)
_modepad("replication_pad2d", "aten_replication_pad2d", "replicate", 2)


# ---- second attribute-helper family: unfold, upsample, col2im, im2col ----------------------------

@fam("unfold", "attr", ["aten::unfold"])
class _Unfold:
    @staticmethod
    def gen(rng):
        if rng.random() < 0.06:
            return dict(shape=[], dtype="f32", dim=rng.choice([0, -1]), size=rng.choice([0, 1, 1]), step=1)
        s = rshape(rng, 1, 3, zero_p=0.0)
        r = len(s)
        d = rdim(rng, r, 0.03)
        n = s[d % r] if -r <= d < r else 3
        size = rng.randint(0, n) if rng.random() < 0.93 else n + 1
        return dict(shape=s, dtype="f32", dim=d, size=size, step=rng.choice([1, 1, 2, 3, 5]))

    @staticmethod
    def line(c):
        return f"unfold {sh(c['shape'])} {c['dim']} {c['size']} {c['step']}"

    @staticmethod
    def call(c):
        return [fdata(c["shape"]), c["dim"], c["size"], c["step"]], {}

    @staticmethod
    def torch(c, t):
        return t.tensor(fdata(c["shape"])).unfold(c["dim"], c["size"], c["step"])


def _scale_f(n):
    return n / 2.0


def _ups(name, fnname, k, mode, linear):
    class _U:
        @staticmethod
        def gen(rng):
            sp = [rng.randint(1, 5) for _ in range(k)]
            shape = [rng.choice([1, 2]), rng.choice([1, 2, 3])] + sp
            use_scales = rng.random() < 0.5
            if use_scales:
                sc = [rng.choice([1, 2, 3, 4, 5]) for _ in range(k)]
                out = [max((sp[i] * sc[i]) // 2, 0) for i in range(k)]
                if any(o == 0 for o in out):
                    sc = [max(x, 2) for x in sc]
                    out = [(sp[i] * sc[i]) // 2 for i in range(k)]
            else:
                sc = None
                out = [rng.randint(1, 9) for _ in range(k)]
            ac = linear and rng.random() < 0.5
            ctm = ("align_corners" if ac else "half_pixel") if linear else "asymmetric"
            return dict(shape=shape, dtype="f32", out=out, sc=sc, mode=mode, ctm=ctm, ac=ac, k=k)

        @staticmethod
        def line(c):
            # aten_upsample_bilinear2d ignores scales_h / scales_w (see the NOTE in nn.py): always the output_size path
            sc = None if linear else c["sc"]
            return f"upsample {sh(c['shape'])} {ints(c['out'])} {'N' if sc is None else ints(sc)} {c['mode']} {c['ctm']}"

        @staticmethod
        def call(c):
            scs = [None] * k if c["sc"] is None else [_scale_f(x) for x in c["sc"]]
            if linear:
                return [fdata(c["shape"]), list(c["out"]), c["ac"], *scs], {}
            return [fdata(c["shape"]), list(c["out"]), *scs], {}

        @staticmethod
        def torch(c, t):
            scs = [None] * k if c["sc"] is None else [_scale_f(x) for x in c["sc"]]
            op_ = getattr(t.ops.aten, name).default
            if linear:
                return op_(t.tensor(fdata(c["shape"])), list(c["out"]), c["ac"], *scs)
            return op_(t.tensor(fdata(c["shape"])), list(c["out"]), *scs)

        @staticmethod
        def branch(c):
            return "scales" if c["sc"] is not None else "output_size"
    _U.fnname = fnname
    return fam(name, "attr", ["aten::" + name])(_U)


_ups("upsample_nearest1d", "aten_upsample_nearest1d", 1, "nearest", False)
_ups("upsample_nearest2d", "aten_upsample_nearest2d", 2, "nearest", False)
_ups("upsample_nearest3d", "aten_upsample_nearest3d", 3, "nearest", False)
_ups("upsample_bilinear2d", "aten_upsample_bilinear2d", 2, "linear", True)


def _gen_fold(rng):
    kern = [rng.randint(1, 3), rng.randint(1, 3)]
    dil = [rng.choice([1, 1, 2]), rng.choice([1, 1, 2])]
    pad = [rng.randint(0, 2), rng.randint(0, 2)]
    st = [rng.randint(1, 3), rng.randint(1, 3)]
    hw = [rng.randint(3, 7), rng.randint(3, 7)]
    for i in range(2):
        while hw[i] + 2 * pad[i] - dil[i] * (kern[i] - 1) - 1 < 0:
            hw[i] += 1
    blocks = [(hw[i] + 2 * pad[i] - dil[i] * (kern[i] - 1) - 1) // st[i] + 1 for i in range(2)]
    return kern, dil, pad, st, hw, blocks


@fam("col2im", "attr", ["aten::col2im"])
class _Col2Im:
    @staticmethod
    def gen(rng):
        kern, dil, pad, st, hw, blocks = _gen_fold(rng)
        ch = rng.choice([1, 2])
        return dict(shape=[rng.choice([1, 2]), ch * kern[0] * kern[1], blocks[0] * blocks[1]], dtype="f32",
                    out=hw, ks=kern, dil=dil, pad=pad, st=st)

    @staticmethod
    def line(c):
        return f"col2im {sh(c['shape'])} {ints(c['out'])} {ints(c['ks'])} {ints(c['dil'])} {ints(c['pad'])} {ints(c['st'])}"

    @staticmethod
    def call(c):
        return [fdata(c["shape"]), list(c["out"]), list(c["ks"]), list(c["dil"]), list(c["pad"]), list(c["st"])], {}

    @staticmethod
    def torch(c, t):
        return t.nn.functional.fold(t.tensor(fdata(c["shape"])), tuple(c["out"]), tuple(c["ks"]), tuple(c["dil"]),
                                    tuple(c["pad"]), tuple(c["st"]))

    @staticmethod
    def branch(c):
        return "pad:asym" if c["pad"][0] != c["pad"][1] else "pad:sym"


@fam("im2col", "attr", ["aten::im2col"])
class _Im2Col:
    @staticmethod
    def gen(rng):
        kern, dil, pad, st, hw, blocks = _gen_fold(rng)
        return dict(shape=[rng.choice([1, 2]), rng.choice([1, 2])] + hw, dtype="f32", ks=kern, dil=dil, pad=pad, st=st)

    @staticmethod
    def line(c):
        return f"im2col {sh(c['shape'])} {ints(c['ks'])} {ints(c['dil'])} {ints(c['pad'])} {ints(c['st'])}"

    @staticmethod
    def call(c):
        return [fdata(c["shape"]), list(c["ks"]), list(c["dil"]), list(c["pad"]), list(c["st"])], {}

    @staticmethod
    def torch(c, t):
        return t.nn.functional.unfold(t.tensor(fdata(c["shape"])), tuple(c["ks"]), tuple(c["dil"]), tuple(c["pad"]), tuple(c["st"]))


# ---- gather / scatter / repeat_interleave / atleast / topk -----------------------------------------

@fam("gather", "slice", ["aten::gather"])
class _Gather:
    @staticmethod
    def gen(rng):
        u = rng.random()
        if u < 0.1:
            return dict(shape=[], dtype="f32", dim=rng.choice([0, -1]), idx_shape=[], idx=[0])
        s = rshape(rng, 1, 3, zero_p=0.0)
        r = len(s)
        d = rdim(rng, r, 0.03)
        a = d % r if -r <= d < r else 0
        if r == 1 and u < 0.25:
            return dict(shape=s, dtype="f32", dim=d, idx_shape=[], idx=[rng.randrange(s[0])])
        ish = [rng.randint(1, s[i]) if i != a else rng.randint(1, 4) for i in range(r)]
        if rng.random() < 0.04:
            ish[(a + 1) % r] = s[(a + 1) % r] + 1
        n = int(np.prod(ish))
        return dict(shape=s, dtype=rdtype(rng, ("f32", "i64")), dim=d, idx_shape=ish,
                    idx=[rng.randrange(-s[a], s[a]) for _ in range(n)])

    @staticmethod
    def line(c):
        return f"gather {sh(c['shape'])} {sh(c['idx_shape'])} {c['dim']} ."

    @staticmethod
    def _idx(c):
        return np.asarray(np.array(c["idx"], dtype=np.int64).reshape(c["idx_shape"]))

    @staticmethod
    def call(c):
        return [_x(c), c["dim"], _Gather._idx(c)], {}

    @staticmethod
    def torch(c, t):
        idx = _Gather._idx(c)
        d = c["shape"][c["dim"] % len(c["shape"])] if c["shape"] and -len(c["shape"]) <= c["dim"] < len(c["shape"]) else 1
        return t.gather(t.tensor(_x(c)), c["dim"], t.tensor(np.where(idx < 0, idx + d, idx)))


@fam("repeat_interleave", "replication", ["aten::repeat_interleave.self_int"])
class _RepeatInterleave:
    fnname = "aten_repeat_interleave_self_int"

    @staticmethod
    def gen(rng):
        s = rshape(rng, 1, 3, zero_p=0.04)
        d = None if rng.random() < 0.25 else rdim(rng, len(s), 0.0)
        return dict(shape=s, dtype=rdtype(rng, ("f32", "i64", "i32")), reps=rng.choice([0, 1, 2, 3]), dim=d)

    @staticmethod
    def line(c):
        return f"repeat_interleave {sh(c['shape'])} {c['reps']} {opt(c['dim'])} ."

    @staticmethod
    def call(c):
        return [_x(c), c["reps"], c["dim"]], {}

    @staticmethod
    def torch(c, t):
        return t.repeat_interleave(t.tensor(_x(c)), c["reps"], c["dim"])


@fam("select_scatter", "slice", ["aten::select_scatter"])
class _SelectScatter:
    @staticmethod
    def gen(rng):
        s = rshape(rng, 1, 3, zero_p=0.0)
        r = len(s)
        d = rdim(rng, r, 0.0)
        a = d % r
        return dict(shape=s, dtype=rdtype(rng, ("f32", "i64")), dim=d, index=rng.randint(-s[a], s[a] - 1),
                    src=[x for i, x in enumerate(s) if i != a])

    @staticmethod
    def line(c):
        return f"select_scatter {sh(c['shape'])} {sh(c['src'])} {c['dim']} {c['index']}"

    @staticmethod
    def call(c):
        return [_x(c), np.asarray(data(c["src"], c["dtype"]) + 50), c["dim"], c["index"]], {}

    @staticmethod
    def torch(c, t):
        return t.select_scatter(t.tensor(_x(c)), t.tensor(np.asarray(data(c["src"], c["dtype"]) + 50)), c["dim"], c["index"])


@fam("slice_scatter", "slice", ["aten::slice_scatter"])
class _SliceScatter:
    @staticmethod
    def gen(rng):
        s = rshape(rng, 1, 3, zero_p=0.0)
        r = len(s)
        d = rdim(rng, r, 0.0)
        a = d % r
        n = s[a]

        def bound():
            return None if rng.random() < 0.25 else rng.randint(-n - 1, n + 1)
        start, end, step = bound(), bound(), rng.choice([1, 1, 2, 3])
        idx = list(range(n))[slice(start, end, step)]
        src = list(s)
        src[a] = len(idx)
        return dict(shape=s, dtype=rdtype(rng, ("f32", "i64")), dim=d, start=start, end=end, step=step, src=src)

    @staticmethod
    def line(c):
        return f"slice_scatter {sh(c['shape'])} {sh(c['src'])} {c['dim']} {opt(c['start'])} {opt(c['end'])} {c['step']}"

    @staticmethod
    def call(c):
        return [_x(c), np.asarray(data(c["src"], c["dtype"]) + 50), c["dim"], c["start"], c["end"], c["step"]], {}

    @staticmethod
    def torch(c, t):
        return t.slice_scatter(t.tensor(_x(c)), t.tensor(np.asarray(data(c["src"], c["dtype"]) + 50)), c["dim"], c["start"], c["end"], c["step"])


def _atleast(n):
    class _A:
        fnname = f"aten_atleast_{n}d"

        @staticmethod
        def gen(rng):
            return dict(shape=rshape(rng, 0, 4), dtype=rdtype(rng))

        @staticmethod
        def line(c):
            return f"atleast {n} {sh(c['shape'])}"

        @staticmethod
        def call(c):
            return [_x(c)], {}

        @staticmethod
        def torch(c, t):
            return getattr(t, f"atleast_{n}d")(t.tensor(_x(c)))
    return _A


for _n in (1, 2, 3):
    fam(f"atleast_{_n}d", "view", [f"aten::atleast_{_n}d"])(_atleast(_n))


@fam("topk", "reduction", ["aten::topk"], outkind="list")
class _TopK:
    @staticmethod
    def gen(rng):
        s = rshape(rng, 1, 3, zero_p=0.0)
        d = rdim(rng, len(s), 0.03)
        n = s[d % len(s)] if -len(s) <= d < len(s) else 2
        return dict(shape=s, dtype="f32", k=rng.randint(0, n) if rng.random() < 0.95 else n + 1, dim=d,
                    largest=rng.random() < 0.5, sorted=True)

    @staticmethod
    def line(c):
        return f"topk {sh(c['shape'])} {c['k']} {c['dim']} {int(c['largest'])} {int(c['sorted'])}"

    @staticmethod
    def call(c):
        n = int(np.prod(c["shape"]))
        x = np.asarray(((np.arange(n) * 7919) % 1009).astype(np.float32).reshape(c["shape"]))   # distinct values
        return [x, c["k"], c["dim"], c["largest"], c["sorted"]], {}

    @staticmethod
    def torch(c, t):
        n = int(np.prod(c["shape"]))
        x = np.asarray(((np.arange(n) * 7919) % 1009).astype(np.float32).reshape(c["shape"]))
        return t.topk(t.tensor(x), c["k"], c["dim"], c["largest"], c["sorted"])


# ---- matmul family / max.dim / logsumexp / embedding / scatter / pixel shuffle ---------------------------

def _mm_small(shape, i):
    n = int(np.prod(shape)) if len(shape) else 1
    return np.asarray(((np.arange(n) + i) % 5 - 2).astype(np.float32).reshape(shape))


def _matmul_fam(name, fnname, overloads, gen, tfn):
    class _M:
        @staticmethod
        def line(c):
            return f"matmul {name} {sh(c['shape'])} {sh(c['other'])}"

        @staticmethod
        def call(c):
            return [_mm_small(c["shape"], 0), _mm_small(c["other"], 1)], {}

        @staticmethod
        def torch(c, t):
            return tfn(t, t.tensor(_mm_small(c["shape"], 0)), t.tensor(_mm_small(c["other"], 1)))
    _M.gen = staticmethod(gen)
    _M.fnname = fnname
    return fam(name, "linalg", overloads)(_M)


def _dimv(rng, zero_p=0.05):
    return 0 if rng.random() < zero_p else rng.choice([1, 2, 3, 4])


def _gen_mm(rng):
    # inner size K = 0: onnxruntime's MatMul leaves the output uninitialised (runtime defect, seen on [1,0]·[1,3,0,4]); K > 0 everywhere
    m, k, n = _dimv(rng), _dimv(rng, 0.0), _dimv(rng)
    k2 = k if rng.random() < 0.93 else k + 1
    return dict(shape=[m, k], other=[k2, n], dtype="f32")


def _gen_bmm(rng):
    b, m, k, n = _dimv(rng), _dimv(rng), _dimv(rng, 0.0), _dimv(rng)
    return dict(shape=[b, m, k], other=[b if rng.random() < 0.95 else b + 1, k if rng.random() < 0.95 else k + 1, n], dtype="f32")


def _gen_mv(rng):
    # onnxruntime's MatMul refuses [0, K] x [K] (matmul_helper) and returns uninitialised memory for [M, 0] x [0]
    # (runtime defects, not torch_lib's): no zero sizes when an operand is 1-D
    m, k = _dimv(rng, 0.0), _dimv(rng, 0.0)
    return dict(shape=[m, k], other=[k if rng.random() < 0.93 else k + 1], dtype="f32")


def _gen_dot(rng):
    k = _dimv(rng, 0.0)
    return dict(shape=[k], other=[k if rng.random() < 0.93 else k + 1], dtype="f32")


def _gen_matmul(rng):
    k = _dimv(rng, 0.0)
    ra, rb = rng.choice([1, 1, 2, 2, 3, 4]), rng.choice([1, 1, 2, 2, 3, 4])
    nb = max(ra, rb) - 2
    batch = [rng.choice([1, 2, 3]) for _ in range(max(nb, 0))]

    def mk(r, is_a):
        if r == 1:
            return [k]
        core = [_dimv(rng, 0.03), k] if is_a else [k, _dimv(rng, 0.03)]
        bt = batch[len(batch) - (r - 2):] if r > 2 else []
        bt = [1 if rng.random() < 0.25 else d for d in bt]
        return bt + core
    a, b = mk(ra, True), mk(rb, False)
    if (ra == 1 or rb == 1) and 0 in a + b:
        a, b = [d or 2 for d in a], [d or 2 for d in b]      # same onnxruntime limitation as in _gen_mv
    u = rng.random()
    if u < 0.04:
        b[0 if len(b) == 1 else -2] += 1          # inner mismatch
    elif u < 0.08 and len(a) > 2 and len(b) > 2:
        a[0] = a[0] + 1 if a[0] != 1 else 4       # batch mismatch (maybe)
    elif u < 0.10:
        a = []                                     # 0-d operand
    return dict(shape=a, other=b, dtype="f32")


_matmul_fam("mm", "aten_mm", ["aten::mm"], _gen_mm, lambda t, a, b: t.mm(a, b))
_matmul_fam("bmm", "aten_bmm", ["aten::bmm"], _gen_bmm, lambda t, a, b: t.bmm(a, b))
_matmul_fam("mv", "aten_mv", ["aten::mv"], _gen_mv, lambda t, a, b: t.mv(a, b))
_matmul_fam("dot", "aten_dot", ["aten::dot"], _gen_dot, lambda t, a, b: t.dot(a, b))
_matmul_fam("matmul", "aten_matmul", ["aten::matmul"], _gen_matmul, lambda t, a, b: t.matmul(a, b))


def _distinct(shape):
    n = int(np.prod(shape)) if len(shape) else 1
    return np.asarray(((np.arange(n) * 7919) % 1009).astype(np.float32).reshape(shape))


def _maxmin_dim(name, fnname, overload, tfn):
    class _MD:
        @staticmethod
        def gen(rng):
            s = rshape(rng, 0, 3, zero_p=0.05)
            return dict(shape=s, dtype="f32", dim=rdim(rng, len(s), 0.04), keep=rng.random() < 0.5)

        @staticmethod
        def line(c):
            return f"maxmin_dim {name} {sh(c['shape'])} {c['dim']} {int(c['keep'])}"

        @staticmethod
        def call(c):
            return [_distinct(c["shape"]), c["dim"], c["keep"]], {}

        @staticmethod
        def torch(c, t):
            return tuple(tfn(t, t.tensor(_distinct(c["shape"])), c["dim"], c["keep"]))
    _MD.fnname = fnname
    return fam(name, "reduction", [overload], outkind="list")(_MD)


_maxmin_dim("max_dim", "aten_max_dim", "aten::max.dim", lambda t, x, d, k: t.max(x, d, k))
_maxmin_dim("min_dim", "aten_min_dim", "aten::min.dim", lambda t, x, d, k: t.min(x, d, k))


@fam("logsumexp", "reduction", ["aten::logsumexp"])
class _LogSumExp:
    @staticmethod
    def gen(rng):
        s = rshape(rng, 0, 3, zero_p=0.04)
        return dict(shape=s, dtype="f32", dims=_gen_dims(rng, len(s), allow_empty=False), keep=rng.random() < 0.5)

    @staticmethod
    def line(c):
        return f"logsumexp {sh(c['shape'])} {ints(c['dims'])} {int(c['keep'])}"

    @staticmethod
    def call(c):
        return [_mm_small(c["shape"], 0), list(c["dims"]), c["keep"]], {}

    @staticmethod
    def torch(c, t):
        return t.logsumexp(t.tensor(_mm_small(c["shape"], 0)), c["dims"], c["keep"])


@fam("logcumsumexp", "reduction", ["aten::logcumsumexp"])
class _LogCumSumExp:
    @staticmethod
    def gen(rng):
        s = rshape(rng, 0, 3, zero_p=0.0)
        return dict(shape=s, dtype="f32", dim=rdim(rng, len(s), 0.04))

    @staticmethod
    def line(c):
        return f"logcumsumexp {sh(c['shape'])} {c['dim']}"

    @staticmethod
    def call(c):
        return [_mm_small(c["shape"], 0), c["dim"]], {}

    @staticmethod
    def torch(c, t):
        return t.logcumsumexp(t.tensor(_mm_small(c["shape"], 0)), c["dim"])


@fam("embedding", "slice", ["aten::embedding"])
class _Embedding:
    @staticmethod
    def gen(rng):
        v, d = rng.choice([1, 2, 3, 5]), rng.choice([0, 1, 2, 4]) if rng.random() < 0.2 else rng.choice([1, 2, 4])
        ish = rshape(rng, 0, 3, zero_p=0.05)
        n = int(np.prod(ish)) if ish else 1
        return dict(shape=[v, d], dtype="f32", idx_shape=ish, idx=[rng.randrange(v) for _ in range(n)])

    @staticmethod
    def line(c):
        return f"embedding {sh(c['shape'])} {sh(c['idx_shape'])}"

    @staticmethod
    def call(c):
        return [_x(c), np.asarray(np.array(c["idx"], dtype=np.int64).reshape(c["idx_shape"]))], {}

    @staticmethod
    def torch(c, t):
        return t.ops.aten.embedding(t.tensor(_x(c)), t.tensor(np.array(c["idx"], dtype=np.int64).reshape(c["idx_shape"])))


def _scatter(name, fnname, overload, tfn):
    class _S:
        @staticmethod
        def gen(rng):
            s = rshape(rng, 1, 3, zero_p=0.0)
            r = len(s)
            d = rdim(rng, r, 0.03)
            a = d % r if -r <= d < r else 0
            if name == "scatter_src" and rng.random() < 0.08:
                n = rng.choice([1, 2, 4])
                return dict(shape=[n], dtype="f32", dim=rng.choice([0, -1]), idx_shape=[], idx=[rng.randrange(n)], src=[])
            ish = [rng.randint(1, s[i]) for i in range(r)]
            u = rng.random()
            src = list(ish)
            if u < 0.15:
                j = rng.randrange(r)
                src[j] += rng.choice([1, 2])          # torch allows src larger than index
            elif u < 0.19:
                j = (a + 1) % r
                ish[j] = s[j] + 1                     # index larger than self off the axis
                src = list(ish)
            n = int(np.prod(ish))
            # distinct targets along the axis (scatter with duplicates is nondeterministic in PyTorch)
            idx = np.zeros(ish, dtype=np.int64)
            for pos in np.ndindex(*ish):
                idx[pos] = pos[a] % s[a]
            if ish[a] <= s[a] and rng.random() < 0.5:
                idx = (s[a] - 1 - idx)                # reversed
            if rng.random() < 0.3:
                idx = np.where(idx % 2 == 0, idx, idx - s[a]) if name != "scatter_neg" else idx
            return dict(shape=s, dtype=rdtype(rng, ("f32", "i64")), dim=d, idx_shape=ish, idx=[int(v) for v in idx.reshape(-1)],
                        src=src)

        @staticmethod
        def line(c):
            return f"scatter {name} {sh(c['shape'])} {sh(c['idx_shape'])} {sh(c['src'])} {c['dim']}"

        @staticmethod
        def _idx(c):
            return np.asarray(np.array(c["idx"], dtype=np.int64).reshape(c["idx_shape"]))

        @staticmethod
        def call(c):
            return [_x(c), c["dim"], _S._idx(c), datai(c["src"], c["dtype"], 50)], {}

        @staticmethod
        def torch(c, t):
            idx = _S._idx(c)
            r = len(c["shape"])
            d = c["shape"][c["dim"] % r] if -r <= c["dim"] < r else 1
            return tfn(t, t.tensor(_x(c)), c["dim"], t.tensor(np.where(idx < 0, idx + d, idx)), t.tensor(datai(c["src"], c["dtype"], 50)))
    _S.fnname = fnname
    return fam(name, "slice", [overload])(_S)


_scatter("scatter_src", "aten_scatter_src", "aten::scatter.src", lambda t, x, d, i, s: t.scatter(x, d, i, s))
_scatter("scatter_add", "aten_scatter_add", "aten::scatter_add", lambda t, x, d, i, s: t.scatter_add(x, d, i, s))


def _pixel(name, fnname, overload, tfn, up):
    class _P:
        @staticmethod
        def gen(rng):
            r = rng.choice([1, 2, 2, 3])
            c, h, w = rng.choice([1, 2, 3]), rng.choice([1, 2, 3]), rng.choice([1, 2])
            rank = rng.choice([3, 4, 4, 5, 5, 6])
            batch = [rng.choice([1, 2, 3]) for _ in range(rank - 3)]
            if up:
                chw = [c * r * r, h, w]
                if rng.random() < 0.06:
                    chw[0] += 1
            else:
                chw = [c, h * r, w * r]
                if rng.random() < 0.06:
                    chw[rng.choice([1, 2])] += 1
            if up and rng.random() < 0.05:
                # (pixel_unshuffle: PyTorch's CPU kernel returns an empty input unchanged — the meta kernel and the graph agree
                #  on [*, C·r², H/r, W/r] — so empty tensors are not generated for it)
                (batch if batch and rng.random() < 0.5 else chw)[0] = 0
            if rng.random() < 0.03:
                batch, chw = [], chw[1:]                     # rank 2: PyTorch refuses
            return dict(shape=batch + chw, dtype=("f32" if up else rdtype(rng, ("f32", "i64"))), factor=r)

        @staticmethod
        def line(c):
            return f"{name} {sh(c['shape'])} {c['factor']}"

        @staticmethod
        def call(c):
            return [_x(c), c["factor"]], {}

        @staticmethod
        def torch(c, t):
            return tfn(t, t.tensor(_x(c)), c["factor"])
    _P.fnname = fnname
    return fam(name, "view", [overload])(_P)


_pixel("pixel_shuffle", "aten_pixel_shuffle", "aten::pixel_shuffle", lambda t, x, r: t.pixel_shuffle(x, r), True)
_pixel("pixel_unshuffle", "aten_pixel_unshuffle", "aten::pixel_unshuffle", lambda t, x, r: t.pixel_unshuffle(x, r), False)


# ---- softmax family / linear -------------------------------------------------------------------------

def _softmax_fam(name, fnname, overloads, kind):
    class _S:
        @staticmethod
        def gen(rng):
            s = rshape(rng, 0, 3, zero_p=0.0)
            c = dict(shape=s, dtype="f32", dim=rdim(rng, len(s), 0.04), cast_in=False, cast_out=None)
            u = rng.random()
            if kind == 0 and u < 0.3:
                c["cast_out"] = 11                     # dtype=torch.float64
            elif kind != 0 and u < 0.5:
                c["dtype"] = "f16"
                c["cast_in"] = u < 0.3                 # half_to_float
            return c

        @staticmethod
        def line(c):
            return f"softmax {kind} {sh(c['shape'])} {c['dim']} {int(c['cast_in'])} {opt(c['cast_out'])}"

        @staticmethod
        def _data(c):
            return np.asarray(_mm_small(c["shape"], 0).astype(NP[c["dtype"]]))

        @staticmethod
        def call(c):
            if kind == 0:
                return [_S._data(c), c["dim"]], ({} if c["cast_out"] is None else {"dtype": c["cast_out"]})
            return [_S._data(c), c["dim"], c["cast_in"]], {}

        @staticmethod
        def torch(c, t):
            x = t.tensor(_S._data(c))
            if kind == 0:
                return t.softmax(x, c["dim"], dtype=(None if c["cast_out"] is None else t.float64))
            if c["cast_in"]:
                # half_to_float is CUDA-only in eager; its meaning is "softmax of the float32 copy"
                return (t._softmax if kind == 1 else t._log_softmax)(x.float(), c["dim"], False)
            return (t._softmax if kind == 1 else t._log_softmax)(x, c["dim"], False)

        @staticmethod
        def branch(c):
            return ("rank0" if not c["shape"] else "rank>0") + (":cast-in" if c["cast_in"] else "") + (":cast-out" if c["cast_out"] else "")
    _S.fnname = fnname
    return fam(name, "reduction", overloads)(_S)


_softmax_fam("softmax", "aten_softmax", ["aten::softmax.int", "aten::special_softmax"], 0)
_softmax_fam("_softmax", "aten__softmax", ["aten::_softmax"], 1)
_softmax_fam("_log_softmax", "aten__log_softmax", ["aten::_log_softmax"], 2)


@fam("linear", "linalg", ["aten::linear"])
class _Linear:
    @staticmethod
    def gen(rng):
        inn, out = rng.choice([1, 2, 3]), rng.choice([1, 2, 3])
        lead = [rng.choice([1, 2, 3]) for _ in range(rng.choice([0, 1, 1, 2, 3]))]
        u = rng.random()
        w, b = [out, inn], ([out] if u < 0.55 else None)
        if u > 0.85:
            w, b = [inn], None
        if rng.random() < 0.05:
            w[-1] += 1
        return dict(shape=lead + [inn], dtype="f32", w=w, bias=b)

    @staticmethod
    def line(c):
        return f"linear {sh(c['shape'])} {sh(c['w'])} {'N' if c['bias'] is None else sh(c['bias'])} ."

    @staticmethod
    def call(c):
        return [_mm_small(c["shape"], 0), _mm_small(c["w"], 1)] + ([] if c["bias"] is None else [_mm_small(c["bias"], 2)]), {}

    @staticmethod
    def torch(c, t):
        return t.nn.functional.linear(t.tensor(_mm_small(c["shape"], 0)), t.tensor(_mm_small(c["w"], 1)),
                                      None if c["bias"] is None else t.tensor(_mm_small(c["bias"], 2)))

    @staticmethod
    def branch(c):
        if len(c["shape"]) == 2 and len(c["w"]) == 2:
            return "gemm" + (":bias" if c["bias"] else "")
        return "weight1d" if len(c["w"]) == 1 else "matmul" + (":bias" if c["bias"] else "")


@fam("vector_norm", "reduction", ["aten::linalg_vector_norm"])
class _VectorNorm:
    fnname = "aten_linalg_vector_norm"

    @staticmethod
    def gen(rng):
        s = rshape(rng, 0, 3, zero_p=0.0)
        dims = None if rng.random() < 0.3 else _gen_dims(rng, len(s), allow_empty=False)
        return dict(shape=s, dtype="f32", ord=rng.choice(["inf", "-inf", 0, 1, 2, 2, 4, -1, -2]), dims=dims, keep=rng.random() < 0.5)

    @staticmethod
    def line(c):
        return f"vector_norm {c['ord']} {sh(c['shape'])} {'N' if c['dims'] is None else ints(c['dims'])} {int(c['keep'])}"

    @staticmethod
    def _ord(c):
        return float(c["ord"]) if isinstance(c["ord"], str) else c["ord"]

    @staticmethod
    def _data(c):
        return np.asarray(_mm_small(c["shape"], 1) + np.float32(0.25))     # no zeros: negative orders divide

    @staticmethod
    def call(c):
        return [_VectorNorm._data(c), _VectorNorm._ord(c), (None if c["dims"] is None else list(c["dims"])), c["keep"]], {}

    @staticmethod
    def torch(c, t):
        return t.linalg.vector_norm(t.tensor(_VectorNorm._data(c)), _VectorNorm._ord(c), c["dims"], c["keep"])

    @staticmethod
    def branch(c):
        o = c["ord"]
        return ("no-dim" if c["dims"] is None else "dims") + ":" + ("inf" if o in ("inf", "-inf") else f"ord{o}" if o in (0, 1, 2) else "pow-abs" if o < 0 or o % 2 else "pow")


# ---- branch classification of the modelled trace-time code (printed into the evidence; a required counter
# ---- that stays at zero in a run is an infrastructure failure, never a silent pass) -----------------

def _prod(s):
    n = 1
    for d in s:
        n *= d
    return n


def _axis_size(c, key="dim"):
    s = c["shape"]
    d = c[key]
    if not s or not (-len(s) <= d < len(s)):
        return None
    return s[d % len(s)]


def _chunk_branch(c):
    if c["chunks"] == 1:
        return "identity"
    d = _axis_size(c)
    if d is None:
        return "bad-dim"
    n = c["chunks"]
    size = -(-d // n)
    pieces = n if size == 0 else -(-d // size)
    return "slices" if (pieces != n or d == 0) else "split"


def _roll_branch(c):
    s = c["shape"]
    if not s:
        return "rank0"
    if s[0] == 0:
        return "dim0-empty"
    if not c["dims"]:
        return "no-dims"
    return f"dims{len(c['dims'])}" + (":neg-dim" if any(d < 0 for d in c["dims"]) else "")


def _roll_shift(c):
    s = c["shape"]
    if not s or s[0] == 0:
        return None
    sizes = [_prod(s)] if not c["dims"] else [s[d % len(s)] for d in c["dims"] if -len(s) <= d < len(s)]
    for sh_, n in zip(c["shifts"], sizes):
        if n > 0 and not (0 <= sh_ < n):
            return "shift-needs-mod"
    return "shift-in-range"


def _cat_branch(c):
    others = [s for s in c["shapes"] if s != [0]]
    e = len(c["shapes"]) - len(others)
    if not others:
        return "all-empty"
    return ("identity" if len(others) == 1 else "concat") + (":legacy-empty" if e else "")


def _unflatten_branch(c):
    s = c["shape"]
    r = len(s)
    d = c["dim"]
    if not (-r <= d < r):
        return "bad-dim"
    a = d % r
    pos = "head-empty" if a == 0 else "tail-empty" if a == r - 1 else "middle"
    return pos + (":infer" if -1 in c["sizes"] else "")


BRANCHES = {
    "chunk": [_chunk_branch],
    "roll": [_roll_branch, _roll_shift],
    "narrow": [lambda c: ("tensor-args" if c.get("tensor_args") else "int-args") + (":neg-start" if c["start"] < 0 else "")],
    "unflatten": [_unflatten_branch],
    "cat": [_cat_branch],
    "argmax": [lambda c: ("rank0:" if not c["shape"] else "") + ("no-dim" if c["dim"] is None else "dim") + (":keep" if c["keep"] else "")],
    "argmin": [lambda c: ("rank0:" if not c["shape"] else "") + ("no-dim" if c["dim"] is None else "dim") + (":keep" if c["keep"] else "")],
    "all_dims": [lambda c: "None" if c["dims"] is None else "empty-list" if not c["dims"] else "list" + ("" if c["keep"] else ":squeeze")],
    "any_dims": [lambda c: "None" if c["dims"] is None else "empty-list" if not c["dims"] else "list" + ("" if c["keep"] else ":squeeze")],
    "sum_dim": [lambda c: "rank0" if not c["shape"] else "None" if c["dims"] is None else "list"],
    "tile": [lambda c: "rank>dims" if len(c["shape"]) > len(c["dims"]) else "rank<dims" if len(c["shape"]) < len(c["dims"]) else "equal"],
    "repeat": [lambda c: "no-repeats" if not c["reps"] else "repeats"],
    "split": [lambda c: "empty-dim" if _axis_size(c) == 0 else "split"],
    "squeeze_dim": [lambda c: "rank0" if not c["shape"] else "squeeze"],
    "index_select": [lambda c: "rank0" if not c["shape"] else "scalar-index" if c["scalar_idx"] else "vector-index"],
    "t": [lambda c: f"rank{len(c['shape'])}"],
    "transpose": [lambda c: "rank0" if not c["shape"] else "swap"],
    "permute": [lambda c: "no-dims" if not c["dims"] else "dims"],
    "flip": [lambda c: "no-dims" if not c["dims"] else "dims"],
    "slice": [lambda c: "start:" + ("None" if c["start"] is None else "given") + ",end:" + ("None" if c["end"] is None else "given")
              + ",step:" + ("None" if c["step"] is None else "given")],
    "slice_scatter": [lambda c: "dim0" if c["dim"] == 0 else "transposed"],
    "gather": [lambda c: "self0d" if not c["shape"] else "index0d" if not c["idx_shape"] else "general"],
    "atleast_1d": [lambda c: "reshape" if len(c["shape"]) == 0 else "identity"],
    "atleast_2d": [lambda c: "reshape" if len(c["shape"]) <= 1 else "identity"],
    "atleast_3d": [lambda c: "reshape" if len(c["shape"]) <= 1 else "unsqueeze" if len(c["shape"]) == 2 else "identity"],
    "repeat_interleave": [lambda c: "no-dim" if c["dim"] is None else "dim"],
    "unfold": [lambda c: "rank0" if not c["shape"] else "window"],
    "expand": [lambda c: ("keep(-1)" if -1 in c["size"] else "explicit") + (":new-leading" if len(c["size"]) > len(c["shape"]) else "")],
    "cumsum": [lambda c: "rank0" if not c["shape"] else "cumsum"],
    "sum": [lambda c: "rank0" if not c["shape"] else "reduce"],
    "all": [lambda c: "rank0" if not c["shape"] else "reduce"],
    "any": [lambda c: "rank0" if not c["shape"] else "reduce"],
    "mean_dim": [lambda c: "rank0" if not c["shape"] else "reduce"],
    "convolution": [lambda c: "transposed" if c["tr"] else "conv"],
}

# every key listed here must be hit at least once per run (quick tier included)
REQUIRED = [
    "chunk:identity", "chunk:split", "chunk:slices", "roll:rank0", "roll:no-dims", "roll:dims1", "roll:dims2:neg-dim",
    "roll:shift-needs-mod", "roll:shift-in-range", "narrow:tensor-args", "narrow:int-args:neg-start", "narrow:tensor-args:neg-start",
    "unflatten:head-empty", "unflatten:tail-empty", "unflatten:middle", "unflatten:middle:infer",
    "cat:identity", "cat:concat", "cat:concat:legacy-empty", "cat:all-empty",
    "argmax:no-dim", "argmax:no-dim:keep", "argmax:dim", "argmax:dim:keep", "argmax:rank0:dim",
    "all_dims:None", "all_dims:empty-list", "all_dims:list", "all_dims:list:squeeze",
    "sum_dim:rank0", "sum_dim:None", "sum_dim:list", "tile:rank>dims", "tile:rank<dims", "tile:equal", "repeat:no-repeats",
    "split:empty-dim", "split:split", "squeeze_dim:rank0", "index_select:rank0", "index_select:scalar-index",
    "t:rank0", "t:rank1", "t:rank2", "transpose:rank0", "permute:no-dims", "flip:no-dims", "slice_scatter:dim0",
    "slice_scatter:transposed", "gather:self0d", "gather:index0d", "gather:general",
    "atleast_1d:reshape", "atleast_2d:reshape", "atleast_3d:reshape", "atleast_3d:unsqueeze", "atleast_3d:identity",
    "repeat_interleave:no-dim", "repeat_interleave:dim", "expand:keep(-1)", "expand:explicit:new-leading",
    "cumsum:rank0", "sum:rank0", "all:rank0", "any:rank0", "convolution:transposed", "convolution:conv",
    "slice:start:None,end:None,step:None", "unfold:rank0", "unfold:window",
]


# ---- scalar promotion bookkeeping and creation (trace-time operator choice; values by onnxruntime vs torch) -----

_DC = {"f32": "f32", "i64": "i64", "bool": "bool"}


def _half(dc, n2):
    return (n2 / 2.0) if dc == "f32" else (n2 // 2)


def _bpair(rng):
    s = [rng.choice([1, 2, 3]) for _ in range(rng.randint(0, 3))]
    o = [d if rng.random() < 0.6 else 1 for d in s][rng.randint(0, len(s)):] if s else []
    return s, o


def _addsub(name, fnname, is_add, scalar):
    class _A:
        @staticmethod
        def gen(rng):
            dc = rng.choice(["f32", "i64"] + (["bool"] if is_add and not scalar else []))
            s, o = _bpair(rng)
            if not scalar and rng.random() < 0.3:
                s, o = o, s          # `other` carries the larger shape
            if dc == "bool":
                alpha2 = rng.choice([2, 2, 0])
            elif dc == "i64":
                alpha2 = rng.choice([2, 2, 4, 6, -4, 0])
            else:
                alpha2 = rng.choice([2, 2, 4, 1, -3, 5])
            other2 = rng.choice([6, 2, -4, 3]) if dc == "f32" else rng.choice([6, 2, -4])
            return dict(shape=s, other=([] if scalar else o), dtype=dc, dtype2=dc, alpha2=alpha2, other2=other2)

        @staticmethod
        def line(c):
            return (f"addsub {int(is_add)} {c['dtype2']} {'S' if scalar else 'T'} {sh(c['shape'])} {sh(c['other'])} "
                    f"{c['alpha2']} {c['other2']}")

        @staticmethod
        def _args(c):
            x = data(c["shape"], c["dtype"])
            al = _half(c["dtype2"], c["alpha2"]) if c["dtype2"] != "bool" else bool(c["alpha2"])
            if scalar:
                return x, _half(c["dtype2"], c["other2"]), al
            return x, np.asarray(data(c["other"], c["dtype"]) if c["dtype"] == "bool" else (data(c["other"], c["dtype"]) + 1).astype(NP[c["dtype"]])), al

        @staticmethod
        def call(c):
            x, o, al = _A._args(c)
            return [x, o], {"alpha": al}

        @staticmethod
        def torch(c, t):
            x, o, al = _A._args(c)
            f = t.add if is_add else t.sub
            return f(t.tensor(x), o if scalar else t.tensor(o), alpha=al)

        @staticmethod
        def branch(c):
            return ("bool:" + ("or-masked" if c["alpha2"] == 0 else "or")) if c["dtype2"] == "bool" else \
                ("alpha1" if c["alpha2"] == 2 else "alpha-mul")
    _A.fnname = fnname
    return fam(name, "scalar", ["aten::" + name.replace("_scalar", ".Scalar") if scalar else "aten::" + name + ".Tensor"])(_A)


_addsub("add", "aten_add", True, False)
_addsub("sub", "aten_sub", False, False)
_addsub("add_scalar", "aten_add_scalar", True, True)
_addsub("sub_scalar", "aten_sub_scalar", False, True)


@fam("clamp", "scalar", ["aten::clamp"])
class _Clamp:
    @staticmethod
    def gen(rng):
        dc = rng.choice(["f32", "i64"])
        s, _ = _bpair(rng)
        step = 1 if dc == "f32" else 2
        lo2 = None if rng.random() < 0.35 else rng.choice([-4, -2, 0, 2]) if dc == "i64" else rng.choice([-3, -1, 0, 1])
        hi2 = None if rng.random() < 0.35 else rng.choice([-2, 0, 2, 6]) if dc == "i64" else rng.choice([-1, 1, 3, 5])
        return dict(shape=s, dtype=dc, dtype2=dc, lo2=lo2, hi2=hi2)

    @staticmethod
    def line(c):
        return f"clamp {c['dtype2']} {sh(c['shape'])} {opt(c['lo2'])} {opt(c['hi2'])}"

    @staticmethod
    def _b(c):
        lo = None if c["lo2"] is None else _half(c["dtype2"], c["lo2"])
        hi = None if c["hi2"] is None else _half(c["dtype2"], c["hi2"])
        return lo, hi

    @staticmethod
    def call(c):
        lo, hi = _Clamp._b(c)
        return [data(c["shape"], c["dtype"], "signed"), lo, hi], {}

    @staticmethod
    def torch(c, t):
        lo, hi = _Clamp._b(c)
        x = t.tensor(data(c["shape"], c["dtype"], "signed"))
        return x.clone() if lo is None and hi is None else t.clamp(x, lo, hi)

    @staticmethod
    def branch(c):
        return ("lo" if c["lo2"] is not None else "") + ("hi" if c["hi2"] is not None else "") or "none"


@fam("clamp_tensor", "scalar", ["aten::clamp.Tensor"])
class _ClampTensor:
    @staticmethod
    def gen(rng):
        s, o = _bpair(rng)
        lo = None if rng.random() < 0.35 else o
        hi = None if rng.random() < 0.35 else (o if rng.random() < 0.5 else [])
        return dict(shape=s, dtype=rng.choice(["f32", "i64"]), lo=lo, hi=hi)

    @staticmethod
    def line(c):
        return f"clamp_tensor {sh(c['shape'])} {'_' if c['lo'] is None else sh(c['lo'])} {'_' if c['hi'] is None else sh(c['hi'])} ."

    @staticmethod
    def _args(c):
        x = data(c["shape"], c["dtype"], "signed")
        lo = None if c["lo"] is None else np.asarray((data(c["lo"], c["dtype"]) - 1).astype(NP[c["dtype"]]))
        hi = None if c["hi"] is None else np.asarray((data(c["hi"], c["dtype"]) + 1).astype(NP[c["dtype"]]))
        return x, lo, hi

    @staticmethod
    def call(c):
        x, lo, hi = _ClampTensor._args(c)
        return [x, lo, hi], {}

    @staticmethod
    def torch(c, t):
        x, lo, hi = _ClampTensor._args(c)
        if lo is None and hi is None:
            return t.tensor(x)
        return t.clamp(t.tensor(x), None if lo is None else t.tensor(lo), None if hi is None else t.tensor(hi))

    @staticmethod
    def branch(c):
        return ("lo" if c["lo"] is not None else "") + ("hi" if c["hi"] is not None else "") or "none"


_TDT = {"f32": "float32", "i64": "int64", "bool": "bool"}
_ODT = {"f32": 1, "i64": 7, "bool": 9}


def _create(kind, fnname, overload):
    class _C:
        @staticmethod
        def gen(rng):
            size = [rng.choice([0, 1, 2, 3]) for _ in range(rng.randint(0, 3))]
            cdt = rng.choice([None, "f32", "i64"])
            if kind == "zeros" and cdt is None:
                cdt = None
            return dict(shape=size, size=size, dtype=rng.choice(["f32", "i64"]), cdt=cdt)

        @staticmethod
        def line(c):
            return f"create {kind} {ints(c['size'])} {'N' if c['cdt'] is None else c['cdt']} ."

        @staticmethod
        def call(c):
            kw = {} if c["cdt"] is None else {"dtype": _ODT[c["cdt"]]}
            x = data(c["size"] if kind.endswith("_like") else [2], c["dtype"])
            if kind == "full":
                return [list(c["size"]), 1.5], kw
            if kind == "zeros":
                return [list(c["size"])], kw
            if kind == "new_full":
                return [x, list(c["size"]), 3], kw
            if kind == "new_zeros":
                return [x, list(c["size"])], kw
            if kind == "full_like":
                return [x, 7], kw
            return [x], kw

        @staticmethod
        def torch(c, t):
            kw = {} if c["cdt"] is None else {"dtype": getattr(t, _TDT[c["cdt"]])}
            x = t.tensor(data(c["size"] if kind.endswith("_like") else [2], c["dtype"]))
            if kind == "full":
                return t.full(list(c["size"]), 1.5, **kw)
            if kind == "zeros":
                return t.zeros(list(c["size"]), **kw)
            if kind == "new_full":
                return x.new_full(list(c["size"]), 3, **kw)
            if kind == "new_zeros":
                return x.new_zeros(list(c["size"]), **kw)
            if kind == "full_like":
                return t.full_like(x, 7, **kw)
            if kind == "zeros_like":
                return t.zeros_like(x, **kw)
            return t.ones_like(x, **kw)

        @staticmethod
        def branch(c):
            return "dtype-given" if c["cdt"] is not None else "dtype-default"
    _C.fnname = fnname
    return fam("create_" + kind, "creation", [overload])(_C)


_create("full", "aten_full", "aten::full")
_create("zeros", "aten_zeros", "aten::zeros")
_create("new_full", "aten_new_full", "aten::new_full")
_create("new_zeros", "aten_new_zeros", "aten::new_zeros")
_create("full_like", "aten_full_like", "aten::full_like")
_create("zeros_like", "aten_zeros_like", "aten::zeros_like")
_create("ones_like", "aten_ones_like", "aten::ones_like")

for _n in ("add", "sub", "add_scalar", "sub_scalar"):
    BRANCHES[_n] = [FAMILIES[_n]["branch"]]
for _n in ("clamp", "clamp_tensor", "conv1d", "conv2d", "conv3d", "softmax", "_softmax", "_log_softmax", "linear", "vector_norm", "cumsum"):
    BRANCHES[_n] = [FAMILIES[_n]["branch"]]
BRANCHES.update({
    "matmul": [lambda c: "0d" if not c["shape"] or not c["other"] else f"{min(len(c['shape']), 3)}d-{min(len(c['other']), 3)}d"],
    "max_dim": [lambda c: "rank0" if not c["shape"] else "reduce" + (":keep" if c["keep"] else "")],
    "min_dim": [lambda c: "rank0" if not c["shape"] else "reduce" + (":keep" if c["keep"] else "")],
    "logsumexp": [lambda c: "rank0" if not c["shape"] else "reduce"],
    "logcumsumexp": [lambda c: "rank0" if not c["shape"] else "cumsum"],
    "scatter_src": [lambda c: ("index0d" if not c["idx_shape"] else "general") + (":src-larger" if c["src"] != c["idx_shape"] else "")],
    "scatter_add": [lambda c: "general" + (":src-larger" if c["src"] != c["idx_shape"] else "")],
    "pixel_shuffle": [lambda c: "rank4" if len(c["shape"]) == 4 else "reshape-path"],
    "pixel_unshuffle": [lambda c: "rank4" if len(c["shape"]) == 4 else "rank3" if len(c["shape"]) == 3 else "batched"],
})
REQUIRED += ["softmax:rank0", "softmax:rank>0", "softmax:rank>0:cast-out", "_softmax:rank0", "_softmax:rank>0", "_softmax:rank>0:cast-in",
             "_log_softmax:rank0", "_log_softmax:rank>0", "_log_softmax:rank>0:cast-in",
             "linear:gemm", "linear:gemm:bias", "linear:weight1d", "linear:matmul", "linear:matmul:bias"]
REQUIRED += ["vector_norm:no-dim:inf", "vector_norm:dims:inf", "vector_norm:dims:ord0", "vector_norm:dims:ord1", "vector_norm:dims:ord2",
             "vector_norm:no-dim:ord2", "vector_norm:dims:pow", "vector_norm:dims:pow-abs"]
REQUIRED += ["cumsum:cumsum:cast"]
REQUIRED += ["conv1d:bias", "conv1d:no-bias", "conv2d:bias", "conv2d:no-bias", "conv3d:bias", "conv3d:no-bias"]
REQUIRED += ["matmul:1d-1d", "matmul:1d-2d", "matmul:2d-1d", "matmul:2d-2d", "matmul:3d-3d", "matmul:3d-1d", "matmul:1d-3d",
             "max_dim:rank0", "max_dim:reduce", "max_dim:reduce:keep", "min_dim:rank0", "min_dim:reduce",
             "logsumexp:rank0", "logsumexp:reduce", "logcumsumexp:rank0", "logcumsumexp:cumsum",
             "scatter_src:general", "scatter_src:index0d", "scatter_add:general",
             "pixel_shuffle:rank4", "pixel_shuffle:reshape-path", "pixel_unshuffle:rank4", "pixel_unshuffle:batched"]
REQUIRED += ["add:bool:or-masked", "add:bool:or", "add:alpha1", "add:alpha-mul", "sub:alpha-mul", "add_scalar:alpha-mul",
             "clamp:none", "clamp:lo", "clamp:hi", "clamp:lohi", "clamp_tensor:none", "clamp_tensor:lo", "clamp_tensor:hi",
             "clamp_tensor:lohi"]


# ---- round 5: normalisation / sort / addmm family (OV.Model.C08Norm; its own trace table OV.Gen.C08TraceB) -------
# These families are kept out of the first trace table (`extract_torchlib.TABLE_B`) so that its chunks stay as they are.

TABLE_B = {"layer_norm", "native_layer_norm", "sort", "addmm", "baddbmm", "glu"}


def _oshape(s):
    return "N" if s is None else sh(s)


def _layer_norm_fam(name, native):
    class _LN:
        fnname = "aten_" + name

        @staticmethod
        def gen(rng):
            s = rshape(rng, 1, 4, zero_p=0.07)
            u = rng.random()
            k = len(s) if u < 0.25 else rng.randint(1, len(s))      # k = rank: axis = -rank (the boundary)
            ns = list(s[len(s) - k:])
            if rng.random() < 0.04 and 0 not in s:
                s[rng.randrange(0, len(s))] = 0                       # empty batch or empty normalised block
                ns = list(s[len(s) - k:])
            w = list(ns) if rng.random() < 0.5 else None
            b = list(ns) if rng.random() < 0.5 else None
            v = rng.random()
            if v < 0.02:
                ns = []                                              # torch: at least 1-dimensional
            elif v < 0.04:
                ns = [2] + list(s)                                   # longer than the rank
            elif v < 0.06:
                ns = list(ns); ns[0] += 1                            # not the tail
            elif v < 0.08 and w is not None:
                w = [1]
            elif v < 0.10 and b is not None:
                b = b + [1]
            return dict(shape=s, dtype="f32", ns=ns, w=w, b=b)

        @staticmethod
        def line(c):
            return f"layer_norm {int(native)} {sh(c['shape'])} {sh(c['ns'])} {_oshape(c['w'])} {_oshape(c['b'])}"

        @staticmethod
        def _args(c):
            x = _mm_small(c["shape"], 0)
            w = None if c["w"] is None else np.asarray(_mm_small(c["w"], 1) + np.float32(0.5))
            b = None if c["b"] is None else _mm_small(c["b"], 2)
            return x, w, b

        @staticmethod
        def call(c):
            x, w, b = _LN._args(c)
            return [x, list(c["ns"]), w, b] + ([1e-05] if native else []), {}

        @staticmethod
        def torch(c, t):
            x, w, b = _LN._args(c)
            tw = None if w is None else t.tensor(w)
            tb = None if b is None else t.tensor(b)
            if native:
                return t.native_layer_norm(t.tensor(x), list(c["ns"]), tw, tb, 1e-05)
            return t.layer_norm(t.tensor(x), list(c["ns"]), tw, tb, 1e-05)

        @staticmethod
        def branch(c):
            return ("weight" if c["w"] is not None else "default-weight") + (":bias" if c["b"] is not None else "")
    return fam(name, "norm", ["aten::" + name], outkind="list" if native else "single")(_LN)


_layer_norm_fam("layer_norm", False)
_layer_norm_fam("native_layer_norm", True)


def _sort_data(shape):
    n = int(np.prod(shape)) if len(shape) else 1
    return np.asarray(((np.arange(n) * 7919) % 1009).astype(np.float32).reshape(shape))   # distinct values


@fam("sort", "reduction", ["aten::sort", "aten::sort.stable"], outkind="list")
class _Sort:
    @staticmethod
    def gen(rng):
        s = rshape(rng, 0, 3, zero_p=0.08)
        u = rng.random()
        d = (-len(s) if u < 0.2 else len(s) - 1 if u < 0.3 else rdim(rng, len(s), 0.05)) if s else rdim(rng, 0, 0.1)
        # onnxruntime's TopK dies with SIGFPE (the whole process) when a dim *before* the axis is 0 and the axis is not
        # ([0,3] dim 1, [2,0,3] dim 2): not torch_lib's doing and not survivable in-process, so such inputs are not generated;
        # a 0 on the axis or after it is ([3,0] dim 0/1, [2,0,3] dim -3/1).
        if s and -len(s) <= d < len(s):
            a = d % len(s)
            if s[a] != 0:
                s = [1 if (i < a and v == 0) else v for i, v in enumerate(s)]
        elif s:
            s = [v or 1 for v in s]
        return dict(shape=s, dtype="f32", dim=d, desc=rng.random() < 0.5, stable=rng.random() < 0.3)

    @staticmethod
    def line(c):
        return f"sort {sh(c['shape'])} {c['dim']} {int(c['desc'])} ."

    @staticmethod
    def call(c):
        return [_sort_data(c["shape"]), c["dim"], c["desc"], c["stable"]], {}

    @staticmethod
    def torch(c, t):
        return t.sort(t.tensor(_sort_data(c["shape"])), dim=c["dim"], descending=c["desc"], stable=c["stable"])

    @staticmethod
    def branch(c):
        return "rank0" if not c["shape"] else "topk" + (":descending" if c["desc"] else "")


_AB = [1, 1, 1, 2, -1, 0, 3]


def _self_shapes(rng, tgt):
    """Shapes expandable to `tgt` (every rank from 0 to len(tgt), 1s in random places), rarely one that is not."""
    k = rng.randint(0, len(tgt))
    c = [d if rng.random() < 0.6 else 1 for d in tgt[len(tgt) - k:]]
    v = rng.random()
    if v < 0.04:
        c = [1] + list(tgt)                                          # one dim too many
    elif v < 0.08 and c:
        c[-1] = c[-1] + 1 if c[-1] != 1 else 4
    return c


@fam("addmm", "linalg", ["aten::addmm"])
class _Addmm:
    @staticmethod
    def gen(rng):
        z = lambda: 0 if rng.random() < 0.04 else rng.choice([1, 2, 3])
        m, k, n = z(), z(), z()
        a, b = [m, k], [k if rng.random() > 0.04 else k + 1, n]
        if rng.random() < 0.03:
            a = [2] + a
        return dict(shape=_self_shapes(rng, [m, n]), dtype="f32", a=a, b=b, alpha=rng.choice(_AB), beta=rng.choice(_AB))

    @staticmethod
    def line(c):
        return f"addmm {sh(c['shape'])} {sh(c['a'])} {sh(c['b'])} {c['alpha']} {c['beta']}"

    @staticmethod
    def call(c):
        return [_mm_small(c["shape"], 0), _mm_small(c["a"], 1), _mm_small(c["b"], 2)], {"beta": c["beta"], "alpha": c["alpha"]}

    @staticmethod
    def torch(c, t):
        return t.addmm(t.tensor(_mm_small(c["shape"], 0)), t.tensor(_mm_small(c["a"], 1)), t.tensor(_mm_small(c["b"], 2)),
                       beta=c["beta"], alpha=c["alpha"])

    @staticmethod
    def branch(c):
        return f"self{len(c['shape'])}d"


@fam("baddbmm", "linalg", ["aten::baddbmm"])
class _Baddbmm:
    @staticmethod
    def gen(rng):
        z = lambda: 0 if rng.random() < 0.03 else rng.choice([1, 2, 3])
        bb, m, k, n = z(), z(), rng.choice([1, 2, 3]), z()
        a, b = [bb, m, k], [bb, k if rng.random() > 0.04 else k + 1, n]
        if rng.random() < 0.03:
            b = b[1:]
        o = lambda: None if rng.random() < 0.25 else rng.choice(_AB)
        return dict(shape=_self_shapes(rng, [bb, m, n]), dtype="f32", a=a, b=b, alpha=o(), beta=o())

    @staticmethod
    def line(c):
        return f"baddbmm {sh(c['shape'])} {sh(c['a'])} {sh(c['b'])} {opt(c['alpha'])} {opt(c['beta'])}"

    @staticmethod
    def call(c):
        return [_mm_small(c["shape"], 0), _mm_small(c["a"], 1), _mm_small(c["b"], 2)], {"beta": c["beta"], "alpha": c["alpha"]}

    @staticmethod
    def torch(c, t):
        kw = {k: c[k] for k in ("beta", "alpha") if c[k] is not None}
        return t.baddbmm(t.tensor(_mm_small(c["shape"], 0)), t.tensor(_mm_small(c["a"], 1)), t.tensor(_mm_small(c["b"], 2)), **kw)

    @staticmethod
    def branch(c):
        f = lambda v: "unit" if v is None or v == 1 else "mul"
        return f"alpha-{f(c['alpha'])}:beta-{f(c['beta'])}"


@fam("glu", "activation", ["aten::glu"])
class _Glu:
    @staticmethod
    def gen(rng):
        s = rshape(rng, 0, 3, zero_p=0.06)
        if not s:
            return dict(shape=s, dtype="f32", dim=rng.choice([0, -1]))
        u = rng.random()
        d = -len(s) if u < 0.2 else len(s) - 1 if u < 0.3 else rdim(rng, len(s), 0.05)
        if -len(s) <= d < len(s) and rng.random() < 0.9:
            s[d] = rng.choice([2, 2, 4, 6, 0] if rng.random() < 0.15 else [2, 2, 4, 6])
        return dict(shape=s, dtype="f32", dim=d)

    @staticmethod
    def line(c):
        return f"glu {sh(c['shape'])} {c['dim']}"

    @staticmethod
    def call(c):
        return [np.asarray(_mm_small(c["shape"], 0) / np.float32(2))], {"dim": c["dim"]}

    @staticmethod
    def torch(c, t):
        return t.nn.functional.glu(t.tensor(np.asarray(_mm_small(c["shape"], 0) / np.float32(2))), c["dim"])

    @staticmethod
    def branch(c):
        return "rank0" if not c["shape"] else "split"


def _ln_boundary(c):
    k, r = len(c["ns"]), len(c["shape"])
    if k == 0 or k > r or c["shape"][r - k:] != c["ns"]:
        return "outside-domain"
    if 0 in c["ns"]:
        return "empty-block"
    return ("axis=-rank" if k == r else "axis>-rank") + (":empty-batch" if 0 in c["shape"] else "")


def _dim_boundary(c):
    r = len(c["shape"])
    if r == 0:
        return "rank0"
    d = c["dim"]
    if not (-r <= d < r):
        return "dim-out-of-range"
    return ("dim=-rank" if d == -r else "dim=rank-1" if d == r - 1 else "dim-neg" if d < 0 else "dim-nonneg") + \
        (":size0" if 0 in c["shape"] else "")


for _n in ("layer_norm", "native_layer_norm"):
    BRANCHES[_n] = [FAMILIES[_n]["branch"], _ln_boundary]
for _n in ("sort", "glu"):
    BRANCHES[_n] = [FAMILIES[_n]["branch"], _dim_boundary]
BRANCHES["addmm"] = [FAMILIES["addmm"]["branch"], lambda c: "scaled" if (c["alpha"], c["beta"]) != (1, 1) else "unit",
                     lambda c: "size0" if 0 in c["a"] + c["b"] else None]
BRANCHES["baddbmm"] = [FAMILIES["baddbmm"]["branch"], lambda c: f"self{len(c['shape'])}d",
                       lambda c: "size0" if 0 in c["a"] + c["b"] else None]
REQUIRED += [f"{n}:{b}" for n in ("layer_norm", "native_layer_norm")
             for b in ("weight", "weight:bias", "default-weight", "default-weight:bias", "axis=-rank", "axis>-rank", "outside-domain")]
REQUIRED += ["sort:rank0", "sort:topk", "sort:topk:descending", "sort:dim=-rank", "sort:dim=rank-1", "sort:dim-out-of-range",
             "glu:rank0", "glu:split", "glu:dim=-rank", "glu:dim=rank-1",
             "addmm:self0d", "addmm:self1d", "addmm:self2d", "addmm:scaled", "addmm:unit",
             "baddbmm:alpha-unit:beta-unit", "baddbmm:alpha-mul:beta-unit", "baddbmm:alpha-unit:beta-mul", "baddbmm:alpha-mul:beta-mul",
             "baddbmm:self0d", "baddbmm:self1d", "baddbmm:self2d", "baddbmm:self3d"]


# ---- round 5: boundary counters for every dim-taking family (tie item: "negative dims equal to -rank, size-0, rank-0") --------
# One classifier per boundary class, attached to every family with an int `dim`, a `dims` list or a dim pair; the keys listed in
# BOUNDARY_REQUIRED (a static table: what each generator is able to produce, measured) join REQUIRED, so every quick run
# contains, for each of these functions, an input with dim = -rank, one with dim = rank-1, a rank-0 input and an input whose
# size along the dim is 0 (directed generation draws until they are hit; INFRA if a generator stops producing them).

def _bd_dim(label, pred):
    def f(c):
        if "shape" not in c or not isinstance(c.get("dim"), int) or isinstance(c.get("dim"), bool):
            return None
        r, d = len(c["shape"]), c["dim"]
        return label if pred(r, d, c["shape"]) else None
    return f


def _bd_list(label, pred, keys):
    def f(c):
        if "shape" not in c:
            return None
        if keys == ("dims",):
            if not isinstance(c.get("dims"), list):
                return None
            ds = c["dims"]
        else:
            if not all(isinstance(c.get(k), int) for k in keys):
                return None
            ds = [c[k] for k in keys]
        return label if pred(len(c["shape"]), ds, c["shape"]) else None
    return f


_BD_DIM = [
    _bd_dim("bd:dim=-rank", lambda r, d, s: r > 0 and d == -r),
    _bd_dim("bd:dim=rank-1", lambda r, d, s: r > 0 and d == r - 1),
    _bd_dim("bd:rank0", lambda r, d, s: r == 0),
    _bd_dim("bd:size0@dim", lambda r, d, s: r > 0 and -r <= d < r and s[d] == 0),
]


def _bd_lists(keys):
    return [
        _bd_list("bd:dims∋-rank", lambda r, ds, s: r > 0 and -r in ds, keys),
        _bd_list("bd:dims∋rank-1", lambda r, ds, s: r > 0 and (r - 1) in ds, keys),
        _bd_list("bd:rank0", lambda r, ds, s: r == 0, keys),
        _bd_list("bd:size0@dims", lambda r, ds, s: r > 0 and any(-r <= d < r and s[d] == 0 for d in ds), keys),
    ]


_D, _L, _R0, _Z = "bd:dim=-rank", "bd:dim=rank-1", "bd:rank0", "bd:size0@dim"
BOUNDARY_REQUIRED = {
    # int `dim`
    "_log_softmax": [_D, _L, _R0], "_softmax": [_D, _L, _R0], "softmax": [_D, _L, _R0], "all_dim": [_D, _L, _R0, _Z],
    "any_dim": [_D, _L, _R0, _Z], "argmax": [_D, _L, _R0, _Z], "argmin": [_D, _L, _R0, _Z], "chunk": [_D, _L, _Z],
    "cumsum": [_D, _L, _R0, _Z], "gather": [_D, _L, _R0], "index_select": [_D, _L, _R0, _Z], "logcumsumexp": [_D, _L, _R0],
    "max_dim": [_D, _L, _R0, _Z], "min_dim": [_D, _L, _R0, _Z], "narrow": [_D, _L, _Z], "prod_dim": [_D, _L, _R0, _Z],
    "repeat_interleave": [_D, _L, _Z], "scatter_add": [_D, _L], "scatter_src": [_D, _L], "select": [_D, _L, _Z],
    "select_scatter": [_D, _L], "slice": [_D, _L, _Z], "slice_scatter": [_D, _L], "split": [_D, _L, _Z],
    "split_with_sizes": [_D, _L, _Z], "squeeze_dim": [_D, _L, _R0, _Z], "topk": [_D, _L], "unbind": [_D, _L, _Z],
    "unflatten": [_D, _L, _Z], "unfold": [_D, _L, _R0], "unsqueeze": [_D, _L, _R0],
    # `dims` lists / dim pairs
    "all_dims": ["bd:dims∋-rank", "bd:dims∋rank-1", "bd:rank0", "bd:size0@dims"],
    "any_dims": ["bd:dims∋-rank", "bd:dims∋rank-1", "bd:rank0", "bd:size0@dims"],
    "amax": ["bd:dims∋-rank", "bd:dims∋rank-1", "bd:rank0", "bd:size0@dims"],
    "amin": ["bd:dims∋-rank", "bd:dims∋rank-1", "bd:rank0", "bd:size0@dims"],
    "flip": ["bd:dims∋-rank", "bd:dims∋rank-1", "bd:rank0", "bd:size0@dims"],
    "logsumexp": ["bd:dims∋-rank", "bd:dims∋rank-1", "bd:rank0"],
    "mean_dim": ["bd:dims∋-rank", "bd:dims∋rank-1", "bd:rank0", "bd:size0@dims"],
    "permute": ["bd:dims∋-rank", "bd:dims∋rank-1", "bd:rank0", "bd:size0@dims"],
    "roll": ["bd:dims∋-rank", "bd:dims∋rank-1", "bd:rank0", "bd:size0@dims"],
    "sum_dim": ["bd:dims∋-rank", "bd:dims∋rank-1", "bd:rank0", "bd:size0@dims"],
    "vector_norm": ["bd:dims∋-rank", "bd:dims∋rank-1", "bd:rank0"],
    "flatten": ["bd:dims∋-rank", "bd:dims∋rank-1", "bd:rank0"], "transpose": ["bd:dims∋-rank", "bd:dims∋rank-1", "bd:rank0"],
    "diagonal": ["bd:dims∋-rank", "bd:dims∋rank-1"],
}
for _n, _keys in BOUNDARY_REQUIRED.items():
    _fs = _BD_DIM if _keys[0] == _D else _bd_lists(("a", "b") if _n in ("flatten", "transpose") else ("d1", "d2") if _n == "diagonal" else ("dims",))
    BRANCHES[_n] = list(BRANCHES.get(_n, [])) + _fs
    REQUIRED += [f"{_n}:{k}" for k in _keys]
