"""C05 rule families, second batch (rules moved from `listedUnproved` to proved): reshape/matmul/reshape collapse,
gemm_to_matmul_add, hard-swish / hard-sigmoid fusions, conv-affine fusions, dynamic full-range ScatterND,
Slice+Slice→Split, Cast∘ConstantOfShape.  Same interface as `c05_families.Family`."""
from __future__ import annotations

import numpy as np
import onnx

from harness.c05_families import Family, rules_common, F32
from harness.c05_lib import Host, TP, frac, ints, shape_tok

I64 = np.int64


class MatmulFam(Family):
    """two_reshapes_matmul_reshape / one_reshape_matmul_reshape / gemm_to_matmul_add (check_if_not_need_reshape)"""
    name = "matmul"
    exact = False
    rule_keys = ("two_reshapes_matmul_reshape_rule", "one_reshape_matmul_reshape_rule", "gemm_to_matmul_add_rule")

    def gen(self, rng):
        kind = rng.choice(["mm2", "mm1", "mm1", "gemm"])
        k = rng.choice([1, 2, 3, 4])
        m, n = rng.choice([1, 2, 3]), rng.choice([1, 2, 5])
        if kind == "gemm":
            return {"fam": "matmul", "kind": kind, "a": [m, k], "b": [k, n], "ta": False, "tb": rng.random() < 0.25,
                    "alpha": rng.choice([1.0, 1.0, 1.0, 2.0, None]), "beta": rng.choice([1.0, 1.0, 1.0, 0.5, None]),
                    "cmode": rng.choice(["ok", "ok", "ok", "perm", "dyn"]), "sym": rng.random() < 0.07, "extra": rng.random() < 0.06,
                    "abatch": [], "bbatch": []}
        q = rng.random()
        abatch = [rng.choice([1, 2, 3]) for _ in range(rng.choice([0, 1, 1, 2]))]
        if q < 0.45:
            bbatch = []
        elif q < 0.75:
            bbatch = list(abatch[-rng.randint(1, len(abatch)):]) if abatch else []
        else:
            bbatch = [rng.choice([1, 2, 3]) for _ in range(rng.choice([1, 2]))]
        a = abatch + [m, k]
        b = bbatch + [k, n]
        r = rng.random()
        if r < 0.12:
            a = [k]            # 1-D a
        elif r < 0.24:
            b = [k]            # 1-D b
        return {"fam": "matmul", "kind": kind, "a": a, "b": b, "cmode": rng.choice(["ok", "ok", "ok", "ok", "perm", "dyn", "rank2"]),
                "sym": rng.random() < 0.07, "extra": rng.random() < 0.06}

    def corpus(self):
        return [{"fam": "matmul", "kind": "gemm", "a": [2, 3], "b": [3, 3], "ta": False, "tb": True, "alpha": 1.0, "beta": 1.0,
                 "cmode": "ok", "sym": False, "extra": False, "abatch": [], "bbatch": []},        # C05-N5 witness
                {"fam": "matmul", "kind": "mm1", "a": [2, 3, 4], "b": [4, 5], "cmode": "ok", "sym": False, "extra": False},
                {"fam": "matmul", "kind": "mm2", "a": [3, 4], "b": [1, 4, 2], "cmode": "ok", "sym": False, "extra": False},
                {"fam": "matmul", "kind": "mm1", "a": [4], "b": [2, 4, 5], "cmode": "ok", "sym": False, "extra": False},
                {"fam": "matmul", "kind": "mm1", "a": [2, 3, 4], "b": [1, 4, 5], "cmode": "ok", "sym": False, "extra": False}]

    @staticmethod
    def true_out(a, b):
        try:
            return list(np.matmul(np.zeros(a), np.zeros(b)).shape)
        except ValueError:
            return None

    def reshaped(self, c):
        """(shape_a the first Reshape produces, b as fed to MatMul, true matmul output) or None when no valid host."""
        a, b = c["a"], c["b"]
        if c["kind"] == "gemm":
            return a, b, [a[0], b[0] if c["tb"] else b[1]]
        out = self.true_out(a, b)
        if out is None:
            return None
        return a, b, out

    def shape_c(self, c):
        r = self.reshaped(c)
        if r is None:
            return None
        out = list(r[2])
        if c["cmode"] == "perm":
            if len(out) >= 2 and out[0] != out[-1]:
                out = out[::-1]
            else:
                out = out + [1]
        return out

    def build(self, c):
        C = rules_common()
        r = self.reshaped(c)
        hst = Host()
        a, b = c["a"], c["b"]
        if r is None:
            # not a valid matmul: emit a trivially non-matching host (Identity) so that the case is skipped as nofire
            hst.inp("a", F32, [1])
            hst.node("Identity", ["a"], ["y"])
            hst.out("y", F32, None)
            return hst, [C.one_reshape_matmul_reshape_rule]
        decl_a = (["N"] + a[1:]) if (c["sym"] and len(a) > 1) else a
        hst.inp("a", F32, a, decl_shape=decl_a)
        hst.inp("b", F32, b)
        out = self.shape_c(c)
        hst.const("sa", np.array(a, dtype=I64), "init")
        hst.node("Reshape", ["a", "sa"], ["ra"])
        if c["cmode"] == "rank2":
            hst.const("sc", np.array([out], dtype=I64).reshape(1, -1), "init")
        else:
            hst.const("sc", np.array(out, dtype=I64), "input" if c["cmode"] == "dyn" else "init")
        if c["kind"] == "gemm":
            hst.inp("c", F32, [out[-1]] if c["cmode"] != "perm" else [1])
            attrs = {}
            if c["alpha"] is not None:
                attrs["alpha"] = c["alpha"]
            if c["beta"] is not None:
                attrs["beta"] = c["beta"]
            if c["tb"]:
                attrs["transB"] = 1
            hst.node("Gemm", ["ra", "b", "c"], ["g"], **attrs)
            hst.node("Reshape", ["g", "sc"], ["y"])
            rules = [C.gemm_to_matmul_add_rule]
        else:
            rb = "b"
            if c["kind"] == "mm2":
                hst.const("sb", np.array(b, dtype=I64), "init")
                rb = hst.node("Reshape", ["b", "sb"], ["rb"])
            hst.node("MatMul", ["ra", rb], ["g"])
            hst.node("Reshape", ["g", "sc"], ["y"])
            rules = [C.two_reshapes_matmul_reshape_rule, C.one_reshape_matmul_reshape_rule]
        hst.out("y", F32, None)
        if c["extra"]:
            hst.out("g", F32, None)
        return hst, rules

    def infer(self, c):
        return False

    def line(self, c):
        if self.reshaped(c) is None:
            return "mmreshape a=- b=- c=-"
        a = (["N"] + c["a"][1:]) if (c["sym"] and len(c["a"]) > 1) else c["a"]
        out = self.shape_c(c)
        ctok = "-" if c["cmode"] == "dyn" else ints(out)
        base = f"a={shape_tok(a)} b={shape_tok(c['b'])} c={ctok} c1={0 if c['cmode'] == 'rank2' else 1} extra={int(c['extra'])}"
        if c["kind"] == "gemm":
            al = "-" if c["alpha"] is None else frac(c["alpha"])
            be = "-" if c["beta"] is None else frac(c["beta"])
            return f"gemm2mm {base} alpha={al} beta={be} ta=0 tb={int(c['tb'])}"
        return "mmreshape " + base

    def observe(self, c, after):
        return "fire"

    def finding(self, c):
        # C05-N5 (transB ignored) is fixed in /repo (ae98696): the rule refuses; witness in the corpus
        return None


class HardswishFam(Family):
    name = "hardswish"
    exact = False
    rule_keys = tuple(f"fuse_hardswish_rules[{i}" for i in range(8))
    VALS = {"cmin": [0.0, 0.0, 0.0, 0.0, 1e-9, -0.5], "cmax": [6.0, 6.0, 6.0, 6.0005, 6.01, 5.0], "bias": [3.0, 3.0, 3.0, 3.0002, 3.01, 2.0],
            "div": [6.0, 6.0, 6.0, 6.0005, 5.99, 3.0]}

    def gen(self, rng):
        kind = rng.choice(["swish", "swish", "sig", "sig", "hs2"])
        if kind == "hs2":
            return {"fam": "hardswish", "kind": kind, "alpha": rng.choice([1 / 6, 1 / 6, 0.1666667, 0.2, None]),
                    "beta": rng.choice([0.5, 0.5, 0.5, 0.4, None]), "swap": rng.random() < 0.5, "extra": rng.random() < 0.06}
        c = {"fam": "hardswish", "kind": kind, "swap": rng.random() < 0.5, "swapadd": rng.random() < 0.3, "rank": rng.choice([0, 0, 0, 1]),
             "origin": rng.choice(["init", "cnode"]), "dyn": rng.choice([None] * 9 + ["bias", "div"]), "extra": rng.random() < 0.06,
             "dtype": rng.choice([F32, F32, "float64"])}
        for k, vs in self.VALS.items():
            c[k] = rng.choice(vs)
        return c

    def corpus(self):
        b = {"fam": "hardswish", "swap": False, "swapadd": False, "rank": 0, "origin": "init", "dyn": None, "extra": False, "dtype": "float64",
             "cmin": 0.0, "cmax": 6.0, "bias": 3.0, "div": 6.0}
        return [dict(b, kind="sig"), dict(b, kind="swish"), dict(b, kind="sig", bias=3.0002),     # C05-N8 witness
                {"fam": "hardswish", "kind": "hs2", "alpha": 1 / 6, "beta": 0.5, "swap": False, "extra": False}]

    def build(self, c):
        C = rules_common()
        hst = Host()
        if c["kind"] == "hs2":
            hst.inp("x", F32, [2, 3])
            attrs = {}
            if c["alpha"] is not None:
                attrs["alpha"] = c["alpha"]
            if c["beta"] is not None:
                attrs["beta"] = c["beta"]
            hst.node("HardSigmoid", ["x"], ["t"], **attrs)
            hst.node("Mul", ["x", "t"] if c["swap"] else ["t", "x"], ["y"])
            hst.out("y", F32, None)
            if c["extra"]:
                hst.out("t", F32, None)
            return hst, C.fuse_hardswish_rules()
        dt = c["dtype"]
        gen = lambda r, dt=dt: r.choice(np.array([-7.5, -3.0, -2.999, -1.0, 0.0, 0.5, 2.0, 2.999, 3.0, 3.5, 12.0]), size=(2, 3)).astype(dt)
        hst.inp("x", dt, [2, 3], gen=gen)
        names = {}
        for k in ("bias", "cmin", "cmax", "div"):
            arr = np.array(c[k], dtype=dt).reshape([1] * c["rank"])
            names[k] = hst.const(k, arr, "input" if c["dyn"] == k else c["origin"])
        hst.node("Add", [names["bias"], "x"] if c["swapadd"] else ["x", names["bias"]], ["t1"])
        hst.node("Clip", ["t1", names["cmin"], names["cmax"]], ["t2"])
        if c["kind"] == "swish":
            hst.node("Mul", ["x", "t2"] if c["swap"] else ["t2", "x"], ["t3"])
            hst.node("Div", ["t3", names["div"]], ["y"])
        else:
            hst.node("Div", ["t2", names["div"]], ["y"])
        hst.out("y", dt, None)
        if c["extra"]:
            hst.out("t2", dt, None)
        return hst, C.fuse_hardswish_rules()

    def line(self, c):
        if c["kind"] == "hs2":
            f32 = lambda v: "-" if v is None else frac(float(np.float32(v)))
            return f"hsw2 alpha={f32(c['alpha'])} beta={f32(c['beta'])} extra={int(c['extra'])}"
        def tok(k):
            if c["dyn"] == k:
                return "-"
            return frac(float(np.dtype(c["dtype"]).type(c[k])))
        return (f"hardsig kind={c['kind']} cmin={tok('cmin')} cmax={tok('cmax')} bias={tok('bias')} div={tok('div')} extra={int(c['extra'])}")

    def observe(self, c, after):
        return "fire"

    # the replaced pipeline and the fused kernel round differently: compare with a tolerance tight enough to see a 1e-4 constant
    tol = (2e-5, 2e-6)

    def finding(self, c):
        if c["kind"] == "hs2":
            return None
        # C05-N8 (constants within rel_tol 1e-4) is fixed in /repo (9b9326e): exact compare; witness in the corpus
        return None


class ConvAffineFam(Family):
    name = "convaffine"
    exact = False
    rule_keys = ("conv_affine_fusion_rule", "affine_conv_fusion_rule")

    def gen(self, rng):
        return {"fam": "convaffine", "kind": rng.choice(["ca", "ac"]), "seed": rng.randint(0, 99), "k": rng.choice([1, 1, 2]),
                "wdyn": rng.random() < 0.07, "bdyn": rng.random() < 0.07, "svec": rng.random() < 0.12, "ovec": rng.random() < 0.08,
                "pads": rng.choice(["zero", "zero", "zero", "none", "one"]), "srank": rng.choice([0, 0, 1]), "extra": rng.random() < 0.06,
                "strides": rng.choice([1, 1, 2]), "nob": rng.random() < 0.06}

    def corpus(self):
        b = {"fam": "convaffine", "seed": 1, "k": 1, "wdyn": False, "bdyn": False, "svec": False, "ovec": False, "pads": "zero", "srank": 0,
             "extra": False, "strides": 1, "nob": False}
        return [dict(b, kind="ca"), dict(b, kind="ac"), dict(b, kind="ac", k=2)]

    def build(self, c):
        C = rules_common()
        r = np.random.RandomState(c["seed"])
        hst = Host()
        k = c["k"]
        hst.inp("x", F32, [1, 2, 4, 4])
        hst.const("w", (r.randint(-3, 4, size=(3, 2, k, k)) / 2).astype(F32), "input" if c["wdyn"] else "init")
        cin = ["w"]
        if not c["nob"]:
            hst.const("b", (r.randint(-3, 4, size=(3,)) / 2).astype(F32), "input" if c["bdyn"] else "init")
            cin.append("b")
        sc = np.array([2.0, 3.0, 1.0, 0.5], dtype=F32) if c["svec"] else np.array(2.0, dtype=F32).reshape([1] * c["srank"])
        of = np.array([0.5, 1.0, 0.0, 2.0], dtype=F32) if c["ovec"] else np.array(0.5, dtype=F32)
        hst.const("sc", sc, "init")
        hst.const("of", of, "init")
        attrs = {"strides": [c["strides"]] * 2}
        if c["pads"] == "zero":
            attrs["pads"] = [0, 0, 0, 0]
        elif c["pads"] == "one":
            attrs["pads"] = [1, 1, 1, 1]
        if c["kind"] == "ca":
            hst.node("Conv", ["x"] + cin, ["t"], **attrs)
            hst.node("Mul", ["t", "sc"], ["t2"])
            hst.node("Add", ["t2", "of"], ["y"])
        else:
            hst.node("Mul", ["x", "sc"], ["t"])
            hst.node("Add", ["t", "of"], ["t2"])
            hst.node("Conv", ["t2"] + cin, ["y"], **attrs)
        hst.out("y", F32, None)
        if c["extra"]:
            hst.out("t", F32, None)
        return hst, [C.conv_affine_fusion_rule, C.affine_conv_fusion_rule]

    def line(self, c):
        if c["nob"]:
            return "convaffine w=0 b=0 s=0 o=0 pads=0"       # the pattern has three Conv inputs: no bias ⇒ no match
        pads = 1 if (c["kind"] == "ca" or c["pads"] == "zero") else 0
        return (f"convaffine w={int(not c['wdyn'])} b={int(not c['bdyn'])} s={int(not c['svec'])} o={int(not c['ovec'])} pads={pads} "
                f"extra={int(c['extra'])}")

    def observe(self, c, after):
        return "fire"

    def finding(self, c):
        return None


class DynScatterFam(Family):
    name = "dynscatter"
    rule_keys = ("no_op_dynamic_scatter_nd_rule",)

    def gen(self, rng):
        n = rng.choice([1, 2, 3])
        rest = [rng.choice([1, 2]) for _ in range(rng.choice([0, 1]))]
        return {"fam": "dynscatter", "n": n, "rest": rest, "axis": rng.choice([0, 0, 0, -len(rest) - 1, 1]), "axdyn": rng.random() < 0.07,
                "symd": rng.choice([None, None, None, "N", "N"]), "symt": rng.choice([None, None, None, "N", "M"]),
                "tknown": rng.random() > 0.07, "red": rng.choice(["none", "none", "none", "add", None]), "start0": rng.random() > 0.1}

    def corpus(self):
        return [{"fam": "dynscatter", "n": 3, "rest": [2], "axis": 0, "axdyn": False, "symd": None, "symt": None, "tknown": True,
                 "red": "none", "start0": True}]

    def build(self, c):
        C = rules_common()
        hst = Host()
        shape = [c["n"]] + c["rest"]
        dd = [c["symd"] or c["n"]] + c["rest"]
        td = [c["symt"] or c["n"]] + c["rest"]
        hst.inp("d", F32, shape, decl_shape=dd)
        hst.inp("t", F32, shape, decl_shape=td if c["tknown"] else None)
        hst.inp("u", F32, shape)
        hst.node("Shape", ["d"], ["shp"], **({"start": 0} if c["start0"] else {}))
        hst.const("axis", np.array(c["axis"], dtype=I64), "input" if c["axdyn"] else "init")
        hst.node("Gather", ["shp", "axis"], ["dim"], axis=0)
        hst.const("zero", np.array(0, dtype=I64), "init")
        hst.const("one", np.array(1, dtype=I64), "init")
        hst.node("Range", ["zero", "dim", "one"], ["rng"])
        hst.const("m1", np.array([-1], dtype=I64), "init")
        hst.node("Unsqueeze", ["rng", "m1"], ["idx"])
        hst.node("ScatterND", ["t", "idx", "u"], ["y"], **({} if c["red"] is None else {"reduction": c["red"]}))
        hst.out("y", F32, None)
        return hst, [C.no_op_dynamic_scatter_nd_rule]

    def infer(self, c):
        return False

    def valid_axis(self, c):
        """the host is a valid ScatterND only when the gathered dim is the leading one"""
        return c["axis"] in (0, -len(c["rest"]) - 1)

    def line(self, c):
        if c["red"] != "none" or not c["start0"]:
            return "dynscatter axis=- data=- t=-"      # attribute literals of the pattern (`reduction='none'`, `start=0`) do not match
        dd = [c["symd"] or c["n"]] + c["rest"]
        td = [c["symt"] or c["n"]] + c["rest"]
        return f"dynscatter axis={'-' if c['axdyn'] else c['axis']} data={shape_tok(dd)} t={shape_tok(td if c['tknown'] else None)}"

    def observe(self, c, after):
        return "fire"

    def finding(self, c):
        return None


class SliceSplitFam(Family):
    name = "slicesplit"
    rule_keys = ("slice_split_rule",)

    def gen(self, rng):
        d = rng.choice([2, 3, 4, 5, 6, 7])
        h = d // 2
        q = rng.random()
        e0 = b1 = h
        if q < 0.1:
            b1 = h + 1
        elif q < 0.2:
            e0 = b1 = (d + 1) // 2
        return {"fam": "slicesplit", "d": d, "rank": rng.choice([1, 2, 3]), "e0": e0, "b1": b1, "e1": rng.choice([d, d, d, d, d + 1]),
                "b0": rng.choice([0, 0, 0, 0, 1]), "hifirst": rng.random() < 0.6, "axneg": rng.random() < 0.5, "axother": rng.random() < 0.08,
                "lt18": rng.random() < 0.15, "symlast": rng.random() < 0.07}

    def corpus(self):
        b = {"fam": "slicesplit", "rank": 2, "b0": 0, "axneg": False, "axother": False, "lt18": False, "symlast": False}
        return [dict(b, d=4, e0=2, b1=2, e1=4, hifirst=True), dict(b, d=4, e0=2, b1=2, e1=4, hifirst=False),
                dict(b, d=5, e0=2, b1=2, e1=5, hifirst=True),                      # C05-N10 witness (odd last dim)
                dict(b, d=4, e0=2, b1=2, e1=4, hifirst=True, lt18=True)]           # C05-N9 witness (opset < 18)

    def build(self, c):
        C = rules_common()
        hst = Host(opset=13 if c["lt18"] else 18)
        shape = [2, 3][: c["rank"] - 1] + [c["d"]]
        decl = shape[:-1] + ["L"] if c["symlast"] else shape
        hst.inp("x", F32, shape, decl_shape=decl)
        ax = (-1 if c["axneg"] else c["rank"] - 1) if not (c["axother"] and c["rank"] > 1) else 0
        lim = shape[ax]
        for nm, val in (("b0", c["b0"]), ("e0", c["e0"]), ("b1", c["b1"]), ("e1", c["e1"]), ("ax", ax)):
            hst.const(nm, np.array([val], dtype=I64), "init")
        lo = ("Slice", ["x", "b0", "e0", "ax"], ["y0"])
        hi = ("Slice", ["x", "b1", "e1", "ax"], ["y1"])
        for op, i, o in ([hi, lo] if c["hifirst"] else [lo, hi]):
            hst.node(op, i, o)
        hst.out("y0", F32, None)
        hst.out("y1", F32, None)
        return hst, [C.slice_split_rule]

    def line(self, c):
        shape = [2, 3][: c["rank"] - 1] + [c["d"]]
        decl = shape[:-1] + ["L"] if c["symlast"] else shape
        ax = (-1 if c["axneg"] else c["rank"] - 1) if not (c["axother"] and c["rank"] > 1) else 0
        return (f"slicesplit x={shape_tok(decl)} a0={ax} a1={ax} b0={c['b0']} e0={c['e0']} b1={c['b1']} e1={c['e1']} "
                f"hifirst={int(c['hifirst'])} lt18={int(c['lt18'])}")

    def observe(self, c, after):
        return "fire"

    def finding(self, c):
        # C05-N9 / C05-N10 (opset < 18, odd last dim) are fixed in /repo (462c374): the rule refuses; witnesses in the corpus
        return None


class CcosFam(Family):
    name = "ccos"
    rule_keys = ("cast_constant_of_shape_rule", "cast_constant_of_shape_without_value_rule")
    TOS = [TP.INT64, TP.FLOAT, TP.INT32, TP.DOUBLE, TP.FLOAT16, TP.BOOL, TP.UINT8]
    VALS = [("float32", 1.0), ("int64", 3), ("float32", 2.5), ("int32", 7), ("float32", 0.0), ("float32", -4.0), ("bool", True), ("float64", 0.5)]

    def gen(self, rng):
        return {"fam": "ccos", "to": rng.choice(self.TOS), "val": rng.choice([None, None] + list(range(len(self.VALS)))),
                "rank": rng.choice([1, 2, 3]), "extra": rng.random() < 0.06}

    # two rules share the root `Cast(ConstantOfShape(·))` (the pattern without `value` also matches a node that has one): which
    # of them rewrites is decided by their order in the shipped rule set, so half of the hosts also go through the default set
    p_dflt = 0.5

    def corpus(self):
        return [{"fam": "ccos", "to": TP.INT64, "val": 2, "rank": 2, "extra": False}, {"fam": "ccos", "to": TP.FLOAT, "val": None, "rank": 1, "extra": False},
                {"fam": "ccos", "to": TP.INT64, "val": 1, "rank": 2, "extra": False, "dflt": 1}, {"fam": "ccos", "to": TP.FLOAT, "val": 3, "rank": 1, "extra": False, "dflt": 1},
                {"fam": "ccos", "to": TP.INT32, "val": None, "rank": 1, "extra": False, "dflt": 1}]

    def build(self, c):
        C = rules_common()
        hst = Host()
        hst.inp("s", "int64", [c["rank"]], gen=lambda r, n=c["rank"]: r.randint(0, 4, size=n).astype(I64))
        if c["val"] is None:
            hst.node("ConstantOfShape", ["s"], ["t"])
            tdt = TP.FLOAT
        else:
            dt, v = self.VALS[c["val"]]
            hst.node("ConstantOfShape", ["s"], ["t"], value=onnx.numpy_helper.from_array(np.array([v], dtype=dt), "v"))
            tdt = onnx.helper.np_dtype_to_tensor_dtype(np.dtype(dt))
        hst.node("Cast", ["t"], ["y"], to=c["to"])
        hst.outputs.append(onnx.helper.make_tensor_value_info("y", c["to"], None))
        if c["extra"]:
            hst.outputs.append(onnx.helper.make_tensor_value_info("t", tdt, None))
        return hst, [C.cast_constant_of_shape_rule, C.cast_constant_of_shape_without_value_rule]

    def line(self, c):
        val = "-" if c["val"] is None else frac(float(self.VALS[c["val"]][1]))
        return f"ccos to={c['to']} val={val} extra={int(c['extra'])}"

    def observe(self, c, after):
        from harness.c05_lib import find_node, attr_of
        n = find_node(after, "ConstantOfShape")
        return f"fire to={attr_of(n, 'value').data_type}"

    def finding(self, c):
        return None


class NormFam(Family):
    """layer-norm / layer-norm+bias / rms-norm fusions (`rules/fusion`)"""
    name = "norm"
    exact = False
    rule_keys = ("fusion._layer_norm.", "fusion._rms_normalization.")
    DT = {F32: TP.FLOAT, "float64": TP.DOUBLE, "float16": TP.FLOAT16}

    def tol_for(self, c):
        # the fused kernels accumulate in the stash type: half-precision hosts differ by an ulp of float16
        return (4e-3, 4e-3) if c["dtype"] == "float16" else None

    def gen(self, rng):
        kind = rng.choice(["ln", "ln", "lnbias", "rms", "rms"])
        return {"fam": "norm", "kind": kind, "dtype": rng.choice([F32, F32, "float64", "float16"]),
                "eps": rng.choice(["scalar", "scalar", "scalar", "one", "vec", "dyn"]),
                "other": rng.choice([[4], [4], [4], [1], [], [2, 4], [3, 2, 4], [1, 1, 4]]),
                "sq": rng.choice(["mul", "pow"]), "nrm": rng.choice(["recip", "div"]), "order": rng.random() < 0.5,
                "opset": rng.choice([18, 21, 23, 23]), "extra": rng.random() < 0.06, "outs3": rng.random() < 0.1}

    def corpus(self):
        b = {"fam": "norm", "dtype": F32, "eps": "scalar", "sq": "mul", "nrm": "div", "order": True, "opset": 23, "extra": False, "outs3": False}
        return [dict(b, kind="ln", other=[4]), dict(b, kind="lnbias", other=[4]), dict(b, kind="rms", other=[4]),
                dict(b, kind="ln", other=[3, 2, 4]),              # C05-N11 witness
                dict(b, kind="rms", other=[4], opset=18)]          # C05-N12 witness

    def build(self, c):
        from onnxscript.rewriter.rules.fusion import _layer_norm, _rms_normalization
        dt = c["dtype"]
        hst = Host(opset=c["opset"])
        gen = lambda r, dt=dt: (r.randint(-6, 7, size=(2, 4)) / 2.0).astype(dt)
        hst.inp("x", dt, [2, 4], gen=gen)
        hst.inp("o", dt, c["other"], gen=lambda r, dt=dt, sh=tuple(c["other"]): (r.randint(1, 5, size=sh) / 2.0).astype(dt))
        hst.const("ax", np.array([-1], dtype=I64), "init")
        if c["kind"] == "lnbias":
            outs = ["t", "m", "isd"] if c["outs3"] else ["t"]
            hst.inp("sc", dt, [4])
            hst.node("LayerNormalization", ["x", "sc"], outs, axis=-1, epsilon=1e-5)
            hst.node("Add", ["t", "o"], ["y"])
            hst.out("y", dt, None)
            if c["outs3"]:
                hst.out("m", F32, None)
            if c["extra"]:
                hst.out("t", dt, None)
            return hst, _layer_norm.layer_normalization_ruleset
        eps = {"scalar": np.array(1e-3, dtype=dt), "one": np.array([1e-3], dtype=dt), "vec": np.array([1e-3] * 4, dtype=dt),
               "dyn": np.array(1e-3, dtype=dt)}[c["eps"]]
        hst.const("eps", eps, "input" if c["eps"] == "dyn" else "init")
        if c["kind"] == "ln":
            hst.node("ReduceMean", ["x", "ax"], ["mean"], keepdims=1)
            hst.node("Sub", ["x", "mean"], ["d"])
            if c["sq"] == "mul":
                hst.node("Mul", ["d", "d"], ["dd"])
            else:
                hst.const("two", np.array(2, dtype=dt), "init")
                hst.node("Pow", ["d", "two"], ["dd"])
            hst.node("ReduceMean", ["dd", "ax"], ["var"], keepdims=1)
            hst.node("Add", ["var", "eps"], ["ve"])
            hst.node("Sqrt", ["ve"], ["sd"])
            if c["nrm"] == "div":
                hst.node("Div", ["d", "sd"], ["n"])
            else:
                hst.node("Reciprocal", ["sd"], ["inv"])
                hst.node("Mul", ["d", "inv"], ["n"])
            hst.node("Mul", ["n", "o"], ["y"])
            hst.out("y", dt, None)
            if c["extra"]:
                hst.out("n", dt, None)
            return hst, _layer_norm.layer_normalization_ruleset
        hst.const("two", np.array(2.0, dtype=dt), "init")
        hst.node("Pow", ["x", "two"], ["sq"])
        hst.node("ReduceMean", ["sq", "ax"], ["ms"], keepdims=1, noop_with_empty_axes=0)
        hst.node("Add", ["ms", "eps"], ["mse"])
        hst.node("Sqrt", ["mse"], ["r"])
        hst.node("Reciprocal", ["r"], ["ir"])
        hst.node("Mul", ["x", "ir"], ["n"])
        hst.node("Mul", ["n", "o"] if c["order"] else ["o", "n"], ["y"])
        hst.out("y", dt, None)
        if c["extra"]:
            hst.out("n", dt, None)
        return hst, _rms_normalization.rms_normalization_ruleset

    def line(self, c):
        t = self.DT[c["dtype"]]
        if c["kind"] == "lnbias" and c["outs3"]:
            return "norm kind=none"        # the pattern binds one output of LayerNormalization; a 3-output node whose extra outputs are used does not match
        eps1 = int(c["eps"] in ("scalar", "one")) if c["kind"] != "lnbias" else 1
        return (f"norm kind={c['kind']} x={t} sc={t} eps1={eps1} epsf=1 cd=- xr=2 or={len(c['other'])} opset={c['opset']} "
                f"extra={int(c['extra'])}")

    def observe(self, c, after):
        from harness.c05_lib import find_node, attr_of
        n = find_node(after, "RMSNormalization" if c["kind"] == "rms" else "LayerNormalization")
        if c["kind"] == "lnbias":
            return "fire stash=-" if len(n.input) == 3 else "fire ?bias-not-absorbed"
        return f"fire stash={attr_of(n, 'stash_type')}"

    def finding(self, c):
        # C05-N11 (scale / bias outranks x) is fixed in /repo (fd3c959): the rules refuse; witness in the corpus
        if c["kind"] == "rms" and c["opset"] < 23:
            return "C05-N12"
        return None


def more_families():
    return [MatmulFam(), HardswishFam(), ConvAffineFam(), DynScatterFam(), SliceSplitFam(), CcosFam(), NormFam()]
