#!/bin/bash
# Clean-tree sweep: every check, quick tier, several seeds; evidence goes to a scratch dir so the committed
# evidence files are not touched.  usage: harness/sweep.sh "1 2 3" [parallel=4]  -> /tmp/sweep.log
cd "$(dirname "$0")/.."
SEEDS=${1:-"1 2 3"}; PAR=${2:-4}
: > /tmp/sweep.log
run() { s=$1; p=$2
  out=$(VERIF_SEED=$s VERIF_EVIDENCE_DIR=/tmp/sweep_evidence ./check $p --tier quick 2>&1 | grep -E "^VIOLATION|exit=|^INFRA" | tr '\n' ' ' | cut -c1-400)
  echo "seed=$s $p: $out" >> /tmp/sweep.log; }
for s in $SEEDS; do for i in $(seq -w 1 20); do
  run $s C$i &
  while [ $(jobs -r | wc -l) -ge $PAR ]; do sleep 2; done
done; done; wait; echo SWEEPDONE >> /tmp/sweep.log
