#!/bin/bash
# Clean-tree sweep: every check (or the given ones), quick tier, several seeds; evidence goes to a scratch dir so the
# committed evidence files are not touched.
# usage: harness/sweep.sh "1 2 3" [parallel=4] ["C01 C02 …"] [logfile=/tmp/sweep.log]
cd "$(dirname "$0")/.."
SEEDS=${1:-"1 2 3"}; PAR=${2:-4}
PROPS=${3:-$(for i in $(seq -w 1 20); do echo C$i; done)}
LOG=${4:-/tmp/sweep.log}
: > $LOG
run() { s=$1; p=$2
  out=$(VERIF_SEED=$s VERIF_EVIDENCE_DIR=/tmp/sweep_evidence ./check $p --tier quick 2>&1 | grep -E "^VIOLATION|exit=|^INFRA" | tr '\n' ' ' | cut -c1-400)
  echo "seed=$s $p: $out" >> $LOG; }
for s in $SEEDS; do for p in $PROPS; do
  run $s $p &
  while [ $(jobs -r | wc -l) -ge $PAR ]; do sleep 2; done
done; done; wait; echo SWEEPDONE >> $LOG
