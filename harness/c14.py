"""C14 — results are deterministic and independent of what the process did before.

Proof obligations: lean/OV/Props/C14.lean (model lean/OV/Model/C14History.lean, lemmas OV/Lemmas/C14History.lean).

Tie, two parts, both re-established on every run against /repo's working tree:

* translator — harness/extract_stash.py re-reads every rule class under rewriter/rules/{common,fusion} and
  rewriter/ort_fusions (ASTs) and regenerates OV/Gen/C14Stash.lean (per class: fields `check` definitely assigns on
  success paths / `rewrite` reads / …, plus the Converter facts); `stash_write_before_read` is re-proved by `decide`;
* correspondence with REAL processes — harness/c14_worker.py interpreters under PYTHONHASHSEED in {0,1,2,3,random}
  execute targets T alone (fresh state) and after histories H of <= 8 other operations incl. failing ones; the model
  predicts "equal" (theorems `history_independent`, `sorted_perm_invariant`, …), so every pair of digests is compared.
  Per-site model-vs-implementation comparisons run on the same data: a runtime monitor of every real try_rewrite
  (fields assigned/read per phase) against the generated rows (`event`), `_generate_unique_name` and the If/Loop output
  order against `genUnique`/`ctrlOutputs`, `pattern_builder` against `withBuilder`, Opset interning against `intern`,
  protos/eager calls under mutated globals against `decorate/toProto/eagerCall`, a reused Converter against `castableAfter`,
  the shared FoldConstantsPass against `foldCall`.
"""
from __future__ import annotations

import json
import os
import select
import subprocess
import sys
import threading
import time
from collections import Counter
from concurrent.futures import ThreadPoolExecutor
from pathlib import Path

from harness import c14_gen as G
from harness import c14_globals, core, extract_stash

PROP_MODULES = ["OV.Props.C14"]
SEEDS = ["0", "1", "2", "3", "random"]
CORPUS = core.VERIF / "harness" / "corpus_c14.jsonl"
JOB_TIMEOUT_S = 240

FAMILY = {  # rule class -> generator of models reaching its check()
    "ReshapeReshape": G.m_reshape_reshape,
    "Flatten2Reshape": G.m_flatten,
    "_FuseConvPadBase": G.m_conv_pad,
    "FuseConvPad": G.m_conv_pad,
    "FuseConvIntegerPad": G.m_conv_pad,
    "MaterializeReshapeShape": G.m_materialize,
    "LayerNormFusion": G.m_layer_norm,
    "RmsNormFusion": G.m_rms_norm,
}
FAMILY_RULES = {"LayerNormFusion": "layer_norm", "RmsNormFusion": "rms_norm"}


# --------------------------------------------------------------------------- worker pool


class Worker:
    def __init__(self, seed: str):
        self.seed = seed
        env = dict(os.environ)
        env["PYTHONHASHSEED"] = seed
        env["OMP_NUM_THREADS"] = env["OPENBLAS_NUM_THREADS"] = env["MKL_NUM_THREADS"] = "1"
        env["PYTHONPATH"] = f"{core.REPO}:{core.VERIF}"
        self.p = subprocess.Popen(
            [sys.executable, "-c", "from harness import c14_worker; c14_worker.serve()"],
            stdin=subprocess.PIPE,
            stdout=subprocess.PIPE,
            stderr=subprocess.PIPE,
            text=True,
            env=env,
            cwd=str(core.VERIF),
        )
        self.lock = threading.Lock()
        self._err: list[str] = []
        threading.Thread(target=self._drain, daemon=True).start()

    def _drain(self):
        for line in self.p.stderr:
            if "conda.cli.condarc" not in line and len(self._err) < 200:
                self._err.append(line)

    def ask(self, req: dict) -> dict:
        with self.lock:
            try:
                self.p.stdin.write(json.dumps(req) + "\n")
                self.p.stdin.flush()
            except BrokenPipeError as e:
                raise core.Infra(f"worker seed={self.seed} died: {''.join(self._err)[-800:]}") from e
            r, _, _ = select.select([self.p.stdout], [], [], JOB_TIMEOUT_S)
            if not r:
                self.p.kill()
                raise core.Infra(f"worker seed={self.seed} timed out on job {req.get('id')}")
            line = self.p.stdout.readline()
            if not line:
                raise core.Infra(f"worker seed={self.seed} closed its pipe: {''.join(self._err)[-800:]}")
            rep = json.loads(line)
            if "crash" in rep:
                raise core.Infra(f"worker child crashed (status {rep['crash']}) on job {req.get('id')}: {''.join(self._err)[-600:]}")
            return rep

    def close(self):
        try:
            self.p.stdin.close()
            self.p.wait(timeout=10)
        except Exception:  # noqa: BLE001
            self.p.kill()


class Pool:
    def __init__(self):
        self.workers = {s: Worker(s) for s in SEEDS}

    def run(self, jobs: list[tuple[str, dict]]) -> list[dict]:
        """jobs: [(seed, request)] -> replies in order; jobs of different seeds run concurrently."""
        out: list = [None] * len(jobs)
        by_seed: dict[str, list[int]] = {}
        for i, (s, _) in enumerate(jobs):
            by_seed.setdefault(s, []).append(i)

        def go(seed):
            w = self.workers[seed]
            for i in by_seed[seed]:
                out[i] = w.ask(jobs[i][1])

        with ThreadPoolExecutor(max_workers=len(SEEDS)) as ex:
            futs = [ex.submit(go, s) for s in by_seed]
            for f in futs:
                f.result()
        return out

    def close(self):
        for w in self.workers.values():
            w.close()


def fresh_process(seed: str, ops: list[dict]) -> dict:
    """A brand-new interpreter that handles exactly this one request (no fork)."""
    w = Worker(seed)
    try:
        return w.ask({"id": "fresh", "ops": ops, "nofork": True})
    finally:
        w.close()


# --------------------------------------------------------------------------- helpers


def last_digest(rep: dict) -> str:
    return rep["results"][-1]["digest"]


def infra_check(rep: dict) -> None:
    for r in rep["results"]:
        if r.get("infra"):
            raise core.Infra("worker-side harness error: " + r["infra"][-600:])


def strip_op(op: dict) -> dict:
    return {k: v for k, v in op.items() if k not in ("want_text",)}


def sexp_prefix(body: str) -> str:
    """'((x + K) * C)' -> 'mul,add,x,g:K,g:C' (generated bodies are fully parenthesised)."""
    import ast

    def go(n):
        if isinstance(n, ast.BinOp):
            return ("add" if isinstance(n.op, ast.Add) else "mul") + "," + go(n.left) + "," + go(n.right)
        if isinstance(n, ast.Name):
            return "x" if n.id == "x" else f"g:{n.id}"
        raise ValueError(ast.dump(n))

    return go(ast.parse(body, mode="eval").body)


def gl_str(g: dict) -> str:
    return ";".join(f"{k}={v}" for k, v in g.items()) or "-"


def csvs(xs) -> str:
    xs = list(xs)
    return ",".join(map(str, xs)) if xs else "-"


# --------------------------------------------------------------------------- directed pairs (always run)


def directed_pairs(rng) -> list[dict]:
    """(history, target) pairs aimed at each stateful site; the minimal witnesses of D8/D12 are among them."""
    H18 = G.HDR18
    rr_fail = H18 + "agraph (float[2,3,4] x) => (float[?,?] y)\n<int64[1] s1 = {24}, int64[2] s2 = {0,-1}>\n{\n  t = Reshape (x, s1)\n  y = Reshape (t, s2)\n}\n"
    rr_az = H18 + "agraph (float[0,24] x) => (float[0,24] y)\n<int64[2] s1 = {0,24}, int64[2] s2 = {0,24}>\n{\n  t = Reshape <allowzero = 1> (x, s1)\n  y = Reshape <allowzero = 1> (t, s2)\n}\n"
    rr_ok = H18 + "agraph (float[2,3,4] x) => (float[?,?] y)\n<int64[1] s1 = {24}, int64[2] s2 = {4,6}>\n{\n  t = Reshape (x, s1)\n  y = Reshape (t, s2)\n}\n"
    rr_ok2 = H18 + "agraph (float[2,3,4] x) => (float[?,?,?] y)\n<int64[1] s1 = {24}, int64[3] s2 = {2,2,6}>\n{\n  t = Reshape (x, s1)\n  y = Reshape (t, s2)\n}\n"
    mat_ok = H18 + "agraph (float[12] x, int64[2] s) => (float[?,?] y)\n<float[3,4] t>\n{\n  t = Reshape (x, s)\n  y = Abs (t)\n}\n"
    mat_two = H18 + "agraph (float[12] x, int64[2] s) => (float[?,?] y)\n<float[N,M] t>\n{\n  t = Reshape (x, s)\n  y = Abs (t)\n}\n"
    cp_ok = H18 + "agraph (float[1,1,5,5] x) => (float[?,?,?,?] y)\n<float[1,1,3,3] w = {1,1,1,1,1,1,1,1,1}, int64[8] pads = {0,0,1,2,0,0,1,0}>\n{\n  t = Pad (x, pads)\n  y = Conv (t, w)\n}\n"
    cp_bad = H18 + "agraph (float[1,1,5,5] x) => (float[?,?,?,?] y)\n<float[1,1,3,3] w = {1,1,1,1,1,1,1,1,1}, int64[8] pads = {0,1,1,2,0,0,1,0}>\n{\n  t = Pad (x, pads)\n  y = Conv (t, w)\n}\n"
    cp_refl = H18 + 'agraph (float[1,1,5,5] x) => (float[?,?,?,?] y)\n<float[1,1,3,3] w = {1,1,1,1,1,1,1,1,1}, int64[8] pads = {0,0,2,2,0,0,2,2}>\n{\n  t = Pad <mode = "reflect"> (x, pads)\n  y = Conv (t, w)\n}\n'
    cpi_ok = H18 + "agraph (uint8[1,1,5,5] x) => (int32[?,?,?,?] y)\n<uint8[1,1,3,3] w = {1,1,1,1,1,1,1,1,1}, int64[8] pads = {0,0,1,2,0,0,1,0}>\n{\n  t = Pad (x, pads)\n  y = ConvInteger (t, w)\n}\n"
    cpi_bad = H18 + "agraph (uint8[1,1,5,5] x) => (int32[?,?,?,?] y)\n<uint8[1,1,3,3] w = {1,1,1,1,1,1,1,1,1}, int64[8] pads = {0,1,1,2,0,0,1,0}>\n{\n  t = Pad (x, pads)\n  y = ConvInteger (t, w)\n}\n"
    _rr = __import__("random").Random(11)
    rms1 = G.m_rms_norm(_rr)[0]
    rms2 = G.m_rms_norm(_rr)[0]
    fl_a = H18 + "agraph (float[2,3,4] x) => (float[?,?] y)\n{\n  y = Flatten <axis = 2> (x)\n}\n"
    fl_b = H18 + "agraph (float x) => (float[?,?] y)\n{\n  y = Flatten <axis = 1> (x)\n}\n"
    fold_mod = H18 + "agraph (float[2] x) => (float[2] y)\n<float[2] c1 = {1,2}, float[2] c2 = {3,4}>\n{\n  c = Add (c1, c2)\n  y = Add (x, c)\n}\n"
    fold_keep = H18 + "agraph (float[2] x) => (float[2] y)\n{\n  a = Abs (x)\n  y = Neg (a)\n}\n"
    unsq_plain = H18 + "agraph (float[3] x) => (float[?,?,?] y)\n<int64[1] a1 = {0}, int64[1] a2 = {1}>\n{\n  a = Unsqueeze (x, a1)\n  y = Unsqueeze (a, a2)\n}\n"
    unsq_named = H18 + "agraph (float[3] val_1) => (float[?,?,?] val_3)\n<int64[1] a1 = {0}, int64[1] val_2 = {1}>\n{\n  val_4 = Unsqueeze (val_1, a1)\n  val_3 = Unsqueeze (val_4, val_2)\n}\n"
    dft19 = '<ir_version: 9, opset_import: ["" : 19]>\nagraph (float[1,4,4,1] x) => (float[?,?,?,?] y)\n{\n  t0 = Identity (x)\n  t1 = DFT <axis = 1> (t0)\n  y = Identity (t1)\n}\n'
    dft19n = '<ir_version: 9, opset_import: ["" : 19]>\nagraph (float[1,4,4,1] x) => (float[?,?,?,?] y)\n{\n  val_0 = Identity (x)\n  val_1 = DFT <axis = 2> (val_0)\n  y = Identity (val_1)\n}\n'
    grid19 = '<ir_version: 9, opset_import: ["" : 19]>\nagraph (float[1,1,2,2] x, float[1,2,2,2] g) => (float[?,?,?,?] y)\n{\n  t0 = GridSample <mode = "bilinear"> (x, g)\n  y = Relu (t0)\n}\n'
    gn20 = '<ir_version: 9, opset_import: ["" : 20]>\nagraph (float[1,4,2,2] x) => (float[?,?,?,?] y)\n<float[2] sc = {1,2}, float[2] bi = {0,1}>\n{\n  t0 = GroupNormalization <num_groups = 2> (x, sc, bi)\n  y = Relu (t0)\n}\n'
    plain21 = '<ir_version: 10, opset_import: ["" : 21]>\nagraph (float[3] x) => (float[3] y)\n{\n  a = Relu (x)\n  y = Neg (a)\n}\n'  # ->20: down-conversion raises inside the inner pass
    plain19 = '<ir_version: 9, opset_import: ["" : 19]>\nagraph (float[3] x) => (float[3] y)\n{\n  a = Relu (x)\n  y = Neg (a)\n}\n'
    fold_sym = H18 + "agraph (float[N,4] x) => (int64[2] y)\n{\n  s = Shape (x)\n  y = Identity (s)\n}\n"
    fold_sym2 = H18 + "agraph (float[B,S,8] x) => (int64[1] y)\n<int64[1] st = {0}, int64[1] en = {1}>\n{\n  s = Shape (x)\n  y = Slice (s, st, en)\n}\n"
    ln1, _ = G.m_layer_norm(__import__("random").Random(5))
    ln2 = ln1.replace("1e-05", "0.001").replace("1e-06", "0.001")
    boom, _ = G.m_boom(rng)
    if_src = "@DEC\ndef dt(x: FLOAT[4], flag: BOOL):\n    if flag:\n        tmp = op.Neg(x)\n        acc = op.Abs(x)\n        b = op.Mul(x, 2.0)\n        k2 = op.Add(x, x)\n    else:\n        tmp = op.Abs(x)\n        acc = op.Neg(x)\n        b = op.Mul(x, 3.0)\n        k2 = op.Sub(x, x)\n    return op.Add(op.Add(tmp, acc), op.Add(b, k2))\n"
    M = lambda op, text, **kw: {"k": "model", "op": op, "model": text, **kw}  # noqa: E731
    md = {"k": "model", "op": "rewrite", "rules": "multi_domain", "domains": ["com.microsoft", "custom.ext", "third.dom"], "preimported": [],
          "model": H18 + "agraph (float[4] x) => (float[4] y)\n{\n  y = Softsign (x)\n}\n"}
    af = G.m_as_function(__import__("random").Random(7))[0]
    sq13 = '<ir_version: 7, opset_import: ["" : 13]>\nagraph (float[3] x) => (float[3] y)\n<float[1,3] k = {1,2,3}, int64[1] ax = {0}>\n{\n  c = Squeeze (k, ax)\n  y = Mul (x, c)\n}\n'
    sq11 = '<ir_version: 7, opset_import: ["" : 11]>\nagraph (float[3] x) => (float[3] y)\n<float[1,3] k = {1,2,3}>\n{\n  c = Squeeze <axes = [0]> (k)\n  y = Mul (x, c)\n}\n'
    ca = {"k": "script", "name": "dca", "src": "@DEC\ndef dca(x: FLOAT[3]):\n    y = x + 1.0\n    return y\n"}
    ca2 = {"k": "script", "name": "dck", "src": "@DEC\ndef dck(x: FLOAT[3]):\n    k = 2.0\n    return x * k\n"}
    cb = {"k": "script", "name": "dcb", "src": "@DEC\ndef dcb(const: INT64[3], x: FLOAT[3]):\n    return x + const\n"}
    cb2 = {"k": "script", "name": "dcb2", "src": "@DEC\ndef dcb2(k: INT64[3], x: FLOAT[3]):\n    return op.Mul(x, k)\n"}
    pairs = [
        {"tag": "C14-N2:witness replacement introducing three new domains across hash seeds", "history": [], "target": md},
        {"tag": "as_function:three custom domains across hash seeds and after a rewrite", "history": [md], "target": af},
        {"tag": "fold:Squeeze@13 then Squeeze@11 (version-sensitive op, one process)", "history": [M("optimize", sq13), M("fold", sq13)], "target": M("optimize", sq11)},
        {"tag": "fold:Squeeze@11 then Squeeze@13", "history": [M("fold", sq11)], "target": M("fold", sq13)},
        {"tag": "translate:identifier constant in one script, tensor in the next (const)", "history": [ca], "target": cb},
        {"tag": "translate:identifier constant in one script, tensor in the next (k)", "history": [ca2, ca], "target": cb2},
        {"tag": "stash:ReshapeReshape fail-after-write then ok", "history": [M("rewrite", rr_fail), M("rewrite", rr_az)], "target": M("rewrite", rr_ok)},
        {"tag": "stash:ReshapeReshape ok then ok(other shape)", "history": [M("rewrite", rr_ok), M("optimize", rr_az)], "target": M("optimize", rr_ok2)},
        {"tag": "stash:ReshapeReshape ok then allowzero early success", "history": [M("rewrite", rr_ok)], "target": M("rewrite", rr_az)},
        {"tag": "stash:ReshapeReshape allowzero then fail-after-write", "history": [M("rewrite", rr_az)], "target": M("rewrite", rr_fail)},
        {"tag": "stash:Materialize ok then two-symbolic", "history": [M("rewrite", mat_ok)], "target": M("rewrite", mat_two)},
        {"tag": "stash:Materialize two-symbolic then ok", "history": [M("rewrite", mat_two)], "target": M("rewrite", mat_ok)},
        {"tag": "stash:FuseConvPad rejected-after-write then ok", "history": [M("rewrite", cp_bad), M("rewrite", cp_refl)], "target": M("rewrite", cp_ok)},
        {"tag": "stash:FuseConvPad ok then rejected", "history": [M("rewrite", cp_ok)], "target": M("rewrite", cp_refl)},
        {"tag": "stash:Flatten2Reshape known then unknown", "history": [M("rewrite", fl_a)], "target": M("rewrite", fl_b)},
        {"tag": "stash:LayerNorm commuted rules share one instance", "history": [M("rewrite", ln1, rules="layer_norm_commute"), M("rewrite", ln2, rules="layer_norm")], "target": M("rewrite", ln1, rules="layer_norm_commute")},
        {"tag": "evalctx:raising default_as body then eager script", "history": [{"k": "evalctx", "b": 3, "body": ["s", [2, ["r"]]]}],
         "target": {"k": "evalctx", "b": 1, "body": ["s", [2, ["s"]], "s"]}},
        {"tag": "stash:RmsNorm then RmsNorm (other dtype)", "history": [M("rewrite", rms1, rules="rms_norm")], "target": M("rewrite", rms2, rules="rms_norm")},
        {"tag": "stash:FuseConvIntegerPad rejected-after-write then ok", "history": [M("rewrite", cpi_bad)], "target": M("rewrite", cpi_ok)},
        {"tag": "stash:LayerNorm eps then other eps", "history": [M("rewrite", ln1, rules="layer_norm")], "target": M("rewrite", ln2, rules="layer_norm")},
        {"tag": "failing:rewrite aborted by an exception then ok", "history": [M("rewrite", boom, rules="default_then_boom"), M("rewrite", boom, rules="boom_first")], "target": M("rewrite", rr_ok)},
        {"tag": "failing:rule set object abandoned by an exception, then the SAME rule set object names new values",
         "history": [M("rewrite", boom, rules="default_then_boom"), M("rewrite", unsq_named, rules="default_then_boom")],
         "target": M("rewrite", unsq_plain, rules="default_then_boom")},
        {"tag": "failing:ConvertVersionPass abandoned inside an adapter, then the SAME pass object",
         "history": [M("convert_pass", dft19, target=20), M("convert_pass", plain21, target=20), M("convert_pass", grid19, target=20)], "target": M("convert_pass", dft19n, target=20)},
        {"tag": "fold:evaluator lookup below the version boundary, then the same op above it (Softmax 12 -> 13)",
         "history": [G.m_evaluator_version(_rr, 12, "Softmax")[0]], "target": G.m_evaluator_version(_rr, 13, "Softmax")[0]},
        {"tag": "fold:evaluator lookup above the boundary, then below (LogSoftmax 13 -> 11)",
         "history": [G.m_evaluator_version(_rr, 13, "LogSoftmax")[0]], "target": G.m_evaluator_version(_rr, 11, "LogSoftmax")[0]},
        {"tag": "fold:evaluator lookup, three versions of one op (Hardmax 1, 18 -> 13)",
         "history": [G.m_evaluator_version(_rr, 1, "Hardmax")[0], G.m_evaluator_version(_rr, 18, "Hardmax")[0]], "target": G.m_evaluator_version(_rr, 13, "Hardmax")[0]},
        {"tag": "fold:modified then unmodified (shared pass)", "history": [M("fold", fold_mod)], "target": M("fold", fold_keep)},
        {"tag": "fold:interrupted then unmodified (shared pass)", "history": [M("fold", fold_mod, raise_on="Add")], "target": M("fold", fold_keep)},
        {"tag": "fold:symbolic values recorded then none (shared pass)", "history": [M("fold", fold_sym)], "target": M("fold", fold_keep)},
        {"tag": "fold:symbolic values recorded then others", "history": [M("fold", fold_sym), M("fold", fold_mod)], "target": M("fold", fold_sym2)},
        {"tag": "fold:interrupted then modified", "history": [M("fold", fold_mod, raise_on="Add")], "target": M("fold", fold_mod)},
        {"tag": "rewrite_pass:value names of the previous model (shared RewriteRuleSet._value_names)",
         "history": [M("rewrite", unsq_named, rules="default_pass"), M("rewrite", unsq_named, rules="layer_norm")],
         "target": M("rewrite", unsq_plain, rules="default_pass")},
        {"tag": "rewrite_pass:fresh val_<n> names against the model's own names", "history": [M("rewrite", unsq_plain, rules="default_pass")],
         "target": M("rewrite", unsq_named, rules="default_pass")},
        {"tag": "convert_pass:same ConvertVersionPass object, adapter-created value names (GroupNormalization then DFT, ->21)",
         "history": [M("convert_pass", gn20, target=21)], "target": M("convert_pass", dft19, target=21)},
        {"tag": "convert_pass:same ConvertVersionPass object (DFT then DFT with val_<n> names, ->20)",
         "history": [M("convert_pass", dft19, target=20), M("convert_pass", grid19, target=20)], "target": M("convert_pass", dft19n, target=20)},
        {"tag": "convert_pass:unmodified model after a modified one (->20)",
         "history": [M("convert_pass", dft19, target=20)], "target": M("convert_pass", plain19, target=20)},
        {"tag": "rewrite_pass:shared RewritePass", "history": [M("rewrite", rr_ok, rules="default_pass")], "target": M("rewrite", fold_keep, rules="default_pass")},
        {"tag": "opset:same domain other version", "history": [{"k": "opset", "domain": "my.dom", "version": 1}],
         "target": {"k": "script", "name": "dt", "src": "@script(MYOP, default_opset=op)\ndef dt(x: FLOAT[3]):\n    return op.Abs(x)\n",
                    "header": "from onnxscript.values import Opset\nMYOP = Opset('my.dom', 2)\n"}},
        {"tag": "opset:fields", "history": [{"k": "opset", "domain": "my.dom", "version": 1}, {"k": "opset", "domain": "my.dom", "version": 3}],
         "target": {"k": "opset", "domain": "my.dom", "version": 2}},
        {"tag": "D12:raising pattern_builder body then sugar", "history": [{"k": "pattern", "b": 5, "body": ["s", "r"]}], "target": {"k": "sugar"}},
        {"tag": "D12:nested raising body then pattern", "history": [{"k": "pattern", "b": 2, "body": [[3, ["s", "r"]]]}, {"k": "badpattern"}],
         "target": {"k": "pattern", "b": 1, "body": ["s", [2, ["s"]], "s"]}},
        {"tag": "D8:If with four live outputs across hash seeds", "history": [], "target": {"k": "script", "name": "dt", "src": if_src, "want_ctrl": True}},
        {"tag": "translate:refused script then script", "history": [{"k": "script", "name": "hb", "src": "@DEC\ndef hb(x: FLOAT[3]):\n    return op.Add(x, undefined_name)\n"}],
         "target": {"k": "script", "name": "dt", "src": if_src, "want_ctrl": True}},
        {"tag": "convert:after optimize", "history": [M("optimize", rr_ok), M("convert", fold_keep, target=99)], "target": M("convert", rr_ok, target=21)},
    ]
    return pairs


# --------------------------------------------------------------------------- the check


class Checker:
    def __init__(self, run: core.Run, pool: Pool, drv: core.Driver, rows: dict):
        self.run = run
        self.pool = pool
        self.drv = drv
        self.rows = rows
        self.stats: Counter = Counter()
        self.prop_failures: list[tuple[dict, str]] = []  # (replay case, what)
        self.tie_failures: list[tuple[dict, str]] = []
        self.d15_hits: list[tuple[dict, str]] = []
        self.n1_hits: list[tuple[dict, str]] = []
        self.n2_hits: list[tuple[dict, str]] = []
        self.events: Counter = Counter()
        self.names: dict = {}
        self.ctrls: dict = {}
        self.model_lines: list[tuple[str, str, dict]] = []  # (driver line, expected, case)
        # entry objects (generated entryRows): class -> entry method; the worker records every call's field-access trace
        self.entry_map = {r["name"]: r["entry"] for r in rows.get("globals", {}).get("entryRows", []) if r["name"] != "Converter"}
        self.ecalls: Counter = Counter()

    # ---- differential on (history, target) pairs
    def differential(self, pairs: list[dict], seeds_fresh=SEEDS, monitor_every=2) -> None:
        jobs = []
        index = []
        fresh_owner: dict[str, int] = {}  # identical targets share their fresh-state runs
        for pi, pr in enumerate(pairs):
            t = strip_op(pr["target"])
            key = json.dumps(t, sort_keys=True)
            if key not in fresh_owner:
                fresh_owner[key] = pi
                for s in seeds_fresh:
                    jobs.append((s, {"id": f"p{pi}-fresh-{s}", "ops": [t]}))
                    index.append((pi, "fresh", s))
            if pr["history"]:
                hs = pr.get("hseeds") or [SEEDS[(pi + 1) % len(SEEDS)], SEEDS[(pi + 3) % len(SEEDS)]]
                for j, s in enumerate(hs):
                    mon = (pi + j) % monitor_every == 0
                    jobs.append((s, {"id": f"p{pi}-hist-{s}", "ops": [strip_op(o) for o in pr["history"]] + [t], "monitor": mon,
                                     "entry": self.entry_map if mon else None}))
                    index.append((pi, "hist", s))
        reps = self.pool.run(jobs)
        per: dict[int, dict] = {}
        for (pi, kind, s), rep in zip(index, reps):
            infra_check(rep)
            per.setdefault(pi, {"fresh": {}, "hist": {}})[kind][s] = rep
            self.absorb(rep, pairs[pi], kind, s)
        for pi, pr in enumerate(pairs):
            d = per.setdefault(pi, {"fresh": {}, "hist": {}})
            owner = fresh_owner[json.dumps(strip_op(pr["target"]), sort_keys=True)]
            shared_fresh = owner != pi
            if shared_fresh:
                d = {"fresh": per[owner]["fresh"], "hist": d["hist"]}
            self.stats["pairs"] += 1
            self.stats["tag:" + pr["tag"].split(":")[0]] += 1
            fresh = {s: last_digest(r) for s, r in d["fresh"].items()}
            base_seed = seeds_fresh[0]
            base = fresh[base_seed]
            if not shared_fresh:
                self.stats["fresh_runs"] += len(fresh)
                self.stats["distinct_targets"] += 1
            if base.startswith("ERR:"):
                self.stats["target_raises_when_fresh"] += 1
            for s, dg in fresh.items():
                if dg != base and not shared_fresh:
                    t = pr["target"]
                    if t.get("rules") == "multi_domain":
                        ra, rb = d["fresh"][base_seed]["results"][-1], d["fresh"][s]["results"][-1]
                        new = [dm for dm in dict.fromkeys(t["domains"]) if dm not in t.get("preimported", [])]
                        # predicate of C14-N2: >= 2 NEW domains, and the two results are equal up to the ORDER of opset_import
                        if len(new) >= 2 and ra.get("digest_sorted_imports") == rb.get("digest_sorted_imports"):
                            self.n2_hits.append((
                                {"kind": "seeds", "target": t, "history": [], "seed_a": base_seed, "seed_b": s, "tag": pr["tag"]},
                                f"rewrite whose replacement introduces the new domains {new}: opset_import order {ra.get('opset_imports')} under PYTHONHASHSEED={base_seed}, "
                                f"{rb.get('opset_imports')} under {s}; serialized bytes differ ({base} / {dg})"))
                            break
                    self.prop_failures.append((
                        {"kind": "seeds", "target": pr["target"], "history": [], "seed_a": base_seed, "seed_b": s, "tag": pr["tag"]},
                        f"result of the target differs between fresh processes with PYTHONHASHSEED={base_seed} ({base}) and {s} ({dg}) [{pr['tag']}]",
                    ))
                    break
            for s, rep in d["hist"].items():
                self.stats["history_runs"] += 1
                self.stats["history_ops"] += len(pr["history"])
                self.stats["history_failing_ops"] += sum(1 for r in rep["results"][:-1] if r.get("err"))
                dg = last_digest(rep)
                if dg != fresh.get(s, base):
                    self.prop_failures.append((
                        {"kind": "history", "target": pr["target"], "history": pr["history"], "seed": s, "tag": pr["tag"]},
                        f"result of the target after a history of {len(pr['history'])} operations ({dg}) differs from the fresh-process result ({fresh.get(s, base)}), PYTHONHASHSEED={s} [{pr['tag']}]",
                    ))

    # ---- per-reply observations
    def absorb(self, rep: dict, pair: dict, kind: str, seed: str) -> None:
        ops = ([] if kind == "fresh" else pair["history"]) + [pair["target"]]
        for op, res in zip(ops, rep["results"]):
            self.stats["ops_executed"] += 1
            self.stats["op:" + op["k"] + (":" + op.get("op", "") if op["k"] == "model" else "")] += 1
            if res.get("err"):
                self.stats["ops_raising"] += 1
            case = {"kind": "single", "op": op, "seed": seed}
            if res.get("unexpected"):
                self.stats["ops_raising_unexpectedly"] += 1
                self.tie_failures.append((case, f"operation {op['k']} raised {res['err']} inside the implementation where the model expects a result: {res['unexpected'][-300:]}"))
                continue
            if op["k"] == "script" and not res.get("err"):
                self.stats["scripts_translated"] += 1
                if res.get("repeat_equal") is False:
                    self.prop_failures.append((case, "to_model_proto() called repeatedly returned different bytes"))
                if res.get("function_unchanged") is False:
                    self.prop_failures.append((case, "to_function_proto() differs before/after to_model_proto(): the function was modified"))
                if res.get("after_mutation_equal") is False:
                    if op.get("inplace_payload_in_body"):
                        self.n1_hits.append((case, (
                            f"protos changed after IN-PLACE mutation of a numpy array / TensorProto global used as a tensor constant: "
                            f"body {op.get('rbody')}, mutations {op.get('mutate')}: Constant payloads {res.get('consts')} -> {res.get('consts_after')}")))
                    else:
                        self.prop_failures.append((case, "protos changed after mutating globals referenced by the script"))
                if "rbody" in op and "consts" in res:
                    self.ndarray_case(op, res, case)
                if "after_mutation_equal" in res:
                    self.stats["global_mutations_checked"] += 1
                if "override_digest" in res:
                    self.stats["script_override_calls"] += 1
                    if res.get("plain_after_override_equal") is False:
                        self.prop_failures.append((case, f"to_model_proto() after to_model_proto(**{op['proto_overrides']}) on the same function differs from the call before it: the override was remembered"))
                    if res.get("kwargs_unchanged") is False:
                        self.prop_failures.append((case, f"to_model_proto(**{op['proto_overrides']}) modified the function's kwargs"))
                if "body" in op and "consts" in res:
                    self.globals_case(op, res, case)
                for kind_, outs in res.get("ctrl_outputs", []):
                    self.stats[f"ctrl_{kind_}_outputs_{min(len(outs), 5)}"] += 1
            elif op["k"] == "header" and not res.get("err"):
                nd = lambda d_: d_ or "~"  # noqa: E731
                exp = ";".join(f"{nd(dm)}={v}" for dm, v in res["imports"]) + f" ir={res['ir_version']}"
                self.model_lines.append((G.header_line(op, res), exp, case))
                self.stats["header_cases"] += 1
                self.stats["header_graph_without_std_opset"] += int(not any(dm == "" for dm, _ in res["graph_imports"]))
                self.stats["header_std_from_function"] += int(not any(dm == "" for dm, _ in res["graph_imports"]) and any(f_[2] is not None for f_ in res["funcs"]))
                self.stats["header_with_opset_version_kw"] += int("opset_version" in op.get("kw", {}))
                no_std_anywhere = not any(dm == "" for dm, _ in res["graph_imports"]) and not any(f_[2] is not None for f_ in res["funcs"])
                self.stats["header_std_from_kw_or_latest"] += int(no_std_anywhere)
                self.stats["header_std_from_opset_version_kw"] += int(no_std_anywhere and "opset_version" in op.get("kw", {}))
                self.stats[f"header_called_functions_{min(len(res['funcs']), 3)}"] += 1
            elif op["k"] == "header":
                self.stats["header_refused"] += 1
            elif op["k"] in ("pattern", "evalctx"):
                # `evaluator.default_as` is the same state machine as `pattern_builder` (swap a module global, try/finally)
                self.stats["evalctx" if op["k"] == "evalctx" else "pattern"] += 1
                line = G.pattern_line(1, 0, op)
                exp = f"global={res['global']} seen={csvs(res['seen'])} raised={int(res['raised'])}"
                self.model_lines.append((line, exp, case))
                self.stats["pattern_raised" if res["raised"] else "pattern_normal"] += 1
                if res["global"] != 0:
                    which = "_pattern_builder" if op["k"] == "pattern" else "evaluator._default_evaluator"
                    self.prop_failures.append((case, f"{which} global not restored after the context manager exited (left at {res['global']})"))
            elif op["k"] == "opset":
                self.model_lines.append((f"intern - Opset/{op['domain'] or '~'}/{op['version']}".replace("/~/", "//"), None, case))
                if res.get("subclass") != [True, True, ["", 18], ["", 18]]:
                    self.prop_failures.append((case, f"Opset cache across subclasses: Opset18() / Opset('',18) observations {res.get('subclass')}"))
                if res["fields"] != [op["domain"], op["version"]] or not res["same_instance"]:
                    self.prop_failures.append((case, f"Opset({op['domain']!r},{op['version']}) returned an object with fields {res['fields']}"))
            elif op["k"] == "model" and op.get("rules") == "multi_domain" and not res.get("err"):
                nd = lambda d_: d_ or "~"  # noqa: E731
                existing = ";".join(f"{nd(dm)}={v}" for dm, v in [["", 18]] + [[dm, 1] for dm in op.get("preimported", [])])
                exp = ";".join(f"{nd(dm)}={v}" for dm, v in res["opset_imports"])
                srt = 1  # the model is the repaired code (630be50); bare set iteration is a regression, never followed
                self.model_lines.append((f"imports {srt} {existing} {csvs(res['set_iter'])}", exp, case))
                new = [dm for dm in op["domains"] if dm not in op.get("preimported", [])]
                self.stats[f"multi_domain_new_{min(len(new), 4)}"] += 1
                self.stats["multi_domain_set_iteration_unsorted"] += int(res["set_iter"] != sorted(res["set_iter"]))
            elif op["k"] == "model" and op.get("rules") == "as_function" and not res.get("err"):
                self.stats["as_function_rewrites"] += 1
                fi = res.get("function_imports") or []
                if not fi or len(fi[0]) < 3:
                    self.tie_failures.append((case, f"as_function case did not produce a function with three custom-domain imports: {fi}"))
            elif op["k"] == "model" and op.get("op") == "convert_pass" and "new_val_names" in res:
                if all("," not in n and " " not in n for n in res["names_before"]):
                    k_new = len(res["new_val_names"])
                    self.model_lines.append((f"vcnames {csvs(res['names_before'])} {k_new}", csvs(res["new_val_names"]) + f" namefix={int(k_new > 0)}", case))
                    self.stats["convert_pass_cases"] += 1
                    self.stats["convert_pass_adapter_values_named"] += k_new
                    self.stats["convert_pass_skipping_existing_val_names"] += int(k_new > 0 and any(n.startswith("val_") for n in res["names_before"]))
            elif op["k"] == "model" and op.get("rules") == "default_pass" and "new_val_names" in res:
                if all("," not in n and " " not in n for n in res["names_before"]):
                    self.model_lines.append((f"fresh {csvs(res['names_before'])} {len(res['new_val_names'])}", csvs(res["new_val_names"]), case))
                    self.stats["fresh_value_name_cases"] += 1
                    self.stats["fresh_value_names_created"] += len(res["new_val_names"])
                    self.stats["fresh_value_names_skipping_existing"] += int(any(n.startswith("val_") for n in res["names_before"]) and bool(res["new_val_names"]))
            elif op["k"] == "model" and op.get("op") == "fold" and not res.get("err"):
                self.stats["fold_modified" if res.get("modified") else "fold_unmodified"] += 1
            if op["k"] == "model" and op.get("watch_op") and "watch_left" in res:
                # evaluator lookup is a function of (domain, op, VERSION): Softmax family has no evaluator below opset 13
                self.model_lines.append((f"evalgap ~ {op['watch_op']} {op['watch_opset']}", f"left={int(res['watch_left'] > 0)}", case))
                self.stats["evaluator_version_cases"] += 1
                self.stats["evaluator_gap_below_13_not_folded" if res["watch_left"] else "evaluator_from_13_folded"] += 1
                self.stats[f"evaluator_version_opset_{op['watch_opset']}"] += 1
        for k, v in (rep.get("events") or {}).items():
            self.events[k] += v
        for k, v in (rep.get("ecalls") or {}).items():
            self.ecalls[k] += v
        for n in rep.get("names") or []:
            self.names[json.dumps(n)] = n
        for c in rep.get("ctrl") or []:
            self.ctrls[json.dumps(c)] = c

    # ---- to_model_proto(**overrides) histories on functions sharing a decorator object
    def kwseq(self, ops: list[dict]) -> None:
        jobs = []
        for i, op in enumerate(ops):
            s = SEEDS[i % len(SEEDS)]
            jobs.append((s, {"id": f"kw{i}", "ops": [op]}))
            jobs.append((s, {"id": f"kw{i}f", "ops": [{**op, "calls": []}]}))
        jobs.append(("0", {"id": "kwdef", "ops": [{"k": "kwseq", "decos": [{}], "fns": [0], "calls": [], "target": [0, {}]}]}))
        reps = self.pool.run(jobs)
        for r in reps:
            infra_check(r)
        default_ir = reps[-1]["results"][0]["eff"]["ir_version"]
        keys = [k for k in G.KW_KEYS if k != "opset_version"]
        defaults = {k: None for k in keys}
        defaults.update(ir_version=default_ir, model_version=0)
        for i, op in enumerate(ops):
            full, fresh = reps[2 * i]["results"][0], reps[2 * i + 1]["results"][0]
            case = {"kind": "single", "op": op, "seed": SEEDS[i % len(SEEDS)]}
            self.stats["kwseq_cases"] += 1
            self.stats["kwseq_calls"] += len(op["calls"])
            self.stats["ops_executed"] += 2
            if full.get("err") and not fresh.get("err"):
                self.prop_failures.append((case, f"to_model_proto after a history of to_model_proto(**overrides) calls raises ({full.get('err')}) while the same call in fresh state succeeds"))
                continue
            if fresh.get("err"):
                # the implementation refuses the case even without any history: nothing to compare; counted, and the
                # run fails as infrastructure only if this is the rule rather than the exception
                self.stats["kwseq_refused_fresh"] += 1
                if self.stats["kwseq_refused_fresh"] > 0.3 * len(ops):
                    self.tie_failures.append((case, f"to_model_proto(**overrides) cases are refused by the implementation in fresh state ({fresh.get('err')}) — the model expects them to succeed"))
                continue
            ti = op["target"][0]
            same_deco = sum(1 for fi, _ in op["calls"] if fi != ti and op["fns"][fi] == op["fns"][ti])
            self.stats["kwseq_calls_on_siblings_of_target"] += same_deco
            self.stats["kwseq_calls_on_target"] += sum(1 for fi, _ in op["calls"] if fi == ti)
            if full["digest"] != fresh["digest"]:
                self.prop_failures.append((case, (
                    f"to_model_proto(**{op['target'][1]}) / to_model_proto() / to_function_proto() of kf{ti} after {len(op['calls'])} earlier "
                    f"to_model_proto(**overrides) calls differ from the fresh result: shows {full['eff']} / {full['plain']}, fresh {fresh['eff']} / {fresh['plain']}")))
            if not full["kwargs_unchanged"]:
                self.prop_failures.append((case, f"to_model_proto(**overrides) modified function kwargs: {full['kwargs_before']} -> {full['kwargs_after']}"))
            if not full["function_protos_unchanged"]:
                self.prop_failures.append((case, "to_function_proto() of some function changed after to_model_proto(**overrides) calls"))
            # model (current, non-aliasing) vs implementation
            dicts = "|".join(
                f"{r}:" + (";".join(f"{k}={v}" for k, v in sorted(full["kwargs_after"][op["fns"].index(r)].items())) or "-")
                for r in dict.fromkeys(op["fns"])
            )
            self.model_lines.append((G.kw_line(op), ("kw", full["eff"], full["plain"], dicts, defaults, keys), case))

    def ndarray_case(self, op: dict, res: dict, case: dict) -> None:
        pre = sexp_prefix(op["rbody"])
        g = ";".join(f"{k}={v}" for k, v in op["rglobals"].items())
        c0 = ";".join(f"{i}={v}" for i, v in enumerate(op["cells0"]))
        c1 = ";".join(f"{i}={v}" for i, v in enumerate(op["cells1"]))
        first = lambda cs: csvs([c[0] for c in cs])  # noqa: E731  (arrays are constant-filled)
        copy = 1  # the model is the fixed code (b4400e5); a by-reference site is a regression, never followed
        self.model_lines.append((f"globr {pre} {g} {c0} {c1}", f"before={first(res['consts'])} after={first(res.get('consts_after', res['consts']))} copy={copy}", case))
        self.stats["ndarray_scripts"] += 1
        self.stats["ndarray_scripts_inplace_touching_body" if op.get("inplace_payload_in_body") else "ndarray_scripts_not_touching"] += 1
        if op.get("in_loop"):
            self.stats["ndarray_scripts_in_loop_body"] += 1
        mentioned = {t[2:] for t in pre.split(",") if t.startswith("g:")}
        touched = {m[0] for m in op["mutate"]} & mentioned
        if res.get("eager_before") != res.get("eager_after"):
            what = f"eager call changed after post-decoration mutation of globals {sorted(touched)}: body {op['rbody']}, before {res.get('eager_before')}, after {res.get('eager_after')}"
            if touched:
                self.d15_hits.append((case, what))
            else:
                self.prop_failures.append((case, "eager result changed although no global mentioned by the body was mutated: " + what))

    def globals_case(self, op: dict, res: dict, case: dict) -> None:
        g0 = dict(op["globals"])
        g1 = dict(g0)
        for name, val in op.get("mutate", []):
            g1[name] = val
        pre = sexp_prefix(op["body"])
        mentioned = {t[2:] for t in pre.split(",") if t.startswith("g:")}
        changed = {k for k in g0 if g0[k] != g1[k]} & mentioned
        self.stats["globals_mutation_" + ("touching_body" if changed else "not_touching_body")] += 1
        for i, x in enumerate(op["eager_x"][:2]):
            line = f"glob {pre} {gl_str(g0)} {gl_str(g1)} {x}"
            gv, eb, ea = res.get("graph_value"), res.get("eager_before"), res.get("eager_after")
            pv = gv[i] if isinstance(gv, list) else "none"
            ev = ea[i] if isinstance(ea, list) else "none"
            flat = [v for c in res["consts"] for v in c]
            self.model_lines.append((line, f"consts={csvs(flat)} proto={pv} eager={ev}", case))
            line0 = f"glob {pre} {gl_str(g0)} {gl_str(g0)} {x}"
            evb = eb[i] if isinstance(eb, list) else "none"
            self.model_lines.append((line0, f"consts={csvs(flat)} proto={pv} eager={evb}", case))
        if res.get("eager_before") != res.get("eager_after"):
            what = (
                f"eager call changed after post-decoration mutation of globals {sorted(changed) or sorted(set(g1) - set())}: "
                f"body {op['body']}, {g0} -> {g1}, x={op['eager_x']}: before {res.get('eager_before')}, after {res.get('eager_after')}, "
                f"graph (proto) {res.get('graph_value')}"
            )
            if changed:
                self.d15_hits.append((case, what))
            else:
                self.prop_failures.append((case, "eager result changed although no global mentioned by the body was mutated: " + what))

    # ---- model vs implementation on the collected observations
    def model_ties(self) -> None:
        lines, exps, cases = [], [], []
        for k, n in self.events.items():
            rule, ok, W, CR, R2, stale, nocheck = json.loads(k)
            lines.append(f"event {rule} {ok} W={csvs(W)} CR={csvs(CR)} R2={csvs(R2)}")
            exps.append(("event", rule, ok, stale, n))
            cases.append({"kind": "event", "event": json.loads(k)})
        for n in self.names.values():
            used, nv, cand, r = n
            if any(" " in u for u in used) or " " in cand:
                continue
            lines.append(f"uniq {csvs(used)} {nv} {cand}")
            exps.append(("uniq", r))
            cases.append({"kind": "uniq", "call": n})
        for c in self.ctrls.values():
            it, live = c
            lines.append(f"ctrl 1 - 0 {csvs(it)}")
            exps.append(("ctrl", live))
            cases.append({"kind": "ctrl", "iter": it, "live_defs": live})
        for line, exp, case in self.model_lines:
            lines.append(line)
            exps.append(("raw", exp))
            cases.append(case)
        # every stashing rule class of rules/{common,fusion} that has an instance in the process must have been observed
        # succeeding, and what was observed over the whole run must be exactly the row (no listed field never seen)
        agg: dict[str, dict] = {}
        for k, n in self.events.items():
            rule, ok, W, CR, R2, stale, nocheck = json.loads(k)
            a = agg.setdefault(rule, {"W": set(), "R2": set(), "ok": 0, "fail": 0})
            a["W"] |= set(W)
            a["R2"] |= set(R2)
            a["ok" if ok == "ok" else "fail"] += n
        self.row_required = []
        for r in self.rows["rules"]:
            if not r["rewriteReads"] or r["name"].startswith("_"):
                continue  # no stash, or an abstract base without instances
            rname = f"{r['module'].rsplit('/', 1)[-1][:-3]}.{r['name']}"
            a = agg.get(rname, {"W": set(), "R2": set(), "ok": 0, "fail": 0})
            self.stats[f"row_monitored_ok:{r['name']}"] = a["ok"]
            self.row_required.append((r["name"], a["ok"]))
            if a["ok"]:
                lines.append(f"rowcover {rname} W={csvs(sorted(a['W']))} R2={csvs(sorted(a['R2']))}")
                exps.append(("rowcover", rname))
                cases.append({"kind": "rowcover", "rule": rname, "observed_writes": sorted(a["W"]), "observed_rewrite_reads": sorted(a["R2"])})
        # small-step traces of the entry objects: every monitored call (completed or abandoned by an exception) must obey
        # the discipline of its generated row (Lean `traceCheck`; theorem entry_call_fault_tolerant_history_independent),
        # and over the whole run the fields the row lists as assigned must all have been seen assigned (row exact)
        eagg: dict[str, set] = {}
        for k, n in self.ecalls.items():
            cls, raised, after, tr = json.loads(k)
            lines.append(f"etrace {cls} {csvs(tr)}")
            exps.append(("etrace", cls, raised, after, n))
            cases.append({"kind": "etrace", "class": cls, "raised": bool(raised), "previous_call_on_object_raised": bool(after), "trace": tr})
            eagg.setdefault(cls, set()).update(e[2:] for e in tr if e.startswith("w:"))
        for cls, W in sorted(eagg.items()):
            lines.append(f"ecover {cls} W={csvs(sorted(W))}")
            exps.append(("ecover", cls))
            cases.append({"kind": "ecover", "class": cls, "observed_writes": sorted(W)})
        outs = self.drv.ask(lines)
        for line, exp, case, out in zip(lines, exps, cases, outs):
            self.stats["model_lines"] += 1
            kind = exp[0]
            if kind == "etrace":
                _, cls, raised, after, n = exp
                self.stats["entry_calls"] += n
                self.stats["entry_traces_distinct"] += 1
                self.stats[f"entry_calls:{cls}"] += n
                if raised:
                    self.stats[f"entry_calls_abandoned:{cls}"] += n
                if after:
                    self.stats[f"entry_calls_after_abandoned:{cls}"] += n
                if out != "conforms":
                    self.tie_failures.append((case, f"an object of entry class {cls} did, in one call of its entry method, something its generated row does not admit: {out}"))
            elif kind == "ecover":
                self.stats["entry_rows_checked_exact"] += 1
                if out != "exact":
                    self.tie_failures.append((case, f"generated entry row of {exp[1]} lists assigned fields never observed assigned in the run: {out}"))
            elif kind == "event":
                _, rule, ok, stale, n = exp
                self.stats["try_rewrite_events"] += n
                if out == "unknown":
                    self.stats["events_of_rules_outside_tables"] += n
                    continue
                self.stats[f"event_{ok}"] += n
                if case["event"][2]:
                    self.stats["events_with_stash_writes"] += n
                    self.stats[f"stash_event:{rule.split('.')[-1]}:{ok}"] += n
                if out != "admit":
                    self.tie_failures.append((case, f"rule object {rule} did something its generated row does not admit: {out} (event {case['event']})"))
            elif kind == "rowcover":
                self.stats["rows_checked_exact"] += 1
                if out != "exact":
                    self.tie_failures.append((case, f"generated row of {exp[1]} is not what the rule object does over the whole run: {out}"))
            elif kind == "uniq":
                self.stats["uniq_calls"] += 1
                if out.split(" ")[0] != exp[1]:
                    self.tie_failures.append((case, f"_generate_unique_name: implementation {exp[1]!r}, model {out!r} for {line}"))
            elif kind == "ctrl":
                self.stats["ctrl_sites"] += 1
                self.stats["ctrl_sites_iteration_unsorted"] += int(case["iter"] != sorted(case["iter"]))
                m = out.split(" ")[0].split("=", 1)[1]
                if m != csvs(exp[1]):
                    self.tie_failures.append((case, f"If live_defs: implementation {exp[1]}, model {m} (set iterated as {case['iter']})"))
            elif isinstance(exp[1], tuple) and exp[1][0] == "kw":
                _, eff, plain, dicts, defaults, keys = exp[1]
                parts = dict(p.split("=", 1) for p in out.split(" "))
                ok = parts.get("dicts") == dicts
                for tag, obs in (("eff", eff), ("plain", plain)):
                    mv = parts.get(tag, "").split(",")
                    for k, m in zip(keys, mv):
                        want = defaults[k] if m == "none" else int(m)
                        ok = ok and obs[k] == want
                self.stats["kw_model_lines"] += 1
                if not ok:
                    self.tie_failures.append((case, f"to_model_proto overrides: model `{out}` vs implementation eff={eff} plain={plain} dicts={dicts}"))
            else:
                if exp[1] is None:
                    op = case["op"]
                    if out != f"{op['domain']} {op['version']}":
                        self.tie_failures.append((case, f"Opset interning: model {out!r} for {line}"))
                elif out != exp[1] and not out.startswith(exp[1] + " "):
                    self.tie_failures.append((case, f"model {out!r} ≠ implementation {exp[1]!r} for `{line}`"))


def regen_tables(run: core.Run) -> dict:
    data = extract_stash.extract(core.REPO)
    gen = core.LEAN / "OV" / "Gen" / "C14Stash.lean"
    if gen.exists() and gen.read_text() == extract_stash.emit_lean(data):
        changed = False  # nothing to write: no need to wait for the build lock
    else:
        with core.lake_lock():
            _, changed = extract_stash.write_lean(data, core.LEAN)
    gdata = c14_globals.extract(core.REPO)
    ggen = core.LEAN / "OV" / "Gen" / "C14Globals.lean"
    if not (ggen.exists() and ggen.read_text() == c14_globals.emit_lean(gdata)):
        with core.lake_lock():
            c14_globals.write_lean(gdata, core.LEAN)
    data["globals"] = gdata
    WOK = {"restore", "setter", "register", "classdef", "lru_cache", "entry", "guarded"}
    wok = lambda w: w["tag"] in WOK or (w["tag"] == "memo" and set(w["usedParams"]) <= set(w["keyParams"]))  # noqa: E731
    run.coverage["globals_table"] = {
        "files_scanned": len(gdata["files"]),
        "objects": len(gdata["globalRows"]),
        "never_written_after_import": sum(1 for r in gdata["globalRows"] if not r["writes"]),
        "written_rows": {r["name"]: sorted({w["tag"] for w in r["writes"]}) for r in gdata["globalRows"] if r["writes"]},
        "rows_not_ok": sorted(r["name"] for r in gdata["globalRows"] if not all(wok(w) for w in r["writes"])),
        "register_calls_in_functions": gdata["registerCallsInFunctions"],
        "private_entry_calls": gdata["privateEntryCalls"],
        "id_hash_sites": len(gdata["idHashSites"]),
        "id_hash_sites_other": [x["site"] for x in gdata["idHashSites"] if x["use"] not in ("membership", "repr")],
        "entry_rows": {r["name"] + "." + r["entry"]: {"earlyReads": r["earlyReads"], "helperReads": r.get("helperReads", []), "mayWrite": r["mayWrite"]} for r in gdata["entryRows"]},
        "set_iteration_sites": len(gdata["setIterSites"]),
        "set_iteration_order_sensitive": [f"{s['file']}:{s['line']} {s['func']} {s['sink']}" for s in gdata["setIterSites"] if s["orderSensitive"]],
    }
    run.coverage["stash_table"] = {
        "rule_classes": len(data["rules"]),
        "ort_fusion_classes": len(data["ortRules"]),
        "classes_with_stash": sorted(r["name"] for r in data["rules"] + data["ortRules"] if r["rewriteReads"]),
        "rows_not_ok": sorted(r["name"] for r in data["rules"] if not extract_stash.row_ok(r)),
        "ort_rows_not_ok": sorted(r["name"] for r in data["ortRules"] if not extract_stash.row_ok(r)),
        "converter": data["converter"],
        "regenerated_file_changed": changed,
        "digest": extract_stash.digest(data),
    }
    return data


def focused_pairs(rng, cls: str, n: int) -> list[dict]:
    gen = FAMILY.get(cls)
    if gen is None:
        return []
    rules = FAMILY_RULES.get(cls)
    out = []
    for i in range(n):
        mk = lambda: {"k": "model", "op": "rewrite", "model": gen(rng)[0], **({"rules": rules} if rules else {})}  # noqa: E731
        out.append({"tag": f"focused:{cls}", "history": [mk() for _ in range(rng.randint(1, 4))], "target": mk()})
    return out


def gen_pairs(rng, n_targets: int, n_hist: int) -> list[dict]:
    pairs = []
    for ti in range(n_targets):
        tgt, ttag = G.gen_target(rng, ti)
        for hj in range(n_hist):
            hl = rng.randint(1, 8)
            hist, tags = [], []
            for k in range(hl):
                o, tg = G.gen_history_op(rng, ti * 100 + hj * 10 + k)
                hist.append(o)
                tags.append(tg)
            pairs.append({"tag": "gen:" + ttag, "history": hist, "target": tgt, "htags": tags})
    return pairs


def shrink_history(pool: Pool, case: dict) -> dict:
    """Greedy minimisation of a failing history (each probe = one fresh + one history job)."""
    seed = case["seed"]
    tgt = strip_op(case["target"])

    def fails(h):
        reps = pool.run([(seed, {"id": "s-f", "ops": [tgt]}), (seed, {"id": "s-h", "ops": [strip_op(o) for o in h] + [tgt]})])
        return last_digest(reps[0]) != last_digest(reps[1])

    try:
        h = core.shrink_list(case["history"], fails, max_steps=40)
    except core.Infra:
        return case
    return {**case, "history": h, "shrunk_from": len(case["history"])}


def replay(run: core.Run, pool: Pool, chk: Checker, case: dict) -> None:
    kind = case.get("kind")
    if kind in ("history", "seeds"):
        pr = {"tag": case.get("tag", "replay"), "history": case.get("history", []), "target": case["target"]}
        if kind == "history":
            pr["hseeds"] = [case["seed"]]
        chk.differential([pr], monitor_every=1)
    elif kind == "single" and case["op"].get("k") == "kwseq":
        chk.kwseq([case["op"]])
    elif kind == "single":
        pr = {"tag": "replay", "history": [], "target": case["op"]}
        chk.differential([pr])
    else:
        print(f"REPLAY: case kind {kind!r} is a model/implementation observation; re-running the directed set")
        chk.differential(directed_pairs(run.rng))
    chk.model_ties()


def tree_stamp() -> str:
    """(path, mtime, size) of every Python file of the package under test: the check compares several interpreters that
    import the package at different moments, so the tree must not change while it runs"""
    import hashlib

    h = hashlib.sha1()
    for p in sorted((core.REPO / "onnxscript").rglob("*.py")):
        try:
            st = p.stat()
        except OSError:
            continue
        h.update(f"{p}:{st.st_mtime_ns}:{st.st_size};".encode())
    return h.hexdigest()


def main(run: core.Run) -> None:
    stamp0 = tree_stamp()
    run.assumptions += [
        "A-py: CPython set iteration order is an arbitrary permutation chosen per PYTHONHASHSEED; protobuf SerializeToString() "
        "is a function of the message (no map fields in ONNX protos)",
        "fresh-process state = interpreter state right after importing onnxscript: histories and baselines run in forked "
        "children of one interpreter per hash seed; a sample of targets is re-run in brand-new interpreters and compared",
        "Respects(spec, behaviour): a rule's check()/rewrite() touch instance fields only as the AST-derived row says — "
        "established by harness/extract_stash.py (forward must-assignment analysis) and validated by the runtime monitor on "
        "every real try_rewrite of the run; rewriting drivers are deterministic functions of the model and earlier outcomes",
        "A-ir: onnx_ir passes used inside optimize()/rewrite() (RemoveUnused*, NameFix, CSE, …) keep no state between calls "
        "(not modelled; the differential runs execute them)",
    ]
    rows = regen_tables(run)
    t_p = time.time()
    audit = run.prove(PROP_MODULES)
    drv = core.Driver("C14")
    run.coverage["phase_s"] = {"prove_and_build_incl_lock_wait": round(time.time() - t_p, 1)}
    t_tie = time.time()
    pool = Pool()
    chk = Checker(run, pool, drv, rows)
    try:
        if run.replay_path:
            body = json.loads(Path(run.replay_path).read_text())
            replay(run, pool, chk, body["case"])
        else:
            t0 = time.time()
            corpus = [json.loads(l) for l in CORPUS.read_text().splitlines() if l.strip()] if CORPUS.exists() else []
            chk.differential(corpus + directed_pairs(run.rng), monitor_every=1)
            run.coverage["directed_s"] = round(time.time() - t0, 1)
            # dynamic validation of the globals table: objects classified "never written after import" keep their fingerprint
            grow = [[r["file"], r["name"].split(":", 1)[1]] for r in rows["globals"]["globalRows"] if not r["kind"].startswith("functools") and r["kind"] != "global"]
            frozen = {f"{r['file']}:{r['name'].split(':', 1)[1]}" for r in rows["globals"]["globalRows"] if not r["writes"]}
            gjobs = [(sd, {"id": f"gfp-f-{sd}", "ops": [{"k": "gfp", "rows": grow}]}) for sd in SEEDS[:3]]
            for gi in range(run.size(4, 30)):
                hist = [strip_op(G.gen_history_op(run.rng, 9000 + gi * 10 + k)[0]) for k in range(run.rng.randint(3, 8))]
                gjobs.append((SEEDS[gi % 3], {"id": f"gfp-h{gi}", "ops": hist + [{"k": "gfp", "rows": grow}]}))
            greps = pool.run(gjobs)
            base_fp = {sd: rep["results"][-1]["fp"] for (sd, _), rep in zip(gjobs[:3], greps[:3])}
            for (sd, req), rep in zip(gjobs[3:], greps[3:]):
                infra_check(rep)
                fp = rep["results"][-1]["fp"]
                chk.stats["globals_fingerprint_histories"] += 1
                for key, v in fp.items():
                    chk.stats["globals_fingerprints_compared"] += 1
                    if v != base_fp[sd][key]:
                        chk.stats["globals_changed:" + key.split("/")[-1]] += 1
                        if key in frozen:
                            chk.tie_failures.append(({"kind": "gfp", "object": key, "history": req["ops"][:-1], "seed": sd},
                                                     f"{key} is classified 'never written after import' by the generated table but its contents changed during a history of {len(req['ops']) - 1} operations"))
            hpairs = []
            for hi in range(run.size(16, 200)):
                hop = G.gen_header(run.rng)[0]
                hist = [G.gen_header(run.rng)[0] for _ in range(run.rng.randint(0, 3))]
                hpairs.append({"tag": "header:to_model_proto opset imports / ir_version", "history": hist, "target": hop})
            chk.differential(hpairs, seeds_fresh=SEEDS[:2])
            kw_ops = [{"k": "kwseq", "decos": [{}], "fns": [0, 0], "calls": [[1, {"producer_name": 7}]], "target": [0, {}]},
                      {"k": "kwseq", "decos": [{"producer_name": 1}], "fns": [0], "calls": [[0, {"ir_version": 9, "io_types": 7}]], "target": [0, {"doc_string": 2}]}]
            kw_ops += [G.gen_kwseq(run.rng)[0] for _ in range(run.size(30, 400))]
            chk.kwseq(kw_ops)
            n_targets = run.size(45, 450)
            n_hist = run.size(3, 4)
            bad_rows = [r["name"] for r in rows["rules"] + rows["ortRules"] if not extract_stash.row_ok(r) and r["name"] != "CosSinCacheFusion"]
            pairs = []
            for cls in bad_rows:  # search first where the table says the discipline is broken
                pairs += focused_pairs(run.rng, cls, 60)
            pairs += gen_pairs(run.rng, n_targets, n_hist)
            for k in range(0, len(pairs), 40):
                chk.differential(pairs[k : k + 40])
                if run.tier == "quick" and time.time() - t_tie > 60:
                    chk.stats["quick_budget_cut_pairs"] = max(0, len(pairs) - k - 40)
                    break
            # reused Converter object (internal API): model = implementation
            f1 = "def f1(x: FLOAT[3]):\n    y = x + 1.0\n    return y\n"
            f2 = "def f2(const: INT64[3], x: FLOAT[3]):\n    return x + const\n"
            reps = pool.run([("0", {"id": "cr", "ops": [{"k": "conv_reuse", "srcs": [f1, f2]}, {"k": "conv_reuse", "srcs": [f2]}]})])
            infra_check(reps[0])
            reuse, alone = reps[0]["results"]
            run.coverage["converter_reuse_observation"] = {
                "reused_object_ops": reuse["ops"], "fresh_object_ops": alone["ops"],
                "note": "internal API only: script() builds a fresh Converter per function (theorem script_translate_fresh)",
            }
            chk.model_lines.append(("castable const - const", f"castlike={int('CastLike' in reuse['ops'])} resets={int('_castable' in rows['converter']['resetFields'])}", {"kind": "conv_reuse", "srcs": [f1, f2]}))
            chk.model_lines.append(("castable - - const", f"castlike={int('CastLike' in alone['ops'])} resets={int('_castable' in rows['converter']['resetFields'])}", {"kind": "conv_reuse", "srcs": [f2]}))
            # shared fold pass vs foldCall on chains with a known foldable/kept split
            fold_jobs = []
            fold_meta = []
            for i in range(run.size(6, 30)):
                nodes = [run.rng.choice(["f", "k"]) for _ in range(run.rng.randint(1, 4))]
                body, prev = [], "x"
                inits = []
                for j, nd in enumerate(nodes):
                    if nd == "f":
                        inits.append(f"float[2] c{j} = {{{j + 1},{j + 2}}}")
                        body.append(f"  d{j} = Add (c{j}, c{j})\n  v{j} = Add ({prev}, d{j})")
                    else:
                        body.append(f"  v{j} = Abs ({prev})")
                    prev = f"v{j}"
                text = G.HDR18 + "agraph (float[2] x) => (float[2] y)\n" + (f"<{', '.join(inits)}>\n" if inits else "") + "{\n" + "\n".join(body) + f"\n  y = Neg ({prev})\n}}\n"
                dirty = {"k": "model", "op": "fold", "model": G.m_misc(run.rng)[0], "raise_on": run.rng.choice([None, "Add", "Mul"])}
                fold_jobs.append((SEEDS[i % 5], {"id": f"fold{i}", "ops": [dirty, {"k": "model", "op": "fold", "model": text}]}))
                fold_meta.append(nodes)
            for rep, nodes in zip(pool.run(fold_jobs), fold_meta):
                infra_check(rep)
                r = rep["results"][-1]
                prev_mod = int(bool(rep["results"][0].get("modified")))
                spec = ",".join((f"f{j}:1" if nd == "f" else f"k{j}") for j, nd in enumerate(nodes))
                chk.model_lines.append((f"fold {prev_mod} {spec}", f"modified={int(bool(r.get('modified')))}", {"kind": "fold", "nodes": nodes}))
            # brand-new interpreters for a sample of targets
            sample = [p for p in directed_pairs(run.rng)][: run.size(4, 12)]
            for i, pr in enumerate(sample):
                s = SEEDS[i % len(SEEDS)]
                rep_new = fresh_process(s, [strip_op(pr["target"])])
                rep_fork = pool.run([(s, {"id": "cmp", "ops": [strip_op(pr["target"])]})])[0]
                chk.stats["true_fresh_processes"] += 1
                if last_digest(rep_new) != last_digest(rep_fork):
                    chk.tie_failures.append(({"kind": "fresh-vs-fork", "target": pr["target"], "seed": s},
                                             "a brand-new interpreter and a forked child of the per-seed interpreter disagree on a single target"))
            run.coverage["phase_s"]["real_processes"] = round(time.time() - t_tie, 1)
            t_m = time.time()
            chk.model_ties()
            run.coverage["phase_s"]["model_driver"] = round(time.time() - t_m, 1)
    finally:
        pool.close()

    if tree_stamp() != stamp0:
        raise core.Infra(f"{core.REPO}/onnxscript changed while the check was running (interpreters started at different moments "
                         "imported different code): re-run")

    # ---- verdict
    findings = {f["id"]: f for f in run.open_findings()}
    for case, what in chk.d15_hits[:1]:
        if "D15" in findings:
            run.known("D15", what)
        else:
            chk.prop_failures.append((case, what))
    chk.stats["known_D15"] = len(chk.d15_hits)
    for case, what in chk.n1_hits[:1]:
        if "C14-N1" in findings:
            run.known("C14-N1", what)
        else:
            chk.prop_failures.append((case, what))
    chk.stats["known_C14-N1"] = len(chk.n1_hits)
    for case, what in chk.n2_hits[:1]:
        if "C14-N2" in findings:
            run.known("C14-N2", what)
        else:
            chk.prop_failures.append((case, what))
    chk.stats["known_C14-N2"] = len(chk.n2_hits)
    if not rows["converter"].get("opsetImportsSorted") and "C14-N2" not in findings and not chk.prop_failures:
        run.violation({"broken": "rewriter._rewrite_rule._update_opset_imports iterates the used_opsets set unsorted"},
                      "regression of C14-N2: _update_opset_imports iterates TapeBuilder.used_opsets (a set) in hash order, "
                      "but no generated rewrite showed a seed-dependent result", no_input=True)
    if chk.prop_failures:
        chk.prop_failures.sort(key=lambda p: (len(p[0].get("history", [])), len(json.dumps(p[0]))))
        case, what = chk.prop_failures[0]
        if case.get("kind") == "history" and len(case["history"]) > 1 and not run.replay_path:
            p2 = Pool()
            try:
                case = shrink_history(p2, case)
            finally:
                p2.close()
        run.violation({**case, "others": len(chk.prop_failures) - 1}, what)
    elif chk.tie_failures:
        case, what = chk.tie_failures[0]
        run.violation({**case, "broken": "correspondence OV.Model.C14History vs implementation", "others": len(chk.tie_failures) - 1},
                      "correspondence broken: " + what + "; no history/seed found on which a result differs from the fresh-process result",
                      no_input=True)
    if rows["converter"]["constByRefSites"] and not chk.prop_failures:
        run.violation({"broken": "OV.Props.C14.constants_snapshotted", "constByRefSites": rows["converter"]["constByRefSites"]},
                      "regression of C14-N1: Converter." + ", Converter.".join(rows["converter"]["constByRefSites"])
                      + " pass the user's object to ir.tensor() without a snapshot, but no generated script showed a changed proto",
                      no_input=True)
    if not audit["ok"]:
        gt = run.coverage["globals_table"]
        bad = (run.coverage["stash_table"]["rows_not_ok"] + run.coverage["stash_table"]["ort_rows_not_ok"]
               + ["global:" + n for n in gt["rows_not_ok"] if n != "_pattern_ir:ANY_VALUE"]
               + ["register-in-function:" + n for n in gt["register_calls_in_functions"]]
               + ["private-entry-call:" + n for n in gt["private_entry_calls"]]
               + ["id-or-hash-used-for-output:" + n for n in gt["id_hash_sites_other"]]
               + ["entry:" + k for k, v in gt["entry_rows"].items() if (v["earlyReads"] or v["helperReads"]) and not k.startswith("Converter.")]
               + ["set-iteration:" + x for x in gt["set_iteration_order_sensitive"] if "_translate_nested_function_def" not in x])
        if not chk.prop_failures:
            run.violation({"broken": "proof obligations of OV.Props.C14", "rows_not_ok": bad, "problems": audit["problems"], "log": audit["build_log"][-1500:]},
                          "Lean proof obligations for C14 do not check (generated-table rows outside the discipline: " + ", ".join(bad or ["-"]) + "): " + "; ".join(audit["problems"][:3]),
                          no_input=True)

    st = chk.stats
    hist = {k: v for k, v in st.items()}
    run.coverage.update(
        evaluations=st["ops_executed"],
        distinct_nontrivial=st["history_runs"],
        rule="(history, target, hash seed) triples with a non-empty history executed in a real interpreter and compared "
        "byte-for-byte (digest of SerializeToString()) with the same target in fresh state",
        traces_validated_against_impl=st["history_runs"] + st["fresh_runs"] + st["model_lines"],
        distribution=hist,
        exhaustive=False,
        explanation="targets/histories are sampled (seeded); the directed pairs cover every modelled stateful site on every run; "
        "the rule table is exhaustive over the rule classes (translator)",
    )
    for pr in directed_pairs(run.rng)[:3]:
        run.sample({"tag": pr["tag"], "history_len": len(pr["history"]), "target_kind": pr["target"]["k"]})
    if not run.replay_path:
        if st["history_runs"] < 40:
            raise core.Infra("too few history runs executed")
        if st["ops_raising"] == 0 or st["try_rewrite_events"] == 0:
            raise core.Infra("generator degenerated: no failing operation or no monitored try_rewrite in the run")
        required = [
            "try_rewrite_events", "stash_event:ReshapeReshape:ok", "stash_event:ReshapeReshape:fail", "stash_event:FuseConvPad:ok",
            "stash_event:FuseConvPad:fail", "stash_event:MaterializeReshapeShape:ok", "stash_event:Flatten2Reshape:ok",
            "stash_event:LayerNormFusion:ok", "pattern_raised", "pattern_normal", "fold_modified", "fold_unmodified",
            "ctrl_sites", "ctrl_sites_iteration_unsorted", "uniq_calls", "as_function_rewrites", "kwseq_calls_on_siblings_of_target",
            "kwseq_calls_on_target", "ndarray_scripts_inplace_touching_body", "evalctx", "globals_fingerprint_histories",
            "true_fresh_processes", "history_failing_ops", "script_override_calls", "global_mutations_checked", "kw_model_lines",
            "fresh_value_names_created", "fresh_value_names_skipping_existing", "op:model:convert_pass", "convert_pass_adapter_values_named", "convert_pass_skipping_existing_val_names", "header_cases", "header_graph_without_std_opset", "header_std_from_function", "header_with_opset_version_kw", "header_std_from_kw_or_latest", "header_std_from_opset_version_kw",
        ]
        # the entry classes the worker holds objects of (a changed tree may add rows, e.g. for newly held helper objects: those have
        # no monitored instance and are judged by the table theorem and the differential runs, not by a counter)
        MONITORED_ENTRY = ("SimplePatternMatcher", "FoldConstantsPass", "RewritePass", "RewriteRuleSet", "RewriteRule",
                           "ConvertVersionPass", "_ConvertVersionPassRequiresInline")
        required += [f"entry_calls:{c}" for c in MONITORED_ENTRY if c in chk.entry_map]
        required += [f"entry_calls_abandoned:{c}" for c in ("FoldConstantsPass", "RewriteRuleSet", "RewriteRule", "ConvertVersionPass", "_ConvertVersionPassRequiresInline")]
        required += [f"entry_calls_after_abandoned:{c}" for c in ("FoldConstantsPass", "RewriteRuleSet", "RewriteRule", "ConvertVersionPass", "_ConvertVersionPassRequiresInline")]
        required += ["entry_rows_checked_exact"]
        required += ["evaluator_gap_below_13_not_folded", "evaluator_from_13_folded", "evaluator_version_opset_12", "evaluator_version_opset_13"]
        zero = [k for k in required if not st[k]]
        if not (st["multi_domain_new_2"] + st["multi_domain_new_3"] + st["multi_domain_new_4"]):
            zero.append("multi_domain_new_>=2")
        for cname, n_ok in getattr(chk, "row_required", []):
            if not n_ok:
                zero.append(f"row_monitored_ok:{cname}")
        run.coverage["required_counters"] = {k: st[k] for k in required}
        run.coverage["stash_rows_monitored"] = dict(getattr(chk, "row_required", []))
        reported = bool(chk.prop_failures or chk.tie_failures or not audit["ok"])
        if zero and not reported:  # a reported behavioural difference is never turned into an infrastructure exit
            raise core.Infra("required coverage counters are zero (generator/monitor degenerated): " + ", ".join(zero))
        if zero:
            run.coverage["required_counters_zero_on_a_reported_tree"] = zero
        if st["target_raises_when_fresh"] > 0.3 * st["pairs"]:
            raise core.Infra("generator degenerated: >30% of targets raise in a fresh process")
