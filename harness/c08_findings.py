"""Exact predicates of the C08 known findings (known_findings.d/C08.json).

A property failure is a KNOWN-FINDING only if its (function, arguments) fall inside one of these
regions *and* the finding is listed as open; everything else is a VIOLATION.
"""
from __future__ import annotations


def _norm(d, r):
    return d + r if d < 0 else d


def _size(case, dim):
    s = case["shape"]
    r = len(s)
    if r == 0:
        return None
    if not (-r <= dim < r):
        return None
    return s[_norm(dim, r)]


REDUCTIONS = {"sum", "sum_dim", "mean_dim", "amax", "amin", "all", "any", "all_dim", "any_dim", "all_dims",
              "any_dims", "argmax", "argmin", "prod", "prod_dim", "cumsum", "max_dim", "min_dim", "logsumexp", "logcumsumexp"}


def squeeze_dim_nonunit(name, c, detail):
    return name == "squeeze_dim" and len(c["shape"]) > 0 and _size(c, c["dim"]) not in (None, 1)


def reshape_zero(name, c, detail):
    """`Reshape(allowzero=0)` meets a 0: aten_reshape with a 0 in the target; aten_flatten's Reshape
    path on a tensor with a zero-size dim outside the flattened range; aten_roll without dims on a
    tensor with a zero-size dim."""
    if name == "roll":
        # with dims: the slice end is Size(x) = 0 (the no-dims path was fixed in 5bf0068)
        return bool(c["dims"]) and 0 in c["shape"]
    return False


def unflatten_zero_infer(name, c, detail):
    """-1 in sizes on an empty tensor: Reshape(allowzero=1) with 0 and -1 together is outside the ONNX
    specification; onnxruntime infers the -1 from the non-zero dims."""
    return name == "unflatten" and -1 in c["sizes"] and 0 in c["shape"]


def narrow_negative_start_tensor(name, c, detail):
    """tensor-valued (SymInt) negative start: not normalised by fix ca35059 (Python ints only)."""
    return name == "narrow" and c["start"] < 0 and bool(c.get("tensor_args"))


def chunk_uneven(name, c, detail):
    """torch.chunk returns fewer than `chunks` pieces, or the dim is smaller than `chunks`."""
    if name != "chunk" or c["chunks"] == 1:
        return False
    d = _size(c, c["dim"])
    if d is None:
        return False
    n = c["chunks"]
    size = -(-d // n)
    return d < n or (n - 1) * size >= d


def cat_all_empty(name, c, detail):
    """only 1-D empty tensors: the trace-time assertion fires (the mixed case was fixed in 68ff4be)."""
    return name == "cat" and all(s == [0] for s in c["shapes"])


def argmax_keepdim_nodim(name, c, detail):
    return name in ("argmax", "argmin") and c["dim"] is None and c["keep"] and len(c["shape"]) != 1


def roll_complex_negative_dim(name, c, detail):
    """aten_roll_complex passes dims unchanged to the helper on the real/imag views (rank+1): -1 gives
    Shape(start=-1,end=0) = empty, other negatives address the wrong axis."""
    return name == "roll_complex" and any(d < 0 for d in c["dims"])


def pool_len1_attr(name, c, detail):
    """kernel_size / stride / dilation given as a 1-element sequence for a 2-D/3-D pool: only `padding` of
    length 1 is expanded; the other attributes reach ONNX with the wrong length."""
    if not (name.startswith("avg_pool") or name.startswith("max_pool")) or c["k"] == 1:
        return False
    keys = ["ks", "st"] + (["dil"] if name.startswith("max_pool") else [])
    return any(isinstance(c[k_], list) and len(c[k_]) == 1 for k_ in keys)


def repeat_interleave_empty(name, c, detail):
    """Reshape([head, -1, tail], allowzero=0) on a tensor with a zero-size dim (the repo's test skips empty inputs)."""
    return name == "repeat_interleave" and 0 in c["shape"]


def unfold_rank0_size0(name, c, detail):
    return name == "unfold" and not c["shape"] and c["size"] == 0


def add_bool_alpha0_broadcast(name, c, detail):
    """aten_add on bool with alpha == 0 returns Identity(self): the broadcast against `other` is lost."""
    if name != "add" or c["dtype2"] != "bool" or c["alpha2"] != 0:
        return False
    a, b = c["shape"], c["other"]
    return len(b) > len(a) or any(x != y and y != 1 for x, y in zip(a[::-1], b[::-1]))


def upsample_bilinear_scales_ignored(name, c, detail):
    """aten_upsample_bilinear2d ignores scales_h/scales_w; PyTorch uses them for the source coordinates when
    align_corners=False, so the values differ whenever output_size != input_size * scale exactly."""
    if name != "upsample_bilinear2d" or c["sc"] is None or c["ac"]:
        return False
    sp = c["shape"][2:]
    return any(2 * c["out"][i] != sp[i] * c["sc"][i] for i in range(2))


def roll_large_shift(name, c, detail):
    """shift < -d or shift > 2d: the two slices no longer partition the axis."""
    if name != "roll" or not c["shape"] or c["shape"][0] == 0:
        return False
    s = c["shape"]
    if not c["dims"]:
        n = 1
        for d in s:
            n *= d
        sh = c["shifts"][0]
        return sh < -n or sh > 2 * n
    for sh, d in zip(c["shifts"], c["dims"]):
        n = _size(c, d)
        if n is not None and (sh < -n or sh > 2 * n):
            return True
    return False


def empty_reduction(name, c, detail):
    """a reduction over a tensor with a zero-size dim: ReduceMax of an empty int64 set is INT64_MIN
    (any → True); onnxruntime returns unreduced shapes / 0 instead of nan for empty reductions."""
    return name in REDUCTIONS and 0 in c["shape"]


def rank0_explicit_dim(name, c, detail):
    """rank-0 input with an explicit dim: constant axes are rejected by shape inference
    (amax/amin/prod.dim_int), `Squeeze(dims)` on the rank-0 result (all.dims/any.dims keepdim=False)."""
    if name in ("amax", "amin"):
        return len(c["shape"]) == 0 and bool(c["dims"])
    return False   # prod.dim_int / all.dims / any.dims: fixed in f89de7f


def scatter_src_larger(name, c, detail):
    """torch.scatter / scatter_add accept a src larger than index (index.size(d) <= src.size(d)); ONNX ScatterElements
    requires updates.shape == indices.shape and the function passes src through unchanged."""
    return name in ("scatter_src", "scatter_add") and list(c["src"]) != list(c["idx_shape"])


def pixel_shuffle_empty(name, c, detail):
    """aten_pixel_shuffle, rank != 4: Reshape([-1] ++ Shape[-3:]) with allowzero=0 re-reads a 0 as "copy the input dim"."""
    return name == "pixel_shuffle" and len(c["shape"]) != 4 and 0 in c["shape"]


def sdpa_fully_masked_row(name, c, detail):
    """boolean attn_mask with a query row that allows no key: PyTorch returns zeros for that row; the graph masks with the
    lowest finite float (named neg_inf), so Softmax is uniform and the IsNaN -> 0 repair never fires."""
    return name == "float:aten_scaled_dot_product_attention" and bool(c.get("fully_masked_row"))


def elu_input_scale(name, c, detail):
    """aten_elu multiplies the whole input by input_scale; PyTorch applies it to the negative branch only."""
    return name == "float:aten_elu" and c.get("input_scale") != 1


def avg_pool_divisor_override(name, c, detail):
    """divisor_override is accepted and silently ignored by aten_avg_pool2d / aten_avg_pool3d (repo-known: its tests xfail it)."""
    return name in ("float:aten_avg_pool2d", "float:aten_avg_pool3d") and c.get("divisor_override") is not None


def cross_entropy_label_smoothing(name, c, detail):
    """label_smoothing is accepted and silently ignored by aten_cross_entropy_loss."""
    return name == "float:aten_cross_entropy_loss" and c.get("label_smoothing", 0.0) != 0.0


def vector_norm_keepdim_no_dim(name, c, detail):
    """aten_linalg_vector_norm with dim=None sets keepdim = False; torch keeps all dims as 1."""
    return name == "vector_norm" and c["dims"] is None and c["keep"] and len(c["shape"]) > 0


def isclose_infinities(name, c, detail):
    """aten_isclose: inf vs inf gives NaN <= tol = False (PyTorch True); inf vs -inf with rtol > 0 gives inf <= inf = True (PyTorch False)."""
    return name == "float:aten_isclose" and bool(c.get("has_inf"))


def repeat_interleave_tensor_dim(name, c, detail):
    """aten_repeat_interleave_Tensor always repeats along axis 0 (dim only decides flattening) and fails at trace time for rank > 2."""
    return name == "float:aten_repeat_interleave_Tensor" and c.get("dim") is not None and (c["dim"] % c["rank"] != 0 or c["rank"] > 2)


def conv3d_no_bias(name, c, detail):
    """aten_conv3d with bias=None builds a zero bias of shape [O, 2] (copied from the complex overload); Conv needs [O]."""
    return name == "conv3d" and not c["bias"]


def sum_dtype_cast_after_reduce(name, c, detail):
    """aten_sum / aten_sum_dim_IntList / aten_mean_dim apply dtype= to the RESULT; PyTorch casts the input before reducing
    (sum([.5,.5,1.5], dtype=int64) is 1 in PyTorch, 2 in the graph)."""
    return name in ("sum", "sum_dim", "mean_dim") and c.get("cast") is not None and 0 not in c["shape"] and detail.startswith("values")


def split_zero_dim(name, c, detail):
    return name == "split" and _size(c, c["dim"]) == 0


def all_dims_empty_list(name, c, detail):
    return name in ("all_dims", "any_dims") and c["dims"] is not None and len(c["dims"]) == 0 and len(c["shape"]) > 0


def broadcast_to_neg1(name, c, detail):
    return name == "broadcast_to" and -1 in c["size"]


def div_mode_int_f32(name, c, detail):
    return name == "div_mode_int" and c.get("big")


def int_dtype_promotion(name, c, detail):
    """integer results whose dtype differs from PyTorch's: sum/prod-style promotion to int64 is not
    reproduced, and bitwise_left_shift always casts to the signed type."""
    return name in ("sum", "sum_dim", "cumsum") and detail.startswith("dtype")


def layer_norm_empty_block(name, c, detail):
    """onnxruntime's LayerNormalization refuses an empty normalised block (a 0 in normalized_shape); PyTorch returns the
    (empty) input and mean/rstd of the leading dims."""
    return name in ("layer_norm", "native_layer_norm") and 0 in c["ns"]


def glu_empty_dim(name, c, detail):
    """Split(num_outputs=2) refuses an axis of size 0; torch's glu halves 0 to 0."""
    return name == "glu" and _size(c, c["dim"]) == 0


def addmm_empty_inner_beta(name, c, detail):
    """onnxruntime's Gemm with an empty inner dimension (K = 0) returns C unscaled: beta is ignored (alpha*A@B is 0, so the
    result should be beta*C, which is what torch.addmm returns)."""
    return name == "addmm" and len(c["a"]) == 2 and c["a"][1] == 0 and c["beta"] != 1 and detail.startswith("values")


PREDICATES = {
    "C08-addmm-empty-inner-beta": addmm_empty_inner_beta,
    "C08-layer-norm-empty-block": layer_norm_empty_block,
    "C08-glu-empty-dim": glu_empty_dim,
    "C08-avg-pool-divisor-override-ignored": avg_pool_divisor_override,
    "C08-cross-entropy-label-smoothing-ignored": cross_entropy_label_smoothing,
    "C08-unfold-rank0-size0": unfold_rank0_size0,
    "C08-upsample-bilinear-scales-ignored": upsample_bilinear_scales_ignored,
    "C08-empty-reduction": empty_reduction,
    "C08-rank0-explicit-dim": rank0_explicit_dim,
    "C08-int-dtype-promotion": int_dtype_promotion,
}
