"""C20 — saving with external data round-trips and never disturbs the in-memory model.

Proof obligations: lean/OV/Props/C20.lean (model: lean/OV/Model/C20Save.lean).
Tie: correspondence with fault injection from the harness.  For every generated (model, file-system) case the
real `save_model_with_external_data` (which runs the real `onnx_ir.save`) is executed in-process under a wrapper
of `builtins.open`/file objects/`os.*` that counts file-system calls and raises `OSError` at the k-th one, for
k = none and every k in 0..N (N = number of calls of the fault-free run: exhaustive over fault points), and
the canonical observation (exception class, call count, abstract call trace, progress-callback log, identity of the
`const_value`s, state/bytes of the original tensor objects, every file on disk with the written proto's
location/offset/length per initializer, `ir.load` of the result) is compared with the Lean model's `runSave`.
The property's own oracle (guard first / model unchanged / round trip) is evaluated on the real observations
independently of the model.
"""
from __future__ import annotations

import json
from collections import Counter

from harness import c20_lib as L
from harness import core

PROP_MODULES = ["OV.Props.C20"]
ANCHOR = "onnxscript/_framework_apis/torch_2_5.py"

DTYPES = [("UINT8", 1), ("INT8", 1), ("FLOAT16", 2), ("INT16", 2), ("FLOAT", 4), ("INT32", 4), ("INT64", 8), ("DOUBLE", 8)]
MIB = 1048576

# --------------------------------------------------------------------------- generation


def dtype_shape(rng, n: int):
    cands = [(d, s) for d, s in DTYPES if n % s == 0]
    d, s = rng.choice(cands)
    cnt = n // s
    if n == 0:
        return d, rng.choice([[0], [0, 3], [2, 0]])
    if cnt == 1 and rng.random() < 0.6:
        return d, []
    if cnt % 2 == 0 and rng.random() < 0.3:
        return d, [2, cnt // 2]
    return d, [cnt]


def mem_init(rng, name, sub, n):
    d, shp = dtype_shape(rng, n)
    return {"name": name, "sub": sub, "kind": "M", "seed": rng.randint(0, 999), "len": n, "np": rng.choice([1, 1, 0]),
            "dtype": d, "shape": shp}


def ext_init(rng, name, sub, file, off, n, valid=1):
    d, shp = dtype_shape(rng, n)
    return {"name": name, "sub": sub, "kind": "E", "file": file, "off": off, "len": n, "valid": valid, "dtype": d, "shape": shp}


SMALL = [0, 1, 4, 8, 16, 100, 255, 256]
MID = [257, 260, 400, 1000, 4096, 70000]
BIG = [MIB, MIB + 1, MIB + 65536 + 8]


def gen_spec(rng, big_ok: bool) -> dict:
    name = rng.choice(["m.onnx", "model.onnx", "net", "a.b.onnx"])
    d = rng.choice(["", "", "sub"])
    style = rng.choice(["abs", "abs", "pathlib", "rel", "symdir"])
    spec = {"name": name, "dir": d, "style": style, "verbose": rng.choice([0, 0, 1, 1, 2]), "files": [], "inits": []}
    model_rel = L.join(d, name)
    data_rel = model_rel + ".data"
    other = L.join(d, "w.bin")
    flen = {}
    if rng.random() < 0.6:
        flen[other] = rng.choice([300, 3000, 5000])
        if big_ok and rng.random() < 0.5:
            flen[other] = 2 * MIB + 4096
    if rng.random() < 0.5:
        flen[data_rel] = rng.choice([0, 50, 700, 2000, 4000])
    if rng.random() < 0.3:
        flen[model_rel] = rng.choice([0, 77, 77, 900])
    spec["files"] = [[f, rng.randint(0, 999), n] for f, n in flen.items()]
    n_inits = rng.choice([0, 1, 2, 3, 3, 4, 4, 5, 6])
    bigs = 0
    inits = []
    for i in range(n_inits):
        nm = rng.choice([f"t{i}", f"_p{i}", f"layer.{i}.weight", f"val_{i}", f"W{i}"])
        sub = rng.choice([1, 1, 2, 3, 3, 4]) if rng.random() < 0.3 else 0
        r = rng.random()
        if r < 0.05:
            inits.append({"name": nm, "sub": sub, "kind": "U", "meta": rng.choice(U_META)})
            continue
        if r < 0.24 and other in flen:
            fl = flen[other]
            pool = [n for n in SMALL + MID if n <= fl]
            if fl > MIB and bigs < 2 and rng.random() < 0.6:
                pool = [MIB + 1, 2 * MIB + 100]
                bigs += 1
            n = rng.choice(pool)
            off = rng.randint(0, fl - n)
            if rng.random() < 0.06:  # reaches past the end of its file
                off = fl - n + rng.randint(1, 40)
            inits.append(ext_init(rng, nm, sub, other, off, n, valid=0 if rng.random() < 0.05 else 1))
            continue
        if r < 0.42 and data_rel in flen:
            fl = flen[data_rel]
            pool = [n for n in SMALL + MID if n <= fl]
            n = rng.choice(pool)
            off = rng.randint(0, fl - n)
            inits.append(ext_init(rng, nm, sub, data_rel, off, n, valid=0 if rng.random() < 0.05 else 1))
            continue
        if 0.44 <= r < 0.52 and flen.get(model_rel, 0) >= 8:  # external tensor stored in the file at model_path itself (C20-D5)
            fl = flen[model_rel]
            n = rng.choice([n for n in SMALL + MID if 0 < n <= fl])
            inits.append(ext_init(rng, nm, sub, model_rel, rng.randint(0, fl - n), n, 1))
            continue
        if r < 0.44:  # external tensor whose file does not exist
            inits.append(ext_init(rng, nm, sub, L.join(d, "gone.bin"), 0, rng.choice([8, 300]), 1))
            continue
        pool = SMALL + MID + MID
        if big_ok and bigs < 2 and rng.random() < 0.35:
            pool = BIG
            bigs += 1
        inits.append(mem_init(rng, nm, sub, rng.choice(pool)))
    owners = [it for it in inits if it["kind"] in ("M", "E")]
    if owners and rng.random() < 0.2:  # one tensor object shared by two initializers
        o = rng.choice(owners)
        inits.append({"name": f"alias{len(inits)}", "sub": max(o["sub"], rng.choice([0, 0, 1, 3])), "kind": "A", "of": o["name"]})
    # the same initializer name owned by two different graphs (sibling branches, or a sub-graph shadowing an outer name)
    alias_related = {it.get("of") for it in inits if it["kind"] == "A"} | {it["name"] for it in inits if it["kind"] == "A"}
    free = [it for it in inits if it["name"] not in alias_related]
    if len(free) >= 2 and rng.random() < 0.3:
        a, b2 = rng.sample(free, 2)
        if a["sub"] != b2["sub"]:
            b2["name"] = a["name"]
    for it in inits:  # the tensor names its (existing) file through a symbolic link: another spelling of the same file
        if it["kind"] == "E" and it["file"] in flen and rng.random() < 0.25:
            it["via_link"] = 1
    for it in inits:  # where else the initializer's Value appears in its graph (must not matter to the save)
        it["is_input"] = 1 if rng.random() < 0.25 else 0
        it["used"] = 1 if rng.random() < 0.3 else 0
        it["is_output"] = 1 if rng.random() < 0.12 else 0
        if it["kind"] == "M" and it.get("np") and not it.get("lazy") and it["len"] <= 256 and rng.random() < 0.1:
            it["tname_differs"] = 1
        if it["kind"] == "M" and it.get("np") and rng.random() < 0.15:
            it["lazy"] = 1
    spec["inits"] = sorted(inits, key=lambda it: it["sub"])
    return spec


U_META = ["full", "noshape", "notype", "none"]


def same_name_grid(rng):
    """Same-named initializers in two different graphs, exactly one of them uninitialized: every ordered pair of distinct
    graph levels (main, then-branch, nested If, else-branch, Loop body) — i.e. both visiting orders of every pair — with
    the initialized one below/above the 256-byte threshold.  A guard that merges initializers by name misses these."""
    for lu in range(5):
        for lm in range(5):
            if lu == lm:
                continue
            nm = rng.choice(["c", "w", "layer.0.bias"])
            u = {"name": nm, "sub": lu, "kind": "U", "meta": rng.choice(U_META), "is_input": rng.choice([0, 0, 1]),
                 "used": rng.choice([0, 1]), "is_output": 0}
            m = mem_init(rng, nm, lm, rng.choice([8, 300]))
            m.update(is_input=0, used=rng.choice([0, 1]), is_output=0)
            extra = mem_init(rng, "other", rng.choice([0, 1, 3, 4]), rng.choice([16, 400]))
            extra.update(is_input=0, used=0, is_output=0)
            yield {"name": "m.onnx", "dir": "", "style": "abs", "verbose": 0, "files": [],
                   "inits": sorted([u, m, extra], key=lambda it: it["sub"])}


def dest_spelling_grid(rng):
    """A model with an initializer stored in the destination data file or in the model file (it must be refused before anything is written),
    for every way the harness can SPELL the two paths that have to be recognised as the same file: destination given as
    absolute str / pathlib / relative to the cwd / through a symlinked directory  x  tensor path real or through a symbolic
    link  x  tensor above/below the 256-byte threshold  x  model in the root or a sub-directory.  A guard comparing spellings
    instead of files misses the symlink rows."""
    for style in ("abs", "pathlib", "rel", "symdir"):
      for where in ("data", "model"):  # the tensor lives in <name>.data (56a0c3c) / in the file at model_path (3d20cf2)
        for via in (0, 1):
            for n in (100, 300):
                for d in ("", "sub"):
                    name = rng.choice(["m.onnx", "net"])
                    data_rel = L.join(d, name) + (".data" if where == "data" else "")
                    e = _ei("d", rng.choice([0, 0, 1, 3]), data_rel, rng.randint(0, 50), n)
                    if via:
                        e["via_link"] = 1
                    other = _mi("a", 0, rng.choice([16, 400]), 1, rng.randint(0, 900))
                    yield {"name": name, "dir": d, "style": style, "verbose": rng.choice([0, 1]),
                           "files": [[data_rel, rng.randint(0, 900), 700]],
                           "inits": sorted([other, e], key=lambda it: it["sub"])}


def guard_grid(rng):
    """Exhaustive grid over everything a weakened guard could look at on an uninitialized initializer: graph level
    (main / then / nested / else) x also-a-graph-input x consumed-by-a-node x graph-output x shape/type metadata,
    each beside 0-2 initialized initializers at random positions and levels."""
    for sub in (0, 1, 2, 3, 4):
        for is_input in (0, 1):
            for used in (0, 1):
                for is_output in (0, 1):
                    for meta in U_META:
                        u = {"name": rng.choice(["u", "_u", "a.u", "val_7", "U"]), "sub": sub, "kind": "U", "meta": meta,
                             "is_input": is_input, "used": used, "is_output": is_output}
                        others = []
                        for j in range(rng.choice([0, 1, 2])):
                            o = mem_init(rng, f"w{j}", rng.choice([0, 0, 1, 3]), rng.choice([8, 300, 400]))
                            o.update(is_input=rng.choice([0, 1]), used=rng.choice([0, 1]), is_output=0)
                            others.append(o)
                        inits = others + [u]
                        rng.shuffle(inits)
                        yield {"name": "m.onnx", "dir": "", "style": "abs", "verbose": rng.choice([0, 1]), "files": [],
                               "inits": sorted(inits, key=lambda it: it["sub"])}


# --------------------------------------------------------------------------- histories (several calls on one model object)


def _mi(name, sub, n, np_, seed):
    return {"name": name, "sub": sub, "kind": "M", "seed": seed, "len": n, "np": np_, "dtype": "UINT8", "shape": [n],
            "is_input": 0, "used": 0, "is_output": 0}


def _ei(name, sub, file, off, n):
    return {"name": name, "sub": sub, "kind": "E", "file": file, "off": off, "len": n, "valid": 1, "dtype": "UINT8",
            "shape": [n], "is_input": 0, "used": 0, "is_output": 0}


def history_bases(rng, big_ok: bool) -> list[dict]:
    """Models on which histories are enumerated exhaustively: every way a tensor reaches the data file (ndarray.tofile,
    file.write, chunked copy of an external tensor, mmap load of a small external one, inline), with and without
    pre-existing destination files, each verbosity, a sub-directory."""
    s = rng.randint(0, 900)
    bases = [
        {"name": "m.onnx", "dir": "", "style": "abs", "verbose": 0, "files": [],
         "inits": [_mi("a", 0, 400, 1, s), _mi("r", 0, 300, 0, s + 1), _mi("i", 1, 16, 1, s + 2)]},
        {"name": "net", "dir": "sub", "style": "pathlib", "verbose": 1,
         "files": [["sub/w.bin", s + 3, 3000], ["sub/net.data", s + 4, 700], ["sub/net", s + 5, 77]],
         "inits": [_mi("a", 0, 260, 1, s), _ei("s", 0, "sub/w.bin", 3, 100), _ei("e", 3, "sub/w.bin", 10, 1000),
                   _mi("z", 4, 0, 1, s + 6)]},
        {"name": "a.b.onnx", "dir": "", "style": "rel", "verbose": 2, "files": [["a.b.onnx.data", s + 7, 50]],
         "inits": [_mi("r", 0, 257, 0, s), _mi("k", 2, 256, 1, s + 1),
                   {"name": "al", "sub": 3, "kind": "A", "of": "r", "is_input": 0, "used": 0, "is_output": 0}]},
    ]
    # refused by the second guard, every time (a tensor stored in the destination data file), and by the first (uninitialized)
    bases.append({"name": "m.onnx", "dir": "", "style": "abs", "verbose": 0, "files": [["m.onnx.data", s + 8, 700]],
                  "inits": [_mi("a", 0, 400, 1, s), _ei("d", 0, "m.onnx.data", 5, 300)]})
    # refused by the model-file half of the second guard (3d20cf2, the former C20-D5 region), every time
    bases.append({"name": "w.bin", "dir": "", "style": "abs", "verbose": 1, "files": [["w.bin", s + 9, 400]],
                  "inits": [_ei("e", 0, "w.bin", 0, 300), _mi("a", 0, 400, 1, s)]})
    bases.append({"name": "m.onnx", "dir": "", "style": "abs", "verbose": 0, "files": [],
                  "inits": [_mi("a", 0, 400, 1, s), {"name": "u", "sub": 1, "kind": "U", "meta": "full", "is_input": 0,
                                                      "used": 0, "is_output": 0}]})
    if big_ok:
        bases.append({"name": "m.onnx", "dir": "", "style": "abs", "verbose": 1, "files": [],
                      "inits": [_mi("p", 0, 100 + 257, 1, s), _mi("big", 0, MIB + 1, 1, s + 1)]})
    return bases


def history_specs(rng, big_ok: bool, n_random: int):
    """(spec-with-prior, ks) pairs.  `prior` lists the fault plans of earlier calls on the same model object and destination
    (None = no fault); `ks` the fault plans of the observed call (None entry = fault-free; ks None = every fault point)."""
    for base in history_bases(rng, big_ok):
        n = L.run_real(base, None)["calls"]
        # retry after a fault at EVERY file-system call of the first save: the retry is
        # observed fault-free and at one random fault point
        for pk in range(n):
            yield dict(base, prior=[pk]), [None, rng.randint(0, max(n - 1, 0))]
        # second use: after a successful save, the save is repeated over its own output, every fault point observed
        yield dict(base, prior=[None]), None
        # longer histories: fault, fault, success, ...
        rk = lambda: rng.randint(0, max(n - 1, 0))
        for pr in ([rk(), None], [None, rk(), rk()], [rk(), rk()]):
            yield dict(base, prior=pr), [None, rk()]
    for _ in range(n_random):  # random models (refused ones, unreadable tensors, duplicate names, ... included)
        spec = gen_spec(rng, False)
        n = L.run_real(spec, None)["calls"]
        pr = [rng.choice([None, rng.randint(0, n)]) for _ in range(rng.choice([1, 1, 2]))]
        yield dict(spec, prior=pr), [None, rng.randint(0, n)]


# --------------------------------------------------------------------------- predicates of known findings


def pred_dest_ref(spec: dict) -> bool:
    """F1: some initializer is an ExternalTensor living in the destination data file, which exists before the call."""
    data_rel = L.join(spec.get("dir", ""), spec["name"]) + ".data"
    present = {f for f, _s, _n in spec.get("files", [])}
    return data_rel in present and any(it["kind"] == "E" and it["file"] == data_rel for it in spec["inits"])


def pred_dest_alias(spec: dict) -> bool:
    """D1, aliased: a tensor object external in the destination file is the const_value of two initializers."""
    data_rel = L.join(spec.get("dir", ""), spec["name"]) + ".data"
    dest_names = {it["name"] for it in spec["inits"] if it["kind"] == "E" and it["file"] == data_rel}
    return any(it["kind"] == "A" and it["of"] in dest_names for it in spec["inits"])


def pred_rename(spec: dict) -> bool:
    """D4: an in-memory tensor of <= 256 bytes (kept inline, so the ORIGINAL object is serialized) whose `name` differs from
    the name of an initializer holding it (constructed that way, or shared by two initializers)."""
    small = {it["name"] for it in spec["inits"] if it["kind"] == "M" and it["len"] <= 256}
    return any((it["kind"] == "M" and it["len"] <= 256 and it.get("tname_differs")) or
               (it["kind"] == "A" and it["of"] in small) for it in spec["inits"])


def pred_sub_uninit(spec: dict) -> bool:
    """F2: the only uninitialized initializers live in sub-graphs (the guard looks at the main graph only)."""
    us = [it for it in spec["inits"] if it["kind"] == "U"]
    return bool(us) and all(it["sub"] for it in us)


def model_file_objs(spec: dict) -> set[int]:
    """Heap positions (objects owned by M/E initializers, spec order) of external tensors stored in the file at model_path."""
    model_rel = L.join(spec.get("dir", ""), spec["name"])
    owners = [it for it in spec["inits"] if it["kind"] in ("M", "E")]
    return {j for j, it in enumerate(owners) if it["kind"] == "E" and it["file"] == model_rel and it["len"] > 0}


D5_PREFIX = "tensor stored in the model file itself no longer reads its data"


REFUSE = 1  # the tree carries the second guard (56a0c3c): tensors stored in the destination data file are refused


def pred_dest_path(spec: dict) -> bool:
    """Some initializer is an ExternalTensor whose file is the destination data file (existing or not)."""
    data_rel = L.join(spec.get("dir", ""), spec["name"]) + ".data"
    return any(it["kind"] == "E" and it["file"] == data_rel for it in spec["inits"])


def pred_model_path(spec: dict) -> bool:
    """Some initializer is an ExternalTensor whose file is the file at model_path itself (refused since 3d20cf2, C20-D5)."""
    model_rel = L.join(spec.get("dir", ""), spec["name"])
    return any(it["kind"] == "E" and it["file"] == model_rel for it in spec["inits"])


def well_formed(spec: dict) -> bool:
    """No uninitialized initializer, every external tensor valid and inside an existing file (and, when the tree has the
    second guard, none stored in the destination data file: such a model is refused by contract)."""
    if REFUSE and (pred_dest_path(spec) or pred_model_path(spec)):
        return False
    flen = {f: n for f, _s, n in spec.get("files", [])}
    for it in spec["inits"]:
        if it["kind"] == "U":
            return False
        if it["kind"] == "E":
            if not it.get("valid", 1):
                return False
            if it["len"] > 0 and (it["file"] not in flen or it["off"] + it["len"] > flen[it["file"]]):
                return False
    return True


# --------------------------------------------------------------------------- the property's oracle (real side only)


def oracle(spec: dict, k, r: dict) -> list[tuple[str, str]]:
    """Failures of the property on one real run: list of (clause, detail)."""
    out = []
    b, a = r["before"], r["after"]
    has_u = any(it["kind"] == "U" for it in spec["inits"])
    if has_u:
        if r["res"] != "ValueError" or r["calls"] != 0 or a["files"] != b["files"]:
            out.append(("guard", f"uninitialized initializer present but res={r['res']} fs_calls={r['calls']} "
                        f"files_changed={a['files'] != b['files']}"))
    elif REFUSE and (pred_dest_path(spec) or pred_model_path(spec)):
        if r["res"] != "ValueError" or r["calls"] != 0 or a["files"] != b["files"]:
            which = "destination data file" if pred_dest_path(spec) else "model file itself"
            out.append(("guard", f"an initializer is stored in the {which} but res={r['res']} "
                        f"fs_calls={r['calls']} files_changed={a['files'] != b['files']}"))
    if a["ids"] != b["ids"]:
        out.append(("unchanged", "const_value identities differ after the call"))
    if a["heap"] != b["heap"]:
        hb, ha = b["heap"].split(","), a["heap"].split(",")
        changed = {j for j in range(max(len(hb), len(ha))) if j >= len(hb) or j >= len(ha) or hb[j] != ha[j]}
        if changed <= model_file_objs(spec):  # only tensors whose backing file IS the model file (C20-D5, fixed 3d20cf2)
            out.append(("unchanged", f"{D5_PREFIX}: before {b['heap']} after {a['heap']}"))
        else:
            out.append(("unchanged", f"tensor objects changed: before {b['heap']} after {a['heap']}"))
    if a["graph"] != b["graph"]:
        strip = lambda g: [ln.rsplit(", ", 1)[0] if ln.startswith(" I ") else ln for ln in g.split("\n")]
        out.append(("unchanged", "graph structure changed" if strip(a["graph"]) != strip(b["graph"])
                    else "graph structure same but tensor names changed"))
    if r["res"] == "ok":
        data_rel = L.join(spec.get("dir", ""), spec["name"]) + ".data"
        if data_rel not in a["files"]:
            out.append(("roundtrip", f"no sibling data file {data_rel}"))
        # per graph: the loaded model has the same initializers (name, bytes) in every graph as the in-memory model
        want = sorted(f"{g}/{n}:{pl}" for n, g, _sub, pl in b["bytes"] if pl is not None)
        got = r["load"]
        names_missing = has_u
        if got == "none":
            out.append(("roundtrip", f"ir.load of the result failed ({r['load_struct']})"))
        else:
            unreadable = {f"{g}/{n}" for n, g, _s, pl in b["bytes"] if pl is None}
            got_l = [x for x in r["load_pg"] if x.split(":")[0] not in unreadable]
            if got_l != want or names_missing:
                out.append(("roundtrip", f"loaded initializers (per graph) {got_l} != model's {want}"
                            + (" (an uninitialized initializer was dropped)" if names_missing else "")))
            elif r["load_struct"] != r["struct_expected"]:
                out.append(("roundtrip", "loaded graph structure differs from the in-memory model"))
    elif not r["fired"] and well_formed(spec):
        out.append(("roundtrip", f"save failed without any I/O fault on a well-formed model: {r['exc']}"))
    return out


def classify(spec: dict, clause: str, detail: str = "") -> str | None:
    if clause in ("guard", "roundtrip") and pred_sub_uninit(spec):
        return "C20-D2"
    if clause == "unchanged" and detail.endswith("tensor names changed") and pred_rename(spec):
        return "C20-D4"
    if clause == "unchanged" and detail.startswith(D5_PREFIX) and model_file_objs(spec):
        return "C20-D5"  # fixed in 3d20cf2: not an open finding any more, so a recurrence is reported as a VIOLATION
    if clause == "unchanged" and pred_dest_ref(spec):
        return "C20-D1"
    if clause == "roundtrip" and pred_dest_ref(spec) and pred_dest_alias(spec):
        return "C20-D1"  # the shared object is invalidated by its first materialisation, the second one raises
    return None


# --------------------------------------------------------------------------- one case = one spec × all fault points


def check_spec(drv, spec: dict, deep, stats: Counter, ks=None, tie=True):
    """Returns (tie_problems, property_problems); each item (spec, k, detail[, clause]).  `tie=False`: the property's
    oracle only (runs whose file leftovers the Lean model does not describe: partial writes)."""
    r0 = L.run_real(spec, None)
    n = r0["calls"]
    if ks is None:
        ks = [None] + list(range(n + 1))
    outs = drv.ask([L.model_line(spec, k, deep) for k in ks]) if tie else [None] * len(ks)
    ties, props = [], []
    for k, mline in zip(ks, outs):
        r = r0 if k is None else L.run_real(spec, k)
        stats["runs"] += 1
        stats["res_" + r["res"]] += 1
        if r["fired"]:
            stats["faults_fired"] += 1
            op = r["line"].split("trace=")[1].split(" | ")[0].split(",")[k].split(":")[0]
            stats["fault_at_" + op] += 1
        if r.get("partial_fired"):
            stats["partial_write_faults"] += r["partial_fired"]
            if spec.get("prior") and r["res"] == "ok":
                stats["partial_write_then_retry_ok"] += 1
        if tie and r["line"] != mline:
            diffs = [f"{x} ≠ model {y}" for x, y in zip(r["line"].split(" | "), mline.split(" | ")) if x != y]
            ties.append((spec, k, "; ".join(diffs)[:900]))
        if r["ndesc"] != r["updates"]:
            ties.append((spec, k, f"progress callback: {r['updates']} updates for {r['ndesc']} descriptions"))
        for clause, detail in oracle(spec, k, r):
            props.append((spec, k, detail, clause))
    stats["specs"] += 1
    if spec.get("prior"):
        pr = spec["prior"]
        stats["hist_specs"] += 1
        stats[f"hist_prior_len_{min(len(pr), 3)}"] += 1
        stats["hist_runs"] += len(ks)
        pres = r0["prior_res"]
        if "OSError" in pres and r0["res"] == "ok":
            stats["hist_ok_after_faulted_call"] += 1
        if pres and pres[-1] == "ok":
            stats["hist_resave_after_ok"] += 1 if r0["res"] == "ok" else 0
        if "ValueError" in pres:
            stats["hist_prior_refused"] += 1
        if len(pr) >= 2 and "OSError" in pres and "ok" in pres:
            stats["hist_mixed_prior"] += 1
        if any(k is not None for k in ks) :
            stats["hist_observed_call_faulted"] += 1
    nm = [it["name"] for it in spec["inits"]]
    if len(set(nm)) != len(nm):
        stats["specs_same_name_in_two_graphs"] += 1
        dup = {n for n in nm if nm.count(n) > 1}
        if any(it["kind"] == "U" and it["name"] in dup for it in spec["inits"]):
            stats["specs_same_name_one_uninitialized"] += 1
    stats["fault_points"] += n + 1
    for it in spec["inits"]:
        key = it["kind"]
        if key == "A":
            src = next(x for x in spec["inits"] if x["name"] == it["of"])
            stats["init_A_of_" + src["kind"]] += 1
            stats["init_A"] += 1
            continue
        if key == "M":
            key += "_np" if it["np"] else "_raw"
            key += "_small" if it["len"] <= 256 else ("_big" if it["len"] > MIB else "_mid")
            if it["len"] == 0:
                stats["init_zero_size"] += 1
            if it["shape"] == []:
                stats["init_scalar"] += 1
        elif key == "E":
            data_rel = L.join(spec.get("dir", ""), spec["name"]) + ".data"
            key += "_dest" if it["file"] == data_rel else ("_modelfile" if it["file"] == L.join(spec.get("dir", ""), spec["name"]) else "_other")
            key += "_small" if it["len"] <= 256 else ("_big" if it["len"] > MIB else "_mid")
            if not it.get("valid", 1):
                stats["init_E_invalid"] += 1
        else:
            key += "_sub" if it["sub"] else "_main"
        stats["init_" + key] += 1
        if it["sub"]:
            stats["init_in_subgraph"] += 1
            stats[f"init_level_{it['sub']}"] += 1
        if it["kind"] == "E" and it["file"] == L.join(spec.get("dir", ""), spec["name"]) + ".data":
            if spec.get("style") == "symdir":
                stats["dest_tensor_under_symlinked_dir"] += 1
            if it.get("via_link"):
                stats["dest_tensor_via_link"] += 1
            if spec.get("style") == "symdir" and it.get("via_link"):
                stats["dest_tensor_via_link_under_symlinked_dir"] += 1
        if it["kind"] == "E" and it["file"] == L.join(spec.get("dir", ""), spec["name"]):
            if spec.get("style") == "symdir":
                stats["modelfile_tensor_under_symlinked_dir"] += 1
            if it.get("via_link"):
                stats["modelfile_tensor_via_link"] += 1
            if spec.get("prior"):
                stats["hist_modelfile_tensor"] += 1
        for fl in ("is_input", "used", "is_output", "lazy", "tname_differs", "via_link"):
            if it.get(fl):
                stats[f"init_{fl}"] += 1
                stats[f"init_{it['kind']}_{fl}"] += 1
        if it["kind"] == "U":
            stats["init_U_meta_" + it.get("meta", "full")] += 1
    stats[f"verbose_{spec.get('verbose', 0)}"] += 1
    stats[f"style_{spec.get('style')}"] += 1
    stats["dir_" + (spec.get("dir") or "root")] += 1
    if "sk:" in r0["line"] and ",w:" in r0["line"]:
        stats["specs_with_padding_or_raw_write"] += 1
    return ties, props


def main(run: core.Run) -> None:
    run.assumptions += [
        "A-ir: onnx_ir.save / external_data / serde and onnx.save are third-party; their file-system call sequence is "
        "transcribed in OV.Model.C20Save and executed for real by the correspondence (not proved)",
        "fault alphabet: open, write, flush, seek, read, close on files below the model directory (plus os.replace/rename/"
        "remove/mkdir/... should the code start using them); stat-family calls, tell, fileno and the C-level write inside "
        "numpy.ndarray.tofile are not fault points; a fault replaces the call (nothing partial is written by the failed call)",
        "one fault per call (the k-th file-system call); in histories every call has its own fault plan",
        "partial writes (a faulted write() that first puts half of its data on disk) are exercised on the real code only: "
        "property oracle at every write-type fault point, and oracle + tie for the fault-free retry after such a fault; the Lean "
        "model's faulted call writes nothing; fsync and crashes are outside",
        "file identity: the Lean model names files canonically (path equality = same file); the harness spells the same file "
        "through symlinked directories / symlinked files on the real side (dest_spelling_grid, style symdir, via_link)",
        "after a fault nothing is claimed about the files on disk, only about the in-memory model",
        "tensor kinds exercised: ir.Tensor(ndarray), serde.TensorProtoTensor, ir.ExternalTensor (TorchTensor takes the same "
        "file.write(tobytes()) path as TensorProtoTensor and is not instantiated)",
    ]
    audit = run.prove(PROP_MODULES)
    drv = core.Driver("C20")
    stats: Counter = Counter()
    # the guard walks every graph (fix 1c518f5); only while C20-D2 is listed as *open* is the old scope probed
    global REFUSE
    # The model is pinned to the code as it is (no adaptive probing): the guard walks every graph (1c518f5), tensors
    # stored in the destination data file are refused (56a0c3c), tensor names are restored (657db39).  A tree that
    # behaves otherwise breaks the tie / the oracle and is reported.
    deep, REFUSE, keep = 1, 1, 1
    run.coverage["model_cfg_pinned"] = {"deep": True, "refuse": True, "keepNames": True}
    deep = f"{deep}{REFUSE}{keep}"  # the model's Cfg as the driver reads it

    if run.replay_path:
        body = json.loads(open(run.replay_path).read())
        case = body.get("case", {})
        spec = case.get("spec")
        if spec is None:
            print("REPLAY: no executable case in this replay (names a broken obligation):", body.get("what"))
            run.coverage.update(evaluations=0, distinct_nontrivial=0)
            if not audit["ok"]:
                run.violation({"broken": "proof obligations", "problems": audit["problems"]}, "proof obligations still fail", no_input=True)
            return
        ks = [case["k"]] if "k" in case else None
        ties, props = check_spec(drv, spec, deep, stats, ks=ks)
        for s, k, d in ties:
            print(f"REPLAY tie k={k}: {d}")
        for s, k, d, c in props:
            print(f"REPLAY property[{c}] k={k}: {d}")
        open_ids = {f["id"] for f in run.open_findings()}
        bad = [(s, k, d, c) for s, k, d, c in props if classify(s, c, d) not in open_ids]
        for s, k, d, c in props:
            fid = classify(s, c, d)
            if fid in open_ids:
                run.known(fid, f"k={k}: {d[:200]}")
        if bad:
            run.violation({"spec": spec, "k": bad[0][1], "clause": bad[0][3], "detail": bad[0][2]}, "replayed case still fails: " + bad[0][2][:300])
        elif ties:
            run.violation({"spec": spec, "k": ties[0][1], "detail": ties[0][2]}, "replayed correspondence still broken: " + ties[0][2][:300], no_input=True)
        run.coverage.update(evaluations=stats["runs"], distinct_nontrivial=stats["specs"])
        return

    corpus = [json.loads(l) for l in (core.VERIF / "harness" / "corpus_c20.jsonl").read_text().splitlines() if l.strip()]
    n_small = run.size(70, 420)
    n_big = run.size(5, 36)
    drift = core.fingerprint_drift("C20", ANCHOR, ["save_model_with_external_data"])
    if drift and run.tier == "quick":
        n_small *= 3
    run.coverage["fingerprint_drift"] = drift

    all_ties, all_props = [], []
    seen = set()
    specs = [c["spec"] for c in corpus]
    specs += list(guard_grid(run.rng))
    specs += list(same_name_grid(run.rng))
    specs += list(dest_spelling_grid(run.rng))
    specs += [gen_spec(run.rng, False) for _ in range(n_small)]
    specs += [gen_spec(run.rng, True) for _ in range(n_big)]
    for spec in specs:
        key = json.dumps(spec, sort_keys=True)
        if key in seen:
            continue
        seen.add(key)
        t, p = check_spec(drv, spec, deep, stats)
        all_ties += t
        all_props += p
        if spec["inits"] and len(run.samples) < 6:
            run.sample({"spec": spec, "model_line_k_none": L.model_line(spec, None, deep)})

    # ---- histories: the same model object saved again after a failed / successful / refused save (theorems
    # history_keeps_model_and_data, save_after_history_roundtrips, retry_after_fault_roundtrips); the oracle compares with the
    # state before the FIRST call and demands a complete round trip of every fault-free call on a well-formed model
    for spec, ks in history_specs(run.rng, run.tier != "quick", run.size(12, 80)):
        key = json.dumps(spec, sort_keys=True)
        if key in seen:
            continue
        seen.add(key)
        t, p = check_spec(drv, spec, deep, stats, ks=ks)
        all_ties += t
        all_props += p

    # ---- partial writes (outside the Lean model: a faulted write() leaves the first half of its data on disk).  (a) single
    # call, every write-type fault point: the property's oracle only (in-memory model unchanged, guards);  (b) the same fault
    # in an earlier call followed by a fault-free retry: oracle AND tie (the retry truncates whatever was left behind)
    for base in history_bases(run.rng, False)[:3]:
        tr = L.run_real(base, None)["line"].split("trace=")[1].split(" | ")[0].split(",")
        wks = [i for i, op in enumerate(tr) if op.startswith("w:")]
        pspec = dict(base, partial=1)
        t, p = check_spec(drv, pspec, deep, stats, ks=wks, tie=False)
        all_props += p
        for k in wks:
            t, p = check_spec(drv, dict(base, partial=1, prior=[k]), deep, stats, ks=[None])
            all_ties += t
            all_props += p

    # ---- outside the model: an uninitialized initializer in a sub-graph of a model-local function
    fb = L.function_body_probe()
    stats["function_body_probe_" + fb["res"]] += 1
    run.coverage["function_body_probe"] = fb
    fb_failed = fb["res"] != "ValueError" or fb["files"]
    if not fb["still_uninit"] or not fb["big_same"]:
        all_props.append(({"name": "function_body_probe", "dir": "", "files": [], "inits": []}, None,
                          f"function-body probe: in-memory model changed {fb}", "unchanged"))

    # ---- verdict
    findings = {f["id"]: f for f in run.open_findings()}
    if fb_failed:
        if "C20-D3" in findings:
            run.known("C20-D3", f"uninitialized initializer in an If branch inside a model-local function is not refused: "
                      f"res={fb['res']} files={fb['files']}")
        else:
            run.violation({"probe": "harness/c20_lib.py function_body_probe", "observed": fb},
                          f"uninitialized initializer inside a function body is not refused before writing: {fb}")
    known_counts: Counter = Counter()
    failures = []
    for spec, k, detail, clause in all_props:
        fid = classify(spec, clause, detail)
        if fid and fid in findings:
            known_counts[fid] += 1
            if known_counts[fid] == 1:
                run.known(fid, f"[{clause}] k={k} inits={[(i['name'], i['kind'], i.get('file'), i.get('len')) for i in spec['inits']]}: {detail[:300]}")
        else:
            failures.append((spec, k, detail, clause))
    for fid, c in known_counts.items():
        stats["known_" + fid] = c

    def size_of(spec):
        return (len(spec["inits"]), sum(i.get("len", 0) for i in spec["inits"]), len(spec["files"]))

    if failures:
        failures.sort(key=lambda f: (size_of(f[0]), -1 if f[1] is None else f[1]))
        spec, k, detail, clause = failures[0]
        run.violation(
            {"spec": spec, "k": k, "clause": clause, "detail": detail, "others": len(failures) - 1},
            f"save_model_with_external_data violates '{clause}' at fault point k={k}: {detail[:400]}",
        )
    elif all_ties:
        # search the neighbourhood for an input failing the property's oracle (already evaluated on every run above;
        # widen with fresh cases, oracle only)
        found = None
        for _ in range(run.size(60, 200)):
            spec = gen_spec(run.rng, False)
            r0 = L.run_real(spec, None)
            for k in [None] + list(range(r0["calls"] + 1)):
                r = r0 if k is None else L.run_real(spec, k)
                bad = [(c, d) for c, d in oracle(spec, k, r) if classify(spec, c, d) not in findings]
                if bad:
                    found = (spec, k, bad[0])
                    break
            if found:
                break
        all_ties.sort(key=lambda f: (size_of(f[0]), -1 if f[1] is None else f[1]))
        spec, k, detail = all_ties[0]
        if found:
            run.violation({"spec": found[0], "k": found[1], "clause": found[2][0], "detail": found[2][1]},
                          f"save_model_with_external_data violates '{found[2][0]}': {found[2][1][:400]}")
        else:
            run.violation(
                {"spec": spec, "k": k, "detail": detail, "broken": "correspondence OV.C20.runSave vs save_model_with_external_data",
                 "others": len(all_ties) - 1},
                f"correspondence broken at k={k}: {detail[:500]}; no input found on which the property's oracle fails",
                no_input=True,
            )
    if not audit["ok"]:
        run.violation(
            {"broken": "proof obligations of OV.Props.C20", "problems": audit["problems"], "log": audit["build_log"][-1500:]},
            "Lean proof obligations for C20 do not check: " + "; ".join(audit["problems"][:3]),
            no_input=True,
        )

    nontrivial = sum(1 for s in seen if '"kind"' in s)
    run.coverage.update(
        evaluations=stats["runs"],
        distinct_nontrivial=nontrivial,
        rule="distinct (model, pre-existing files, path style, verbosity) cases with at least one initializer; each is run on "
        "the real save_model_with_external_data once per fault point (none, 0..N) and on the Lean model",
        traces_validated_against_impl=stats["runs"],
        distribution=dict(stats),
        exhaustive=True,
        explanation="per case every fault point k in 0..N (N = file-system calls of the fault-free run) plus the fault-free run is "
        "executed on the real code and the model; the cases themselves are corpus + seeded random",
    )
    need = ["init_tname_differs", "specs_same_name_in_two_graphs", "specs_same_name_one_uninitialized", "init_level_4", "init_A_of_M", "init_A_of_E", "init_U_is_input", "init_U_used", "init_U_is_output", "init_M_is_input", "init_E_is_input", "init_level_1",
            "init_level_2", "init_level_3", "init_lazy", "init_U_meta_none", "init_U_sub",
            "init_M_np_mid", "init_M_raw_mid", "init_E_other_mid", "init_E_dest_mid", "init_E_dest_small", "init_U_main",
            "init_zero_size", "init_scalar", "init_M_np_big", "verbose_1", "verbose_2", "style_rel", "dir_sub",
            "style_symdir", "init_E_via_link", "dest_tensor_under_symlinked_dir", "dest_tensor_via_link",
            "dest_tensor_via_link_under_symlinked_dir", "modelfile_tensor_under_symlinked_dir", "modelfile_tensor_via_link", "hist_modelfile_tensor", "init_E_modelfile_small", "init_E_modelfile_mid", "partial_write_faults", "partial_write_then_retry_ok", "hist_specs", "hist_prior_len_1", "hist_prior_len_2", "hist_ok_after_faulted_call", "hist_resave_after_ok",
            "hist_prior_refused", "hist_mixed_prior", "hist_observed_call_faulted"]
    missing = [n for n in need if stats[n] == 0]
    if missing:
        raise core.Infra(f"generator degenerated: never produced {missing}")
