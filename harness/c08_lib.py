"""C08 plumbing: trace a real torch_lib function, render the emitted graph as canonical dataflow
terms, run it on onnxruntime (optimisations off), run PyTorch eager.

The tracing recipe is the repo's own (tests/function_libs/torch_lib/ops_test_common.py
`graph_executor`): symbolic inputs + `torch.onnx._internal.exporter._building.OpRecorder` as the
default evaluator.  Nothing here is specific to a family; families live in c08_cases.py.
"""
from __future__ import annotations

import numpy as np

_STATE: dict = {}


def _mods():
    if _STATE:
        return _STATE
    import onnx_ir as ir
    import onnxruntime as ort
    import torch
    from torch.onnx._internal.exporter import _building, _tensors

    import onnxscript
    from onnxscript.function_libs.torch_lib.ops import core, nn, prims, special  # noqa: F401

    ort.set_default_logger_severity(4)
    _STATE.update(ir=ir, ort=ort, torch=torch, building=_building, tensors=_tensors, onnxscript=onnxscript, core=core, nn=nn, special=special)
    _STATE["np2ir"] = {
        np.dtype("float32"): ir.DataType.FLOAT,
        np.dtype("float64"): ir.DataType.DOUBLE,
        np.dtype("float16"): ir.DataType.FLOAT16,
        np.dtype("int64"): ir.DataType.INT64,
        np.dtype("int32"): ir.DataType.INT32,
        np.dtype("int16"): ir.DataType.INT16,
        np.dtype("int8"): ir.DataType.INT8,
        np.dtype("uint8"): ir.DataType.UINT8,
        np.dtype("bool"): ir.DataType.BOOL,
    }
    return _STATE


def find_fn(name):
    m = _mods()
    for k in ("core", "nn", "special"):
        if hasattr(m[k], name):
            return getattr(m[k], name)
    import importlib
    linalg = importlib.import_module("onnxscript.function_libs.torch_lib.ops.linalg")
    if hasattr(linalg, name):
        return getattr(linalg, name)
    raise AttributeError(name)


class Seq(list):
    """Marks an argument that is a Python sequence of tensors (Tensor[] parameter)."""


def trace(fn, args, kwargs):
    """Trace `fn` with numpy arrays replaced by symbolic tensors.

    Returns (ir.Model, feeds, symbolic outputs (flat list), out_structure) where out_structure is
    "single" or "list" (the function returned a Python sequence of values).
    """
    m = _mods()
    ir, onnxscript = m["ir"], m["onnxscript"]
    graph = ir.Graph(
        (), (), nodes=(),
        opset_imports={"": 18, "pkg.torch.onnx": 1, "pkg.onnxscript.torch_lib.common": 1, "pkg.onnxscript.torch_lib": 1},
        name="main_graph",
    )
    opset = onnxscript.opset18
    tracer = m["building"].OpRecorder(opset, {})
    feeds: dict = {}

    def sym(a):
        name = f"x{len(graph.inputs)}"
        v = m["tensors"].SymbolicTensor(opset=opset, name=name, shape=ir.Shape(a.shape), type=ir.TensorType(m["np2ir"][a.dtype]))
        graph.inputs.append(v)
        feeds[name] = a
        return v

    def conv(a):
        if isinstance(a, np.ndarray):
            return sym(a)
        if isinstance(a, Seq):
            return [conv(s) for s in a]
        return a

    oargs = [conv(a) for a in args]
    okw = {k: conv(v) for k, v in kwargs.items()}
    with onnxscript.evaluator.default_as(tracer):
        outs = fn(*oargs, **okw)
    structure = "single"
    if isinstance(outs, (list, tuple)):
        structure = "list"
        outs = list(outs)
    else:
        outs = [outs]
    graph.outputs.extend(outs)
    graph.extend(tracer.nodes)
    model = ir.Model(graph, ir_version=10, producer_name="c08")
    for ident, f in tracer.functions.items():
        if ident in model.functions:
            continue
        if not isinstance(f, ir.Function):
            f = ir.serde.deserialize_function(f.to_function_proto())
        model.functions[ident] = f
    return model, feeds, outs, structure


# --------------------------------------------------------------------------- rendering


def _fmt_num(x, dtype_name: str) -> str:
    if dtype_name in ("INT64",):
        return str(int(x))
    if dtype_name == "BOOL":
        return ("1" if bool(x) else "0") + ":BOOL"
    if dtype_name.startswith("INT") or dtype_name.startswith("UINT"):
        return f"{int(x)}:{dtype_name}"
    return f"{float(x)!r}:{dtype_name}"


def _fmt_tensor(t) -> str:
    arr = t.numpy()
    name = t.dtype.name
    if arr.ndim == 0:
        return _fmt_num(arr.item(), name)
    if arr.ndim == 1:
        if name == "INT64":
            return "[" + ",".join(str(int(v)) for v in arr.tolist()) + "]"
        return "[" + ",".join(_fmt_num(v, name) for v in arr.tolist()) + "]"
    return f"T{list(arr.shape)}:{name}"


def _fmt_attr(a) -> str:
    m = _mods()
    ir = m["ir"]
    T = ir.AttributeType
    if a.type == T.INT:
        return str(int(a.value))
    if a.type == T.INTS:
        return "[" + ",".join(str(int(v)) for v in a.value) + "]"
    if a.type == T.FLOAT:
        return repr(float(a.value))
    if a.type == T.FLOATS:
        return "[" + ",".join(repr(float(v)) for v in a.value) + "]"
    if a.type == T.STRING:
        return str(a.value)
    if a.type == T.TENSOR:
        return _fmt_tensor(a.value)
    return f"<{a.type.name}>"


def _const_str(node) -> str:
    (name, a), = list(node.attributes.items())[:1] or [(None, None)]
    m = _mods()
    T = m["ir"].AttributeType
    if name == "value_ints":
        return "[" + ",".join(str(int(v)) for v in a.value) + "]"
    if name == "value_int":
        return str(int(a.value))
    if name == "value_float":
        return repr(float(a.value)) + ":FLOAT"
    if name == "value_floats":
        return "[" + ",".join(repr(float(v)) + ":FLOAT" for v in a.value) + "]"
    if name == "value" and a.type == T.TENSOR:
        return _fmt_tensor(a.value)
    return f"Constant<{name}>"


def render_outputs(model, outs) -> list[str]:
    """One canonical term per graph output."""
    memo: dict = {}
    names = {id(v): v.name for v in model.graph.inputs}

    def term(v) -> str:
        if v is None:
            return "_"
        if id(v) in names:
            return names[id(v)]
        if id(v) in memo:
            return memo[id(v)]
        node = v.producer()
        if node is None:
            cv = getattr(v, "const_value", None)
            s = _fmt_tensor(cv) if cv is not None else f"?{v.name}"
        elif node.op_type == "Constant" and node.domain in ("", "ai.onnx"):
            s = _const_str(node)
        else:
            ins = [term(i) for i in node.inputs]
            while ins and ins[-1] == "_":
                ins.pop()
            attrs = sorted((k, _fmt_attr(a)) for k, a in node.attributes.items())
            head = node.op_type if node.domain in ("", "ai.onnx") else f"{node.domain}::{node.op_type}"
            s = head + "(" + ",".join(ins) + (";" + ",".join(f"{k}={val}" for k, val in attrs) if attrs else "") + ")"
            if len(node.outputs) > 1:
                s += f"#{list(node.outputs).index(v)}"
        memo[id(v)] = s
        return s

    return [term(o) for o in outs]


def node_ops(model) -> list[str]:
    return [n.op_type for n in model.graph]


# --------------------------------------------------------------------------- runtimes


def run_ort(model, feeds):
    """Outputs as numpy arrays (a sequence output becomes a Python list of arrays)."""
    m = _mods()
    ort, ir = m["ort"], m["ir"]
    so = ort.SessionOptions()
    so.graph_optimization_level = ort.GraphOptimizationLevel.ORT_DISABLE_ALL
    so.log_severity_level = 4
    so.intra_op_num_threads = 1
    proto = ir.to_proto(model)
    used = {i.name for i in model.graph.inputs}
    sess = ort.InferenceSession(proto.SerializeToString(), so, providers=["CPUExecutionProvider"])
    ro = ort.RunOptions()
    ro.log_severity_level = 4
    return sess.run(None, {k: v for k, v in feeds.items() if k in used}, ro)


def shape_str(shape) -> str:
    return ",".join(str(int(d)) for d in shape) if len(shape) else "-"


def parse_shape(s: str) -> list[int]:
    return [] if s == "-" else [int(x) for x in s.split(",")]
