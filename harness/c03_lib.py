"""C03/C04 — tie plumbing: encode a model for the Lean driver, answer its reference-evaluator
requests, run the real `fold_constants`, canonicalise both results and diff them.
Also the concrete oracles used for search: onnxruntime (optimisations off), onnx.checker, an
independent scope/topology walker, the interface comparison.
"""
from __future__ import annotations

import hashlib
import re

import numpy as np
import onnx
import onnx.reference.ops
import onnx_ir as ir
from onnx import numpy_helper as nh

from harness import core

# ----------------------------------------------------------------------------- tokens


def arr_hash(a: np.ndarray, dtype_val: int) -> str:
    shape = tuple(np.shape(a))
    a = np.ascontiguousarray(a)
    hsh = hashlib.sha1()
    hsh.update(f"{dtype_val}|{shape}|".encode())
    hsh.update(a.tobytes() if a.dtype != object else repr(a.tolist()).encode())
    return hsh.hexdigest()[:12]


def q(s: str) -> str:
    return "~" if s == "" else s


SAFE = re.compile(r"^[A-Za-z0-9_.%:/\-]+$")


class Case:
    """One model + options; holds the token table shared by encoding, oracle and canonicalisation."""

    def __init__(self, proto: onnx.ModelProto, in_limit: int, out_limit: int, should_fold: str = "N"):
        self.proto = proto
        self.in_limit, self.out_limit, self.should_fold = in_limit, out_limit, should_fold
        self.tok_arr: dict[str, tuple[np.ndarray, int]] = {"TRUE1": (np.array([True]), 9)}
        self.tok_of_hash: dict[str, str] = {}
        self.attr_override: dict[str, tuple] = {}  # token -> canonical form of a non-tensor attribute
        self.opaque: dict[str, tuple] = {}  # opaque id -> (canonical form, python value)
        self.oracle: dict[str, str] = {}  # key -> token | "!F"
        self.static_line = None
        self.rounds = 0

    # -- tokens
    def tok(self, arr: np.ndarray, dtype_val: int, prefix="t") -> str:
        hs = arr_hash(arr, dtype_val)
        t = self.tok_of_hash.get(hs)
        if t is None:
            t = f"{prefix}{len(self.tok_of_hash)}"
            self.tok_of_hash[hs] = t
            self.tok_arr[t] = (arr, dtype_val)
        return t

    def arr(self, t: str):
        if t in self.tok_arr:
            return self.tok_arr[t]
        if t.startswith("ints:"):
            body = t[5:]
            return np.array([int(x) for x in body.split(",")] if body else [], dtype=np.int64), 7
        if t.startswith("int:"):
            return np.array(int(t[4:]), dtype=np.int64), 7
        raise core.Infra(f"unknown token {t}")

    def cinfo(self, t: str) -> str:
        a, dv = self.arr(t)
        shape = ",".join(map(str, a.shape)) or "-"
        if a.dtype.kind in "iub" and a.size <= 64:
            ints = ",".join(str(int(x)) for x in a.reshape(-1)) or "-"
        else:
            ints = "?"
        z = "?"
        if a.size == 1:
            try:
                z = "1" if a.reshape(-1)[0].item() == 0 else "0"
            except Exception:
                z = "?"
        return f"{t} {dv} {shape} {ints} {z}"


def const_array(t: ir.TensorProtocol):
    a = t.numpy()
    if t.dtype != ir.DataType.STRING:
        a = a.view(t.dtype.numpy())
    return a


# ----------------------------------------------------------------------------- encoding


def enc_shape(shape) -> str:
    if shape is None:
        return "?"
    if len(shape) == 0:
        return "-"
    out = []
    for d in shape:
        if isinstance(d, int):
            out.append(str(d))
        elif d.value is None:
            out.append("u")
        else:
            out.append("s:" + str(d.value))
    return ",".join(out)


def attr_canon(a: ir.Attr, case: Case):
    if a.is_ref():
        return ("ref", a.ref_attr_name)
    t = a.type
    if t == ir.AttributeType.INT:
        return ("i", int(a.value))
    if t == ir.AttributeType.INTS:
        return ("is", tuple(int(x) for x in a.value))
    if t == ir.AttributeType.TENSOR:
        return ("t", arr_hash(const_array(a.value), a.value.dtype.value))
    if t == ir.AttributeType.FLOAT:
        return ("f", repr(float(a.value)))
    if t == ir.AttributeType.FLOATS:
        return ("fs", tuple(repr(float(x)) for x in a.value))
    if t == ir.AttributeType.STRING:
        return ("s", str(a.value))
    return ("other", str(t), repr(a.value)[:80])


def enc_attr(name: str, a: ir.Attr, case: Case, op: str) -> str:
    if a.is_ref():
        return f"{name}=r:{a.ref_attr_name}"
    t = a.type
    if t == ir.AttributeType.INT:
        return f"{name}=i:{int(a.value)}"
    if t == ir.AttributeType.INTS:
        return f"{name}=is:" + ",".join(str(int(x)) for x in a.value)
    if t == ir.AttributeType.TENSOR:
        return f"{name}=t:" + case.tok(const_array(a.value), a.value.dtype.value)
    if op == "Constant" and name in ("value_float", "value_floats", "value_string", "value_strings"):
        if name.startswith("value_float"):
            arr, dv = np.array(a.value, dtype=np.float32), 1
        else:
            arr, dv = np.array(a.value, dtype=np.bytes_), 8
        tk = case.tok(arr, dv, prefix="vf")
        case.attr_override[(name, tk)] = attr_canon(a, case)
        return f"{name}=t:{tk}"
    oid = f"a{len(case.opaque)}"
    case.opaque[oid] = (attr_canon(a, case), a.value)
    return f"{name}=o:{oid}"


def enc_graph(g: ir.Graph, case: Case, vis: dict) -> list[str]:
    # The Lean model identifies a value with its name; ONNX only requires names to be unique per scope (two sibling If
    # branches may each own an initializer `w`).  Values are therefore named by object identity: the second distinct
    # value met under a name already in use is sent to the model as `name.dK` (canonical forms do not depend on names).
    names = case.__dict__.setdefault("_enc_names", {})
    used = case.__dict__.setdefault("_enc_used", set())
    keep = case.__dict__.setdefault("_enc_keep", [])

    def nm(v: ir.Value) -> str:
        got = names.get(id(v))
        if got is not None:
            return got
        name, k = v.name, 0
        while name in used:
            k += 1
            name = f"{v.name}.d{k}"
        used.add(name)
        names[id(v)] = name
        keep.append(v)
        return name

    def see(v: ir.Value):
        if v is None or nm(v) in vis:
            return
        dt = "?"
        if v.type is not None:
            try:
                dt = str(v.type.dtype.value)
            except Exception:
                dt = "?"
        c = "-"
        if v.const_value is not None:
            c = case.tok(const_array(v.const_value), v.const_value.dtype.value)
        vis[nm(v)] = f"{q(nm(v))} {dt} {enc_shape(v.shape)} {c}"

    out = ["G", str(len(g.inputs))]
    for v in g.inputs:
        see(v)
        out.append(q(nm(v)))
    inits = list(g.initializers.values())
    out.append(str(len(inits)))
    for v in inits:
        see(v)
        out += [q(nm(v)), case.tok(const_array(v.const_value), v.const_value.dtype.value)]
    nodes = list(g)
    out.append(str(len(nodes)))
    for n in nodes:
        for v in n.inputs:
            see(v)
        for v in n.outputs:
            see(v)
        out += ["N", n.op_type, q(n.domain), str(len(n.inputs))]
        out += ["-" if v is None else q(nm(v)) for v in n.inputs]
        out.append(str(len(n.outputs)))
        out += [q(nm(v)) for v in n.outputs]
        plain, subs = [], []
        for k, a in n.attributes.items():
            if a.type == ir.AttributeType.GRAPH:
                subs.append((k, a.as_graph()))
            elif a.type == ir.AttributeType.GRAPHS:
                raise core.Infra("GRAPHS attribute not generated")
            else:
                plain.append(enc_attr(k, a, case, n.op_type))
        out.append(str(len(plain)))
        out += plain
        out.append(str(len(subs)))
        for k, sg in subs:
            out.append(k)
            out += enc_graph(sg, case, vis)
    out.append(str(len(g.outputs)))
    out += [q(nm(v)) for v in g.outputs]
    return out


def encode_case(case: Case, model: ir.Model, graph=None, is_function: bool = False) -> None:
    vis: dict[str, str] = {}
    gtoks = enc_graph(model.graph if graph is None else graph, case, vis)
    for name in vis:
        if not SAFE.match(q(name)):
            raise core.Infra(f"unsafe value name {name!r}")
    imps = []
    for d, v in model.opset_imports.items():
        imps += [q(d), str(v)]
    case.static = {
        "head": f"fold L={case.in_limit} M={case.out_limit} SF={case.should_fold} FN={1 if is_function else 0} IMP {len(model.opset_imports)} " + " ".join(imps),
        "vi": f"VI {len(vis)} " + " ".join(vis.values()),
        "graph": " ".join(gtoks),
    }
    case.version = {d: v for d, v in model.opset_imports.items()}


def case_line(case: Case) -> str:
    toks = [t for t in case.tok_arr if t != "TRUE1"]
    tok_part = f"TOK {len(toks)} " + " ".join(case.cinfo(t) for t in toks)
    ora = []
    for k, t in case.oracle.items():
        ora.append(k + " " + (case.cinfo(t) if t != "!F" else "!F 0 - ? ?"))
    return " ".join([case.static["head"], tok_part, f"ORA {len(ora)}", *ora, case.static["vi"], case.static["graph"]])


# ----------------------------------------------------------------------------- the reference evaluator, called independently of /repo


def answer(case: Case, key: str) -> None:
    op, dom, ver, ins, attrs = key.split("|")
    args = []
    for t in ins.split("&") if ins else []:
        args.append(None if t == "-" else case.arr(t)[0])
    kwargs = {}
    for a in attrs.split(";") if attrs else []:
        k, v = a.split("=", 1)
        if v.startswith("i:"):
            kwargs[k] = int(v[2:])
        elif v.startswith("is:"):
            kwargs[k] = [int(x) for x in v[3:].split(",")] if v[3:] else []
        elif v.startswith("t:"):
            arr, dv = case.arr(v[2:])
            kwargs[k] = ir.serde.serialize_tensor(ir.tensor(arr))
        elif v.startswith("o:"):
            kwargs[k] = case.opaque[v[2:]][1]
        elif v.startswith("r:"):
            kwargs[k] = None  # a reference attribute has no value: process_node passes `attr.value` = None
    res = "!F"
    try:
        cls = onnx.reference.ops.load_op("" if dom == "~" else dom, op, int(ver))
        out = cls.eval(*args, **kwargs)
        if isinstance(out, np.ndarray):
            dv = ir.tensor(out).dtype.value
            res = case.tok(out, dv, prefix="f")
    except Exception:
        res = "!F"
    case.oracle[key] = res


def parse_answer(line: str):
    ts = line.split(" ")
    if ts[0] != "OK":
        raise core.Infra(f"model driver rejected the case: {line[:200]}")
    mod = ts[1] == "mod=1"
    err = ts[2][4:]
    assert ts[3].startswith("prune=") and ts[4] == "NEED"
    if ts[3] == "prune=0" and err == "-":
        err = "model:dangling-initializer"  # the side condition of fold_fragmentA_preserves_partial fails on this case
    k = int(ts[5])
    need = ts[6 : 6 + k]
    p = 6 + k
    assert ts[p] == "HIST"
    hcount = int(ts[p + 1])
    hist = ts[p + 2 : p + 2 + hcount]
    gt = ts[p + 2 + hcount :]
    return mod, (None if err == "-" else err), need, hist, gt


def run_model_side(drv: core.Driver, cases: list[Case], max_rounds=14):
    """Ask the Lean driver, answering oracle requests until none is left. Returns parsed answers."""
    pending = list(range(len(cases)))
    answers = [None] * len(cases)
    for rnd in range(max_rounds):
        if not pending:
            break
        outs = drv.ask([case_line(cases[i]) for i in pending])
        nxt = []
        for i, o in zip(pending, outs):
            a = parse_answer(o)
            answers[i] = a
            if a[2]:
                for key in a[2]:
                    answer(cases[i], key)
                cases[i].rounds += 1
                nxt.append(i)
        pending = nxt
    if pending:
        raise core.Infra("oracle dialogue did not converge")
    return answers


# ----------------------------------------------------------------------------- canonical forms


def parse_graph_tokens(ts: list[str], p: int = 0):
    """Token stream (as printed by the driver) -> nested dict; returns (graph, next position)."""
    assert ts[p] == "G", ts[p : p + 5]
    p += 1
    n = int(ts[p]); p += 1
    ins = [uq(x) for x in ts[p : p + n]]; p += n
    n = int(ts[p]); p += 1
    inits = []
    for _ in range(n):
        inits.append((uq(ts[p]), ts[p + 1])); p += 2
    n = int(ts[p]); p += 1
    nodes = []
    for _ in range(n):
        assert ts[p] == "N"
        op, dom = ts[p + 1], uq(ts[p + 2]); p += 3
        k = int(ts[p]); p += 1
        nin = [None if x == "-" else uq(x) for x in ts[p : p + k]]; p += k
        k = int(ts[p]); p += 1
        nout = [uq(x) for x in ts[p : p + k]]; p += k
        k = int(ts[p]); p += 1
        attrs = ts[p : p + k]; p += k
        k = int(ts[p]); p += 1
        subs = []
        for _ in range(k):
            key = ts[p]; p += 1
            sg, p = parse_graph_tokens(ts, p)
            subs.append((key, sg))
        nodes.append({"op": op, "domain": dom, "inputs": nin, "outputs": nout, "attrs": attrs, "subs": subs})
    n = int(ts[p]); p += 1
    outs = [uq(x) for x in ts[p : p + n]]; p += n
    return {"inputs": ins, "inits": inits, "nodes": nodes, "outputs": outs}, p


def uq(s):
    return "" if s == "~" else s


def canon_model_side(case: Case, g: dict, env=None, path=""):
    env = dict(env or {})
    for x in g["inputs"]:
        env[x] = f"in:{x}"
    init_ids = []
    for x, t in g["inits"]:
        a, dv = case.arr(t)
        hs = arr_hash(a, dv)
        if x in g["inputs"]:
            init_ids.append(f"initin:{x}:{hs}")
        else:
            env[x] = f"init:{hs}"
            init_ids.append(env[x])
    nodes = []
    # outputs are defined before the node's bodies are canonicalised
    for i, n in enumerate(g["nodes"]):
        for k, o in enumerate(n["outputs"]):
            if o != "":
                env[o] = f"n{path}{i}.{k}"
    for i, n in enumerate(g["nodes"]):
        attrs = []
        for a in n["attrs"]:
            k, v = a.split("=", 1)
            if v.startswith("i:"):
                c = ("i", int(v[2:]))
            elif v.startswith("is:"):
                c = ("is", tuple(int(x) for x in v[3:].split(",")) if v[3:] else ())
            elif v.startswith("t:"):
                c = case.attr_override.get((k, v[2:]))
                if c is None:
                    arr, dv = case.arr(v[2:])
                    c = ("t", arr_hash(arr, dv))
            elif v.startswith("r:"):
                c = ("ref", v[2:])
            else:
                c = case.opaque[v[2:]][0]
            attrs.append((k, c))
        subs = [(k, canon_model_side(case, sg, env, f"{path}{i}/{k}/")) for k, sg in n["subs"]]
        nodes.append((n["op"], n["domain"], tuple(env.get(x, f"?{x}") if x is not None else None for x in n["inputs"]),
                      len(n["outputs"]), tuple(sorted(attrs)), tuple(sorted(subs))))
    return (tuple(g["inputs"]), tuple(sorted(init_ids)), tuple(nodes), tuple(env.get(x, f"?{x}") for x in g["outputs"]))


def canon_real_side(case: Case, g: ir.Graph, env=None, path=""):
    env = dict(env or {})
    in_names = [v.name for v in g.inputs]
    for v in g.inputs:
        env[id(v)] = f"in:{v.name}"
    init_ids = []
    for v in g.initializers.values():
        hs = arr_hash(const_array(v.const_value), v.const_value.dtype.value)
        if id(v) in env:
            init_ids.append(f"initin:{v.name}:{hs}")
        else:
            env[id(v)] = f"init:{hs}"
            init_ids.append(env[id(v)])
    nodes_l = list(g)
    for i, n in enumerate(nodes_l):
        for k, o in enumerate(n.outputs):
            if o.name != "":
                env[id(o)] = f"n{path}{i}.{k}"
    nodes = []
    for i, n in enumerate(nodes_l):
        attrs, subs = [], []
        for k, a in n.attributes.items():
            if a.type == ir.AttributeType.GRAPH:
                subs.append((k, canon_real_side(case, a.as_graph(), env, f"{path}{i}/{k}/")))
            else:
                attrs.append((k, attr_canon(a, case)))
        nodes.append((n.op_type, n.domain, tuple(env.get(id(x), f"?{x.name}") if x is not None else None for x in n.inputs),
                      len(n.outputs), tuple(sorted(attrs)), tuple(sorted(subs))))
    return (tuple(in_names), tuple(sorted(init_ids)), tuple(nodes), tuple(env.get(id(x), f"?{x.name}") for x in g.outputs))


def first_diff(a, b, where="graph"):
    if type(a) != type(b):
        return f"{where}: {a!r} vs {b!r}"
    if isinstance(a, tuple):
        if len(a) != len(b):
            return f"{where}: length {len(a)} vs {len(b)}: {str(a)[:300]} VS {str(b)[:300]}"
        for i, (x, y) in enumerate(zip(a, b)):
            d = first_diff(x, y, f"{where}[{i}]")
            if d:
                return d
        return None
    return None if a == b else f"{where}: {a!r} vs {b!r}"


# ----------------------------------------------------------------------------- concrete oracles (search only)


def ort_session(model: onnx.ModelProto):
    import onnxruntime as ort

    ort.set_default_logger_severity(4)
    so = ort.SessionOptions()
    so.graph_optimization_level = ort.GraphOptimizationLevel.ORT_DISABLE_ALL
    so.log_severity_level = 4
    so.intra_op_num_threads = 1
    return ort.InferenceSession(model.SerializeToString(), so, providers=["CPUExecutionProvider"])


def outputs_equal(a: np.ndarray, b: np.ndarray) -> str | None:
    a, b = np.asarray(a), np.asarray(b)
    if a.dtype != b.dtype:
        return f"dtype {a.dtype} vs {b.dtype}"
    if a.shape != b.shape:
        return f"shape {a.shape} vs {b.shape}"
    if a.dtype.kind in "iub" or a.dtype.kind in "OSU":
        return None if np.array_equal(a, b) else f"values differ (exact dtype {a.dtype})"
    if not np.array_equal(np.isnan(a), np.isnan(b)):
        return "NaN positions differ"
    if not np.array_equal(np.isinf(a), np.isinf(b)) or not np.array_equal(np.sign(a[np.isinf(a)]), np.sign(b[np.isinf(b)])):
        return "inf positions differ"
    fin = np.isfinite(a)
    eps = np.finfo(a.dtype).eps
    tol = 64 * eps * np.maximum(np.abs(a[fin]), np.abs(b[fin])) + 64 * np.finfo(a.dtype).tiny + 1e-6 * (a.dtype == np.float16)
    bad = np.abs(a[fin] - b[fin]) > tol
    if bad.any():
        k = int(np.argmax(bad))
        return f"values differ beyond round-off: {a[fin][k]!r} vs {b[fin][k]!r}"
    return None


def semantic_diff(orig: onnx.ModelProto, new: onnx.ModelProto, feeds_list, must_run: bool = False) -> str | None:
    """None if `new` computes what `orig` computes on every feed (where `orig` executes).
    `must_run`: a harness error (Infra) if the original executes on none of the feeds."""
    try:
        s0 = ort_session(orig)
    except Exception as e:
        return None  # original not executable: outside the property
    try:
        s1 = ort_session(new)
    except Exception as e:
        return f"optimized model does not load: {str(e)[:200]}"
    n0 = [o.name for o in s0.get_outputs()]
    n1 = [o.name for o in s1.get_outputs()]
    if n0 != n1:
        return f"output names/order {n0} vs {n1}"
    ran = 0
    last_err = None
    for feeds in feeds_list:
        try:
            r0 = s0.run(None, feeds)
            ran += 1
        except Exception as e:
            last_err = e
            if "Unable to handle object of type" in str(e):
                raise core.Infra(f"harness built an invalid feed: {e}")
            continue
        try:
            ok1 = {i.name for i in s1.get_inputs()} | {i.name for i in s1.get_overridable_initializers()}
            r1 = s1.run(None, {k: v for k, v in feeds.items() if k in ok1})
        except Exception as e:
            return f"optimized model fails at run time where the original runs: {str(e)[:200]}"
        for name, a, b in zip(n0, r0, r1):
            if isinstance(a, list) or isinstance(b, list):
                continue
            d = outputs_equal(a, b)
            if d:
                return f"output {name}: {d}"
    if must_run and feeds_list and not ran:
        raise core.Infra(f"the original model executes on none of the feeds: {str(last_err)[:200]}")
    return None


def signature(m: onnx.ModelProto):
    def ty(v):
        t = v.type.tensor_type
        dims = tuple((d.dim_value if d.HasField("dim_value") else ("p", d.dim_param)
                      if d.HasField("dim_param") and not d.dim_param.startswith("unk__") else None)
                     for d in t.shape.dim) if t.HasField("shape") else None
        return (v.name, t.elem_type, dims)

    return ([ty(v) for v in m.graph.input], [ty(v) for v in m.graph.output])


def scope_walk(m: onnx.ModelProto) -> str | None:
    """Independent walker: SSA over all scopes, def-before-use with outer visibility, opset imports,
    no initializer/function referenced but missing."""
    imports = {o.domain if o.domain != "ai.onnx" else "" for o in m.opset_import}
    seen_global: set[str] = set()
    fnames = {(f.domain, f.name) for f in m.functions}

    def walk(g: onnx.GraphProto, outer: set[str], where: str) -> str | None:
        scope = set(outer)
        for i in g.input:
            if i.name in seen_global and i.name not in {x.name for x in g.initializer}:
                return f"{where}: input {i.name} redefines a value"
            seen_global.add(i.name)
            scope.add(i.name)
        for t in g.initializer:
            if t.name in seen_global and t.name not in {x.name for x in g.input}:
                return f"{where}: initializer {t.name} redefines a value"
            seen_global.add(t.name)
            scope.add(t.name)
        for k, n in enumerate(g.node):
            if (n.domain if n.domain != "ai.onnx" else "") not in imports:
                return f"{where}: node {k} ({n.op_type}) uses domain {n.domain!r} without opset import"
            for x in n.input:
                if x and x not in scope:
                    return f"{where}: node {k} ({n.op_type}) reads {x!r} before definition / not in scope"
            for a in n.attribute:
                subs = [a.g] if a.type == onnx.AttributeProto.GRAPH else list(a.graphs) if a.type == onnx.AttributeProto.GRAPHS else []
                for sg in subs:
                    e = walk(sg, scope, f"{where}/{n.op_type}#{k}.{a.name}")
                    if e:
                        return e
            for o in n.output:
                if o:
                    if o in seen_global:
                        return f"{where}: value {o!r} defined twice"
                    seen_global.add(o)
                    scope.add(o)
        for o in g.output:
            if o.name not in scope:
                return f"{where}: output {o.name!r} is not produced"
        return None

    return walk(m.graph, set(), "main")
