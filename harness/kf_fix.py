"""Move a finding to the 'fixed' list of known_findings.d/<file>.json.
usage: kf_fix.py <file-stem> <finding-id> <commit> [<property>]"""
import json, sys
stem, fid, commit = sys.argv[1:4]
p = f"/verif/known_findings.d/{stem}.json"
d = json.load(open(p))
keep = []
fixed = d.setdefault("fixed", [])
for f in d["findings"]:
    if f["id"] == fid:
        prop = sys.argv[4] if len(sys.argv) > 4 else f["properties"][0]
        e = {"id": fid, "properties": f["properties"], "status": "fixed", "commit": commit,
             "witness": f.get("witness"), "lean_negation": f.get("lean_negation"),
             "line": f"fixed: property={prop} {commit} {f['what'][:300]}"}
        fixed.append(e)
    else:
        keep.append(f)
d["findings"] = keep
json.dump(d, open(p, "w"), indent=1)
print(stem, fid, "->fixed", commit, "open left:", [f["id"] for f in keep])

import subprocess
subprocess.run(["/venv/bin/python", "/verif/harness/mkfindings.py"], capture_output=True)
