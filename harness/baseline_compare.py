"""Compare a junit xml of the repo's suite with /root/.vp/BASELINE.json stable_pass."""
import ast, json, sys
import xml.etree.ElementTree as ET
b = json.load(open("/root/.vp/BASELINE.json"))
stable = b["stable_pass"]
stable = set(ast.literal_eval(stable) if isinstance(stable, str) else stable)
t = ET.parse(sys.argv[1]).getroot()
res = {}
for tc in t.iter("testcase"):
    name = f"{tc.get('classname')}::{tc.get('name')}"
    bad = any(ch.tag in ("failure", "error") for ch in tc)
    skipped = any(ch.tag == "skipped" for ch in tc)
    res[name] = "fail" if bad else ("skip" if skipped else "pass")
missing = [s for s in stable if s not in res]
notpass = [s for s in stable if res.get(s) not in ("pass",) and s in res]
print("stable:", len(stable), "seen:", len(res), "stable passing:", sum(1 for s in stable if res.get(s) == "pass"))
print("stable not passing:", len(notpass), notpass[:20])
print("stable missing:", len(missing), missing[:10])
