"""C03/C04 — shared run logic: streams, witnesses of findings, verdict helpers."""
from __future__ import annotations

import copy
import json
import logging
from collections import Counter

import numpy as np
import onnx
import onnx_ir as ir
from onnx import TensorProto as TP
from onnx import helper as h
from onnx import numpy_helper as nh

from harness import c03_gen as G
from harness import c03_lib as L
from harness import core

logging.getLogger("onnxscript").setLevel(logging.CRITICAL)
logging.getLogger("onnx_ir").setLevel(logging.CRITICAL)

FINGERPRINTED = [
    "FoldConstantsPass.process_node", "FoldConstantsPass.replace_node", "FoldConstantsPass.visit_graph",
    "FoldConstantsPass.visit_node", "FoldConstantsPass._prepare_folded_tensor", "FoldConstantsPass.new_initializer",
    "_sym_value_can_replace_graph_output", "_clear_unused_initializers", "_process_constant_node",
    "_get_numpy_value", "_get_bool_value", "_same_shape", "_merge_shapes", "OptimizerState.get_shape_value",
    "add", "abs", "gather", "reshape", "squeeze", "cast", "cast_like", "shape", "size", "if_op", "identity",
    "sequence_construct", "concat", "dropout", "expand", "concat_from_sequence", "split_to_sequence", "sequence_at",
    "_move_initializers_to_graph", "_propagate_shape_value", "ReferenceEvaluator.get_evaluator", "_get_int_attribute",
]


FP_FILE = core.VERIF / "harness" / "c03_fingerprints.json"
FP_SRC = "onnxscript/optimizer/_constant_folding.py"


def fingerprint_drift() -> list[str]:
    """Modelled functions of _constant_folding.py whose normalised AST differs from the recorded one.
    Drift alone is not a broken tie; it multiplies the quick sample size."""
    cur = core.source_fingerprint(FP_SRC, FINGERPRINTED)
    if not FP_FILE.exists():
        return []
    rec = json.loads(FP_FILE.read_text())
    return sorted(q for q in FINGERPRINTED if rec.get(q) != cur.get(q))


# ----------------------------------------------------------------------------- model stream


def strip_unk(m: onnx.ModelProto) -> None:
    """Output dims that shape inference could only name `unk__k` are declared unknown."""
    for o in m.graph.output:
        for d in o.type.tensor_type.shape.dim:
            if d.HasField("dim_param") and d.dim_param.startswith("unk__"):
                d.ClearField("dim_param")


def gen_stream(run: core.Run, n: int, stats: Counter):
    out = []
    tries = 0
    while len(out) < n:
        tries += 1
        if tries > 3 * n + 50:
            raise core.Infra("generator degenerated: too many refused models")
        # one model in eight is drawn from the domain of the end-to-end theorem (fragment A)
        r = G.gen_model_fragment_a(run.rng) if run.rng.random() < 0.125 else G.gen_model(run.rng)
        if r is None or r[0] != "ok":
            stats["gen_refused"] += 1
            continue
        m, meta = r[1], r[2]
        strip_unk(m)
        try:
            annotated(m)  # the declared output types must be consistent with strict shape inference
        except Exception:
            stats["gen_refused"] += 1
            continue
        meta["opset"] = m.opset_import[0].version
        out.append((m, meta))
    if stats["gen_refused"] > 0.3 * n:
        raise core.Infra("generator degenerated: >30% refused models")
    return out


def annotated(m: onnx.ModelProto) -> onnx.ModelProto:
    """Both sides of the tie see the same facts: ONNX shape inference is run once, up front."""
    return onnx.shape_inference.infer_shapes(m, strict_mode=True)


def pred_c04d3(meta) -> bool:
    """opset < 18 and a SplitToSequence with a constant scalar split that divides evenly."""
    return meta.get("opset", 18) < 18 and "sts_scalar_even" in meta.get("tags", [])


# ----------------------------------------------------------------------------- the fold tie


def fold_tie(run: core.Run, drv: core.Driver, models, stats: Counter, hist: Counter):
    """model(foldGraph) vs real fold_constants on the same annotated models.
    Returns list of (kind, case_dict, detail); kind in {tie}."""
    from onnxscript.optimizer import _constant_folding as cf

    cases = []
    for m, meta in models:
        inf = annotated(m)
        c = L.Case(inf, run.rng.choice([0, 4, 8192, 8192]), run.rng.choice([0, 6, 262144, 262144]),
                   run.rng.choice(["N", "N", "N", "N", "T", "F"]))
        c.meta = meta
        L.encode_case(c, ir.serde.deserialize_model(inf))
        cases.append(c)
    problems = []
    for k in range(0, len(cases), 200):
        chunk = cases[k : k + 200]
        answers = L.run_model_side(drv, chunk)
        for c, a in zip(chunk, answers):
            mod, err, need, hh, gt = a
            stats["tie_cases"] += 1
            stats[f"oracle_rounds_{min(c.rounds, 4)}"] += 1
            for x in hh:
                hist[x] += 1
            mi = ir.serde.deserialize_model(c.proto)
            sf = {"N": None, "T": True, "F": False}[c.should_fold]
            rerr = None
            try:
                res = cf.fold_constants(mi, onnx_shape_inference=False, input_size_limit=c.in_limit,
                                        output_size_limit=c.out_limit, should_fold=lambda n, sf=sf: sf)
            except Exception as e:  # the real code raised
                rerr = f"{type(e).__name__}: {e.__cause__!r}"[:200]
            desc = {"model_b64": b64(c.proto), "in_limit": c.in_limit, "out_limit": c.out_limit,
                    "should_fold": c.should_fold, "tags": c.meta.get("tags")}
            if err and err.startswith("unmodelled"):
                stats["unmodelled"] += 1
                continue
            if err or rerr:
                stats["errors_seen"] += 1
                if bool(err) != bool(rerr):
                    problems.append(("tie", desc, f"exception parity: model={err} real={rerr}"))
                continue
            gm, _ = L.parse_graph_tokens(gt)
            d = L.first_diff(L.canon_real_side(c, mi.graph), L.canon_model_side(c, gm))
            if d is None and mod != bool(res.modified):
                d = f"modified flag: model={mod} real={res.modified}"
            if d:
                problems.append(("tie", desc, d))
            else:
                stats["tie_agree"] += 1
                if mod:
                    stats["tie_agree_modified"] += 1
    if stats["unmodelled"] > 0.05 * max(1, stats["tie_cases"]):
        raise core.Infra("more than 5% of the cases fall outside the model")
    return problems


def b64(m: onnx.ModelProto) -> str:
    import base64

    return base64.b64encode(m.SerializeToString()).decode()


def unb64(s: str) -> onnx.ModelProto:
    import base64

    m = onnx.ModelProto()
    m.ParseFromString(base64.b64decode(s))
    return m


# ----------------------------------------------------------------------------- option tuples & real entry points

OPTION_TUPLES = [
    dict(),
    dict(num_iterations=1, onnx_shape_inference=False),
    dict(num_iterations=3, stop_if_no_change=False),
    dict(input_size_limit=0, output_size_limit=0),
    dict(input_size_limit=4, output_size_limit=6, inline=False),
    dict(num_iterations=2, onnx_shape_inference=False, inline=False, stop_if_no_change=False, input_size_limit=0),
    dict(num_iterations=1, output_size_limit=0, as_ir=True),
    dict(num_iterations=3, input_size_limit=4, as_ir=True),
]


class ArgumentMutated(Exception):
    pass


def apply_api(api: str, m: onnx.ModelProto, opts: dict) -> onnx.ModelProto:
    """Run one real entry point on a copy; returns the resulting ModelProto (exceptions propagate)."""
    import onnxscript.optimizer as opt
    import onnxscript.rewriter as rw

    opts = dict(opts)
    as_ir = opts.pop("as_ir", False)
    mc = onnx.ModelProto()
    mc.CopyFrom(m)
    if api == "optimize":
        if as_ir:
            mi = ir.serde.deserialize_model(mc)
            r = opt.optimize(mi, **opts)
            return ir.serde.serialize_model(r)
        # optimize(ModelProto) returns a new proto and must leave its argument as it was (commit 0d5ec74)
        before = mc.SerializeToString(deterministic=True)
        r = opt.optimize(mc, **opts)
        if mc.SerializeToString(deterministic=True) != before:
            raise ArgumentMutated("optimize(ModelProto) modified the proto it was given")
        return r
    if api == "fold_constants":
        fo = {k: v for k, v in opts.items() if k in ("onnx_shape_inference", "input_size_limit", "output_size_limit")}
        if as_ir:
            mi = ir.serde.deserialize_model(mc)
            opt.fold_constants(mi, **fo)
            return ir.serde.serialize_model(mi)
        opt.fold_constants(mc, **fo)
        return mc
    if api == "rewrite":
        return rw.rewrite(mc)
    if api == "rewrite_custom":
        try:
            return with_deadline(20, lambda: rw.rewrite(mc, pattern_rewrite_rules=[_custom_rules()[opts["kind"]]]))
        except DidNotReturn as e:
            raise RuntimeError(f"rewrite(custom rule {opts['kind']}) did not return: {e}") from None
    if api == "remove_unused_nodes":
        opt.remove_unused_nodes(mc)
        return mc
    raise ValueError(api)


def three_feeds(m, rng):
    return [G.feeds_for(m, rng, v) for v in range(4)]


# ----------------------------------------------------------------------------- witnesses of findings (corpus)


def _model(nodes, ins, outs, inits=(), opset=18, irv=8):
    g = h.make_graph(nodes, "g", ins, outs, initializer=list(inits))
    return h.make_model(g, opset_imports=[h.make_opsetid("", opset)], ir_version=irv)


def vi(name, dt, shape):
    return h.make_tensor_value_info(name, dt, shape)


def w_d23_reshape():
    si = nh.from_array(np.array([2, 3], dtype=np.int64), "s")
    return _model([h.make_node("Reshape", ["x", "s"], ["y"])], [vi("x", TP.FLOAT, [2, 3]), vi("s", TP.INT64, [2])],
                  [vi("y", TP.FLOAT, [None, None])], [si]), {"s": np.array([3, 2], dtype=np.int64)}


def w_d23_if():
    ci = nh.from_array(np.array(True), "c")
    tb = h.make_graph([h.make_node("Neg", ["x"], ["t"])], "t", [], [vi("t", TP.FLOAT, [2])])
    eb = h.make_graph([h.make_node("Abs", ["x"], ["e"])], "e", [], [vi("e", TP.FLOAT, [2])])
    return _model([h.make_node("If", ["c"], ["y"], then_branch=tb, else_branch=eb)],
                  [vi("x", TP.FLOAT, [2]), vi("c", TP.BOOL, [])], [vi("y", TP.FLOAT, [2])], [ci]), {"c": np.array(False)}


def w_d23_expand():
    si = nh.from_array(np.array([2, 3], dtype=np.int64), "s")
    return _model([h.make_node("Expand", ["x", "s"], ["y"])], [vi("x", TP.FLOAT, [2, 3]), vi("s", TP.INT64, [2])],
                  [vi("y", TP.FLOAT, [None, None])], [si]), {"s": np.array([2, 2, 3], dtype=np.int64)}


def w_d24():
    return _model([h.make_node("SplitToSequence", ["x", "sp"], ["s"], axis=0), h.make_node("SequenceAt", ["s", "i"], ["y"])],
                  [vi("x", TP.FLOAT, [6, 2]), vi("sp", TP.INT64, [])], [vi("y", TP.FLOAT, [None, 2])],
                  [nh.from_array(np.array(0, dtype=np.int64), "i")]), None


def w_d25():
    return _model([h.make_node("SplitToSequence", ["x", "sp"], ["s"], axis=0), h.make_node("SequenceAt", ["s", "i"], ["y"])],
                  [vi("x", TP.FLOAT, [4, 3])], [vi("y", TP.FLOAT, [None, 3])],
                  [nh.from_array(np.array(0, dtype=np.int64), "i"), nh.from_array(np.array(2, dtype=np.int64), "sp")],
                  opset=17), None


def w_d17():
    idx = nh.from_array(np.array([[0], [1]], dtype=np.int64), "idx")
    return _model([h.make_node("ScatterND", ["d", "idx", "u"], ["y"])],
                  [vi("d", TP.FLOAT, ["N", 3]), vi("u", TP.FLOAT, ["N", 3])], [vi("y", TP.FLOAT, ["N", 3])], [idx]), None


def _f32(v, name):
    return nh.from_array(np.array(v, dtype=np.float32), name)


def w_d1():
    return _model([h.make_node("Clip", ["x", "lo", "hi"], ["c"]), h.make_node("Relu", ["c"], ["y"])],
                  [vi("x", TP.FLOAT, [3])], [vi("y", TP.FLOAT, [3])], [_f32(-5, "lo"), _f32(-1, "hi")]), None


def w_d2():
    return _model([h.make_node("Clip", ["x", "a", "b"], ["c"]), h.make_node("Clip", ["c", "c2", "d"], ["y"])],
                  [vi("x", TP.FLOAT, [3])], [vi("y", TP.FLOAT, [3])],
                  [_f32(0, "a"), _f32(1, "b"), _f32(5, "c2"), _f32(10, "d")]), None


def w_d3():
    return _model([h.make_node("Mul", ["x", "k"], ["y"])], [vi("x", TP.FLOAT, [3])], [vi("y", TP.FLOAT, [3])],
                  [_f32(1.000005, "k")]), None


def w_d4():
    return _model([h.make_node("Max", ["x", "lo"], ["m"]), h.make_node("Min", ["m", "hi"], ["y"])],
                  [vi("x", TP.FLOAT, [3])], [vi("y", TP.FLOAT, [None, None])], [_f32([[0]], "lo"), _f32([[1]], "hi")]), None


def w_d5():
    m5 = nh.from_array(np.array([-5], dtype=np.int64), "m5")
    return _model([h.make_node("Shape", ["x"], ["s"], start=0, end=1), h.make_node("Add", ["s", "m5"], ["a"]),
                   h.make_node("Abs", ["a"], ["y"])], [vi("x", TP.FLOAT, ["N", 3])], [vi("y", TP.INT64, [1])], [m5]), None


def w_d16b():
    return _model([h.make_node("MatMul", ["a", "b"], ["m"]), h.make_node("Add", ["m", "c"], ["y"])],
                  [vi("a", TP.FLOAT, [2, 3]), vi("b", TP.FLOAT, [3, 4]), vi("c", TP.FLOAT, [5, 2, 4])],
                  [vi("y", TP.FLOAT, [5, 2, 4])]), None


WITNESSES = {
    "W1-reshape": (w_d23_reshape, "C04-D1"), "W1-if": (w_d23_if, "C04-D1"), "W1-expand": (w_d23_expand, "C04-D1"),
    "C04-D2": (w_d24, "C04-D2"), "C04-D3": (w_d25, "C04-D3"), "D17": (w_d17, "D17"),
    "D1": (w_d1, "D1"), "D2": (w_d2, "D2"), "D3": (w_d3, "D3"), "D4": (w_d4, "D4"), "D5": (w_d5, "D5"), "D16b": (w_d16b, "D16b"),
}


def w_c03d1():
    return _model([h.make_node("SplitToSequence", ["x", "sp"], ["s"], axis=1, keepdims=0), h.make_node("SequenceAt", ["s", "i"], ["y"])],
                  [vi("x", TP.FLOAT, [2, 3])], [vi("y", TP.FLOAT, [2, 1])],
                  [nh.from_array(np.array(0, dtype=np.int64), "i"), nh.from_array(np.array([1, 1, 1], dtype=np.int64), "sp")]), None


WITNESSES["C03-D1"] = (w_c03d1, "C03-D1")


def pred_c03d1(meta) -> bool:
    """a SplitToSequence with a `split` input and keepdims=0 (the attribute is ignored by the operator, honoured by the evaluator)."""
    return "sts_keepdims0" in meta.get("tags", [])


def known_in_stream(meta, open_ids) -> str | None:
    """Finding id whose exact predicate the generated model lies in (None if none)."""
    if pred_c03d1(meta) and "C03-D1" in open_ids:
        return "C03-D1"
    if pred_c04d3(meta) and "C04-D3" in open_ids:
        return "C04-D3"
    return None


def w_c04d4():
    return _model([h.make_node("Dropout", ["x"], ["y", "m"]), h.make_node("Shape", ["x"], ["s"])],
                  [vi("x", TP.FLOAT, ["N", 3])], [vi("m", TP.BOOL, ["N", 3]), vi("s", TP.INT64, [2])]), None


WITNESSES["C04-D4"] = (w_c04d4, "C04-D4")


def classify_c04d4(m, api, opts, detail, rng, init_inputs) -> bool:
    """The failure is the CSE defect: a graph output of the result lacks its type or shape, and the very same call
    with onnx_ir's CommonSubexpressionEliminationPass disabled passes every C04 clause."""
    if api != "optimize":
        return False
    if ("Field 'type' of 'value_info' is required but missing" not in detail
            and "Field 'shape' of 'type' is required but missing" not in detail):
        return False
    try:
        m2 = apply_api(api, m, opts)
    except Exception:
        return False
    if all((o.type.HasField("tensor_type") and o.type.tensor_type.HasField("shape")) or o.type.HasField("sequence_type")
           for o in m2.graph.output):
        return False
    import onnx_ir.passes.common as cp

    cls = cp.CommonSubexpressionEliminationPass
    orig_call = cls.call
    cls.call = lambda self, model: ir.passes.PassResult(model, modified=False)
    try:
        return judge_validity(m, api, opts, rng, init_inputs) is None
    finally:
        cls.call = orig_call


def w_c04d5():
    c = nh.from_array(np.array([[1.0, 2.0]], dtype=np.float32), "c")
    return _model([h.make_node("SequenceConstruct", ["c", "c"], ["s"]),
                   h.make_node("ConcatFromSequence", ["s"], ["t"], axis=0, new_axis=1), h.make_node("Add", ["x", "t"], ["y"])],
                  [vi("x", TP.FLOAT, [2, 1, 2])], [vi("y", TP.FLOAT, [2, 1, 2])], [c]), None


WITNESSES["C04-D5"] = (w_c04d5, "C04-D5")


def w_c09n3():
    c1 = nh.from_array(np.array([-1], dtype=np.int64), "c1")
    c2 = nh.from_array(np.array([-1], dtype=np.int64), "c2")
    return _model([h.make_node("Reshape", ["x", "c1"], ["r1"]), h.make_node("Reshape", ["r1", "c2"], ["r2"]),
                   h.make_node("Flatten", ["r2"], ["out"], axis=1), h.make_node("Shape", ["r2"], ["s"])],
                  [vi("x", TP.FLOAT, [2, "B"])], [vi("out", TP.FLOAT, [None, None]), vi("s", TP.INT64, [None])], [c1, c2]), None


WITNESSES["C09-N3"] = (w_c09n3, "C09-N3")


def classify_c09n3(m, detail) -> bool:
    """Finding C09-N3 (owned by C09): Flatten fed by a Reshape; new shape initializers `<name>/shape` clash."""
    by_out = {o: n for n in m.graph.node for o in n.output}
    has = any(n.op_type == "Flatten" and n.input and by_out.get(n.input[0]) is not None and by_out[n.input[0]].op_type == "Reshape"
              for n in m.graph.node)
    return has and "/shape" in detail


def w_c04d6():
    w = nh.from_array(np.array([1.0, 2.0, 3.0], dtype=np.float32), "w")
    return _model([h.make_node("Shape", ["w"], ["s"]), h.make_node("Add", ["x", "x"], ["y"])],
                  [vi("x", TP.FLOAT, [3]), vi("w", TP.FLOAT, [3])], [vi("s", TP.INT64, [1]), vi("y", TP.FLOAT, [3])], [w]), None


WITNESSES["C04-D6"] = (w_c04d6, "C04-D6")


def w_c04d7():
    sh = nh.from_array(np.array([1], dtype=np.int64), "s")
    return _model([h.make_node("Expand", ["x", "s"], ["y"])], [vi("x", TP.FLOAT, [1]), vi("s", TP.INT64, [1])],
                  [vi("y", TP.FLOAT, [None])], [sh]), {"s": np.array([3], dtype=np.int64)}


WITNESSES["C04-D7"] = (w_c04d7, "C04-D7")


GUARDED_RULES = {"FuseSuccessiveClipRelu", "FuseSuccessiveReluClip", "FuseSuccessiveRelu", "FuseSuccessiveClip",
                 "FuseBatchNormIntoConv", "FuseBatchNormIntoConvTranspose", "FuseBatchNormIntoGemm"}


def classify_c04d7(m, api, opts, detail, rng, init_inputs, overrides=None) -> bool:
    """The override divergence is produced by the rewrite pass (a rule read an initializer-input's default):
    the very same call with RewritePass disabled passes every C04 clause."""
    if "with overridden initializer-inputs" not in detail:
        return False
    import onnxscript.rewriter as rw

    # the rule families that test `is_graph_input` on the clean tree are NOT part of this finding: if the divergence
    # disappears as soon as they alone are taken out, one of them baked a default in -> not C04-D7
    orig_rules = rw._DEFAULT_REWRITE_RULES
    rw._DEFAULT_REWRITE_RULES = tuple(r for r in orig_rules if getattr(r, "name", None) not in GUARDED_RULES)
    try:
        if judge_validity(m, api, opts, rng, init_inputs, overrides) is None:
            return False
    finally:
        rw._DEFAULT_REWRITE_RULES = orig_rules
    cls = rw.RewritePass
    orig_call = cls.call
    cls.call = lambda self, model: ir.passes.PassResult(model, modified=False)
    try:
        if api == "rewrite":
            return True
        return judge_validity(m, api, opts, rng, init_inputs, overrides) is None
    finally:
        cls.call = orig_call


# ----------------------------------------------------------------------------- round-3 findings: directed families


def m_old_opset_const(kind: str, opset: int, shape) -> onnx.ModelProto:
    """A statically shaped value whose Shape / Size / Gather-of-Shape the evaluators turn into a Constant node."""
    x = vi("x", TP.FLOAT, shape)
    if kind == "shape":
        nodes, out = [h.make_node("Shape", ["x"], ["y"])], vi("y", TP.INT64, [len(shape)])
        inits = []
    elif kind == "size":
        nodes, out = [h.make_node("Size", ["x"], ["y"])], vi("y", TP.INT64, [])
        inits = []
    else:  # gather of a shape with constant indices
        nodes = [h.make_node("Shape", ["x"], ["s"]), h.make_node("Gather", ["s", "i"], ["y"], axis=0)]
        out, inits = vi("y", TP.INT64, [1]), [nh.from_array(np.array([0], dtype=np.int64), "i")]
    nodes.append(h.make_node("Neg", ["x"], ["z"]))
    return _model(nodes, [x], [out, vi("z", TP.FLOAT, shape)], inits, opset=opset, irv=7 if opset < 13 else 8)


def pred_c04d8(m: onnx.ModelProto, detail: str) -> bool:
    """default-domain opset below 12 and the checker rejects a `value_int(s)` attribute of a Constant node of the result."""
    v = next((o.version for o in m.opset_import if o.domain in ("", "ai.onnx")), 99)
    return v < 12 and "Unrecognized attribute: value_int" in detail and "Constant" in detail


def m_function_if(cond: bool, owner: str, rng) -> onnx.ModelProto:
    """A model-local function whose body has If(<constant condition>) and the taken/other branch owns an initializer."""
    w = nh.from_array(np.array([1.0, 2.0, 3.0], dtype=np.float32), "w")
    then_g = h.make_graph([h.make_node("Add", ["a", "w"] if owner in ("then", "both") else ["a", "a"], ["t"])], "then", [],
                          [vi("t", TP.FLOAT, [3])], initializer=[w] if owner in ("then", "both") else [])
    w2 = nh.from_array(np.array([0.5, 0.25, 2.0], dtype=np.float32), "v")
    else_g = h.make_graph([h.make_node("Mul", ["a", "v"] if owner in ("else", "both") else ["a", "a"], ["e"])], "else", [],
                          [vi("e", TP.FLOAT, [3])], initializer=[w2] if owner in ("else", "both") else [])
    cnode = h.make_node("Constant", [], ["c"], value=nh.from_array(np.array(cond), "ct"))
    ifn = h.make_node("If", ["c"], ["r"], then_branch=then_g, else_branch=else_g)
    f = h.make_function("local", "F", ["a"], ["r"], [cnode, ifn], opset_imports=[h.make_opsetid("", 18)])
    g = h.make_graph([h.make_node("F", ["x"], ["y"], domain="local")], "g", [vi("x", TP.FLOAT, [3])], [vi("y", TP.FLOAT, [3])])
    return h.make_model(g, opset_imports=[h.make_opsetid("", 18), h.make_opsetid("local", 1)], functions=[f], ir_version=8)


def pred_c04d9(m: onnx.ModelProto, api: str, opts: dict, detail: str) -> bool:
    """functions are not inlined first (fold_constants, or optimize(inline=False)); a function body has an If whose
    condition is a Constant and a branch owning an initializer; the result references that initializer's name."""
    if api == "optimize" and opts.get("inline", True):
        return False
    for f in m.functions:
        consts = {n.output[0] for n in f.node if n.op_type == "Constant"}
        for n in f.node:
            if n.op_type == "If" and n.input and n.input[0] in consts:
                names = [t.name for a in n.attribute if a.type == onnx.AttributeProto.GRAPH for t in a.g.initializer]
                if any(nm in detail for nm in names):
                    return True
    return False


def m_identity_declared(variant: int) -> onnx.ModelProto:
    """`y = Identity(x)` with `x` declared with a symbolic dim and `y` with a concrete one."""
    x = vi("x", TP.FLOAT, ["N", 2] if variant % 2 else ["N"])
    conc = [3, 2] if variant % 2 else [3]
    if variant < 2:  # the Identity output is the graph output
        return _model([h.make_node("Identity", ["x"], ["y"])], [x], [vi("y", TP.FLOAT, conc)])
    m = _model([h.make_node("Identity", ["x"], ["y"]), h.make_node("Neg", ["y"], ["z"])], [x], [vi("z", TP.FLOAT, conc)])
    m.graph.value_info.append(vi("y", TP.FLOAT, conc))
    return m


def pred_c04d10(m: onnx.ModelProto, detail: str) -> bool:
    """the declared shape of a graph INPUT changed, and that input feeds an Identity node directly."""
    ins = {i.name for i in m.graph.input}
    fed = {n.input[0] for n in m.graph.node if n.op_type == "Identity" and n.input}
    return detail.split(":", 1)[-1].strip().startswith("declared shape of") and any(f" {x} changed" in detail for x in ins & fed)


def m_sibling_ifs(variant: int) -> onnx.ModelProto:
    """Sibling Ifs with constant conditions whose taken branches own initializers with colliding names: the first owns
    `w`, the second `w` and `w_1` (the name the uniquifier would pick), in either order of declaration."""
    def arr(k):
        return np.array([1.0 + k, 2.0, 3.0 - k], dtype=np.float32)

    cond = variant % 2 == 0
    def branch(name, out, inits):
        nodes, cur = [], "x"
        for k, nm in enumerate(inits):
            nodes.append(h.make_node("Add" if k % 2 == 0 else "Mul", [cur, nm], [f"{out}_{k}"]))
            cur = f"{out}_{k}"
        nodes.append(h.make_node("Identity", [cur], [out]))
        return h.make_graph(nodes, name, [], [vi(out, TP.FLOAT, [3])],
                            initializer=[nh.from_array(arr(k + len(name)), nm) for k, nm in enumerate(inits)])

    def other(name, out):
        return h.make_graph([h.make_node("Neg", ["x"], [out])], name, [], [vi(out, TP.FLOAT, [3])])

    second = ["w", "w_1"] if variant < 2 else ["w_1", "w"]
    c = h.make_node("Constant", [], ["c"], value=nh.from_array(np.array(cond), "ct"))
    t1, e1 = branch("t1", "a1", ["w"]), other("e1", "b1")
    t2, e2 = branch("t2", "a2", second), other("e2", "b2")
    if not cond:
        t1, e1, t2, e2 = e1, t1, e2, t2
    nodes = [c, h.make_node("If", ["c"], ["y1"], then_branch=t1, else_branch=e1),
             h.make_node("If", ["c"], ["y2"], then_branch=t2, else_branch=e2), h.make_node("Add", ["y1", "y2"], ["y"])]
    return _model(nodes, [vi("x", TP.FLOAT, [3])], [vi("y", TP.FLOAT, [3])])


def directed_tie_models():
    """Models appended to the fold tie: sibling constant-condition Ifs whose branches own initializers with colliding
    names (the `name_k` uniquifier of `_move_initializers_to_graph`)."""
    return [(m_sibling_ifs(v), {"tags": ["sibling_ifs"], "init_inputs": [], "overrides": {}, "opset": 18, "syms": {}})
            for v in range(4)]


def round3_stream(run: core.Run, stats: Counter, open_ids):
    """Directed families for C04-D8 / C04-D9 / C04-D10: every member is a checker-valid model; a failure outside the
    exact predicate of an open finding is a violation."""
    failures = []
    rng = run.rng
    fam = []
    for kind in ("shape", "size", "gather"):
        for opset in (9, 10, 11, 12, 13, 18):
            if kind == "size" and opset < 1:
                continue
            fam.append(("old_opset_const", m_old_opset_const(kind, opset, rng.choice([[2, 3], [4], [1, 2, 2]])),
                        [("fold_constants", {}), ("optimize", {})]))
    for cond in (True, False):
        for owner in ("then", "else", "both", "none"):
            fam.append(("function_if", m_function_if(cond, owner, rng),
                        [("fold_constants", {}), ("optimize", {"inline": False}), ("optimize", {})]))
    for v in range(4):
        fam.append(("identity_declared", m_identity_declared(v), [("fold_constants", {}), ("optimize", {})]))
    for v in range(4):
        fam.append(("sibling_ifs", m_sibling_ifs(v), [("fold_constants", {}), ("optimize", {}), ("optimize", {"num_iterations": 1})]))
    for name, m, combos in fam:
        try:
            onnx.checker.check_model(m, full_check=True)
        except Exception as e:
            raise core.Infra(f"round-3 family {name}: host model invalid: {str(e)[:200]}")
        for api, opts in combos:
            stats[f"round3_{name}"] += 1
            d = judge_validity(m, api, opts, rng, [])
            if not d and name in ("sibling_ifs", "function_if"):
                feeds = [{i.name: (np.arange(3, dtype=np.float32) - 1 + k) for i in m.graph.input} for k in range(2)]
                sd = judge_semantics(m, api, opts, feeds)
                if sd:
                    d = f"{api}({opts}) changes what the model computes: {sd}"
            if not d:
                continue
            fid = None
            if "C04-D8" in open_ids and pred_c04d8(m, d):
                fid = "C04-D8"
            elif "C04-D9" in open_ids and pred_c04d9(m, api, opts, d):
                fid = "C04-D9"
            elif "C04-D10" in open_ids and pred_c04d10(m, d):
                fid = "C04-D10"
            if fid:
                stats[f"known_{fid}_in_stream"] += 1
                continue
            failures.append(({"family": name, "model_b64": b64(m), "api": api, "opts": opts}, d))
    return failures


def w_c04d8():
    return m_old_opset_const("shape", 11, [2, 3]), None


def w_c04d9():
    return m_function_if(True, "then", None), None


def w_c04d10():
    return m_identity_declared(2), None


WITNESSES["C04-D8"] = (w_c04d8, "C04-D8")
WITNESSES["C04-D9"] = (w_c04d9, "C04-D9")
WITNESSES["C04-D10"] = (w_c04d10, "C04-D10")


# ----------------------------------------------------------------------------- C04: rules that introduce a new domain


def _custom_rules():
    from onnxscript.rewriter import pattern

    def mm(op, a, b):
        return op.MatMul(a, b)

    def fused_mm(op, a, b):
        return op.FusedMatMul(a, b, _domain="com.microsoft")

    def gelu(op, x):
        return op.Gelu(x)

    def ms_gelu(op, x):
        return op.Gelu(x, _domain="com.microsoft")

    def ident(op, x):
        return op.Identity(x)

    def passthrough(op, x):
        return x  # the replacement IS the matched input (an outer-scope value when the match sits in a subgraph)

    return {"matmul": pattern.RewriteRule(mm, fused_mm), "gelu": pattern.RewriteRule(gelu, ms_gelu),
            "ident": pattern.RewriteRule(ident, passthrough)}


def _passthrough_model(where: str, as_output: bool):
    """`Identity(v)` inside an If branch (or the main graph) with `v` defined in the enclosing graph; `as_output`: the
    Identity output is the branch's output (otherwise it feeds a Neg)."""
    x, cond = vi("a", TP.FLOAT, [2, 3]), vi("c", TP.BOOL, [])
    inner = [h.make_node("Identity", ["v"], ["t1"])] + ([] if as_output else [h.make_node("Neg", ["t1"], ["t2"])])
    out = "t1" if as_output else "t2"
    if where == "main":
        nodes = [h.make_node("Relu", ["a"], ["v"])] + inner + [h.make_node("Abs", [out], ["y"])]
    else:
        tb = h.make_graph(inner, "tb", [], [vi(out, TP.FLOAT, [2, 3])])
        eb = h.make_graph([h.make_node("Neg", ["v"], ["e1"])], "eb", [], [vi("e1", TP.FLOAT, [2, 3])])
        if where == "else":
            tb, eb = eb, tb
        nodes = [h.make_node("Relu", ["a"], ["v"]), h.make_node("If", ["c"], ["y"], then_branch=tb, else_branch=eb)]
    g = h.make_graph(nodes, "g", [x, vi("b", TP.FLOAT, [3, 3]), cond], [vi("y", TP.FLOAT, [2, 3])])
    return h.make_model(g, opset_imports=[h.make_opsetid("", 20)], ir_version=9)


def pred_c04d11(desc: dict) -> bool:
    """rewrite() with a USER rule whose replacement is the matched input itself, the match sitting in an If branch whose
    output is the matched node's output while the input is defined in the enclosing graph."""
    return desc.get("kind") == "ident" and desc.get("where") in ("then", "else") and bool(desc.get("as_output"))


def _domain_model(kind: str, where: str, also_main: bool, rng):
    """A model whose only match of rule `kind` sits at `where` (main | then | else | nested | function)."""
    a, b_ = vi("a", TP.FLOAT, [2, 3]), vi("b", TP.FLOAT, [3, 3])
    cond = vi("c", TP.BOOL, [])

    def target(x, y, out):
        if kind == "matmul":
            return h.make_node("MatMul", [x, y], [out])
        return h.make_node("Gelu", [x], [out])

    def body(name, out, inner=None):
        nodes = [target("a", "b", out + "_t"), h.make_node("Neg", [out + "_t"], [out])] if inner is None else inner
        return h.make_graph(nodes, name, [], [vi(out, TP.FLOAT, [2, 3])])

    plain = lambda name, out: h.make_graph([h.make_node("Abs", ["a"], [out])], name, [], [vi(out, TP.FLOAT, [2, 3])])  # noqa: E731
    nodes, funcs = [], []
    if also_main:
        nodes.append(target("a", "b", "m0"))
    if where == "main":
        nodes += [target("a", "b", "m1"), h.make_node("Neg", ["m1"], ["y"])]
    elif where in ("then", "else"):
        tb = body("tb", "t1") if where == "then" else plain("tb", "t1")
        eb = body("eb", "e1") if where == "else" else plain("eb", "e1")
        nodes.append(h.make_node("If", ["c"], ["y"], then_branch=tb, else_branch=eb))
    elif where == "nested":
        inner = h.make_node("If", ["c"], ["n1"], then_branch=body("itb", "it1"), else_branch=plain("ieb", "ie1"))
        tb = h.make_graph([inner, h.make_node("Neg", ["n1"], ["t1"])], "tb", [], [vi("t1", TP.FLOAT, [2, 3])])
        nodes.append(h.make_node("If", ["c"], ["y"], then_branch=tb, else_branch=plain("eb", "e1")))
    elif where == "function":
        f = h.make_function("local", "F", ["p", "q"], ["r"], [target("p", "q", "r")], [h.make_opsetid("", 20)])
        funcs.append(f)
        nodes += [h.make_node("F", ["a", "b"], ["f1"], domain="local"), h.make_node("Neg", ["f1"], ["y"])]
    outs = [vi("y", TP.FLOAT, [2, 3])] + ([vi("m0", TP.FLOAT, [2, 3])] if also_main else [])
    g = h.make_graph(nodes, "g", [a, b_, cond], outs)
    imports = [h.make_opsetid("", 20)] + ([h.make_opsetid("local", 1)] if funcs else [])
    m = h.make_model(g, opset_imports=imports, ir_version=9, functions=funcs)
    return m


class DidNotReturn(BaseException):
    """not an Exception: a blanket `except Exception` inside the code under test must not swallow the watchdog"""


def with_deadline(seconds: float, fn):
    """Run `fn()` in this (main) thread; raise DidNotReturn when it has not returned after `seconds` (SIGALRM).  A rewrite that
    does not terminate is a behaviour of the code under test (reported as a failure of the case), not harness trouble."""
    import signal

    def on_alarm(signum, frame):
        raise DidNotReturn(f"no result after {seconds:g} s")

    old = signal.signal(signal.SIGALRM, on_alarm)
    signal.setitimer(signal.ITIMER_REAL, seconds)
    try:
        return fn()
    finally:
        signal.setitimer(signal.ITIMER_REAL, 0)
        signal.signal(signal.SIGALRM, old)


def custom_rule_stream(run: core.Run, stats: Counter):
    """C04 clause "every domain used has an opset import": rewrite(model, [rule introducing com.microsoft]) on models whose
    only match is in the main graph / an If branch / a nested If / a model-local function.  Returns failures."""
    import onnxscript.rewriter as rw

    rules = _custom_rules()
    failures = []
    for kind in ("matmul", "gelu"):
        for where in ("main", "then", "else", "nested", "function"):
            for also_main in (False, True):
                m = _domain_model(kind, where, also_main, run.rng)
                try:
                    onnx.checker.check_model(m, full_check=True)
                except Exception as e:
                    raise core.Infra(f"custom-rule host model invalid: {kind}/{where}: {str(e)[:200]}")
                stats["custom_rule_models"] += 1
                desc = {"kind": kind, "where": where, "also_main": also_main, "model_b64": b64(m), "api": "rewrite_custom", "opts": {"kind": kind}}
                try:
                    mc = onnx.ModelProto()
                    mc.CopyFrom(m)
                    m2 = with_deadline(20, lambda: rw.rewrite(mc, pattern_rewrite_rules=[rules[kind]]))
                except DidNotReturn as e:
                    failures.append((desc, f"rewrite(custom rule {kind}, match in {where}) did not return: {e}"))
                    continue
                except Exception as e:
                    failures.append((desc, f"rewrite(custom rule {kind}) raised {type(e).__name__}: {str(e)[:160]}"))
                    continue
                used = {n.domain for n in _all_nodes(m2.graph)} | {n.domain for f in m2.functions for n in f.node}
                if "com.microsoft" in used:
                    stats["custom_rule_fired"] += 1
                d = None
                try:
                    onnx.checker.check_model(m2)
                except Exception as e:
                    d = f"checker rejects the result of rewrite(custom rule {kind}, match in {where}): {str(e).splitlines()[0][:200]}"
                if d is None:
                    w = L.scope_walk(m2)
                    if w:
                        d = f"walker on the result of rewrite(custom rule {kind}, match in {where}): {w}"
                if d is None:
                    feeds = [{"a": np.arange(6, dtype=np.float32).reshape(2, 3) - 2, "b": np.eye(3, dtype=np.float32) * 2,
                              "c": np.array(cv)} for cv in (True, False)]
                    sd = L.semantic_diff(m, m2, feeds)
                    if sd:
                        d = f"rewrite(custom rule {kind}, match in {where}): {sd}"
                if d:
                    failures.append((desc, d))
    if stats["custom_rule_fired"] < 10:
        raise core.Infra("custom-rule stream degenerated: the rules hardly fired")
    # a user rule whose replacement is the matched input (C04-D11, rewriter's replace_nodes_and_values)
    for where in ("main", "then", "else"):
        for as_output in (False, True):
            m = _passthrough_model(where, as_output)
            try:
                onnx.checker.check_model(m, full_check=True)
            except Exception as e:
                raise core.Infra(f"pass-through host model invalid: {where}: {str(e)[:200]}")
            stats["custom_rule_models"] += 1
            desc = {"kind": "ident", "where": where, "as_output": as_output, "model_b64": b64(m), "api": "rewrite_custom",
                    "opts": {"kind": "ident"}}
            d = None
            try:
                mc = onnx.ModelProto()
                mc.CopyFrom(m)
                m2 = with_deadline(6, lambda: rw.rewrite(mc, pattern_rewrite_rules=[rules["ident"]]))  # returns in < 0.1 s when it returns
            except DidNotReturn as e:
                d = f"rewrite(custom rule ident, match in {where}) did not return: {e}"
                m2 = None
            except Exception as e:
                d = f"rewrite(custom rule ident) raised {type(e).__name__}: {str(e)[:160]}"
                m2 = None
            if m2 is not None:
                try:
                    onnx.checker.check_model(m2, full_check=True)
                except Exception as e:
                    d = f"checker rejects the result of rewrite(custom rule ident, match in {where}): {str(e).splitlines()[0][:200]}"
                if d is None:
                    w = L.scope_walk(m2)
                    if w:
                        d = f"walker on the result of rewrite(custom rule ident, match in {where}): {w}"
                if d is None:
                    feeds = [{"a": np.arange(6, dtype=np.float32).reshape(2, 3) - 2, "b": np.eye(3, dtype=np.float32) * 2,
                              "c": np.array(cv)} for cv in (True, False)]
                    sd = L.semantic_diff(m, m2, feeds)
                    if sd:
                        d = f"rewrite(custom rule ident, match in {where}): {sd}"
            if d:
                failures.append((desc, d))
    return failures


def _all_nodes(g):
    for n in g.node:
        yield n
        for a in n.attribute:
            if a.type == onnx.AttributeProto.GRAPH:
                yield from _all_nodes(a.g)
            elif a.type == onnx.AttributeProto.GRAPHS:
                for sg in a.graphs:
                    yield from _all_nodes(sg)


def load_corpus(name: str):
    p = core.VERIF / "harness" / name
    return [json.loads(l) for l in p.read_text().splitlines() if l.strip()] if p.exists() else []


# ----------------------------------------------------------------------------- C03 / C04 judgements on one model


def judge_semantics(m, api, opts, feeds) -> str | None:
    """C03: None, or what differs between run(M) and run(api(M, opts))."""
    try:
        m2 = apply_api(api, m, opts)
    except Exception as e:
        return None  # totality is C04's clause
    return L.semantic_diff(m, m2, feeds)


def compatible_sig(s0, s1) -> str | None:
    (i0, o0), (i1, o1) = s0, s1
    if [(n, t) for n, t, _ in i0] != [(n, t) for n, t, _ in i1]:
        return f"graph inputs changed: {[(n, t) for n, t, _ in i0]} -> {[(n, t) for n, t, _ in i1]}"
    if [(n, t) for n, t, _ in o0] != [(n, t) for n, t, _ in o1]:
        return f"graph outputs changed: {[(n, t) for n, t, _ in o0]} -> {[(n, t) for n, t, _ in o1]}"
    for (n, _, d0), (_, _, d1) in zip(i0 + o0, i1 + o1):
        if d0 is None:
            continue
        if d1 is None or len(d0) != len(d1):
            return f"declared shape of {n} changed: {d0} -> {d1}"
        for a, b in zip(d0, d1):
            if a is not None and a != b:
                return f"declared shape of {n} changed: {d0} -> {d1}"
    return None


def judge_validity(m, api, opts, rng, init_inputs, overrides=None) -> str | None:
    """C04: None, or the first clause that fails."""
    try:
        m2 = apply_api(api, m, opts)
    except Exception as e:
        return f"{api} raised {type(e).__name__}: {str(e)[:160]}"
    try:
        onnx.checker.check_model(m2, full_check=True)
    except Exception as e:
        return f"checker rejects the result of {api}: {str(e)[:200]}"
    w = L.scope_walk(m2)
    if w:
        return f"scope/topology walker on the result of {api}: {w}"
    d = compatible_sig(L.signature(m), L.signature(m2))
    if d:
        return f"{api}: {d}"
    names1 = {t.name for t in m2.graph.initializer}
    for n in init_inputs:
        if n not in names1:
            return f"{api}: initializer-input {n!r} lost its default (initializer removed, input kept)"
    if init_inputs:
        by = {t.name: nh.to_array(t) for t in m.graph.initializer}
        ov = {n: (overrides[n] if overrides and n in overrides else
                  np.asarray(by[n] * 2 + 1, dtype=by[n].dtype).reshape(by[n].shape)) for n in init_inputs}
        feeds = [G.feeds_for(m, rng, v, override=ov) for v in range(2)]
        d = L.semantic_diff(m, m2, feeds, must_run=overrides is not None)
        if d:
            return f"{api}: with overridden initializer-inputs {sorted(ov)}: {d}"
        # … and with the defaults left in place
        d = L.semantic_diff(m, m2, [G.feeds_for(m, rng, v) for v in range(2)])
        if d:
            return f"{api}: with the default initializer-inputs: {d}"
    return None
