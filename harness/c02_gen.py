"""C02 — program classes of C02's own (the shared generator is harness/c01_gen.py, owned by C01).

`after_block_subscript_program`: ORDER-dependent state around control-flow blocks.  A subscript on the Slice path
inside an `if` branch / `for` / `while` body (also one block deeper), FOLLOWED by a subscript in the enclosing graph
that needs the same integers (axis 0, step 1, or the very same subscript).  Anything the converter keeps per graph or
per function (constant caches, name tables, import tables) and does not restore when a block is closed shows here: the
enclosing graph would use a value defined inside the closed subgraph.  The sibling stream of c01_gen has the blocks
*after* the top-level subscript and nothing behind them; this one has the history block -> enclosing scope.
"""
from __future__ import annotations

FORMS = ["[0:2]", "[1:3]", "[0:2, 1]", "[1, 0:2]", "[::2]", "[0:1, 0:2]", "[2:0:-1]", "[1:, 0]", "[1:, -1]", "[0]", "[-1, 0]"]


def after_block_subscript_program(rng, name: str) -> dict:
    f = lambda: rng.choice(FORMS)
    red = lambda e: f"op.ReduceSum({e}, keepdims=0)"
    body = ["acc = op.ReduceSum(A, keepdims=0)"]
    feats = {"subscript", "subscript-after-block"}
    if rng.random() < 0.3:
        body.append(f"acc = (acc + {red('A' + f())})")

    def block(b: str, depth: int) -> list[str]:
        """one block whose body has a subscript; optionally a nested block followed by a subscript of the body"""
        kind = rng.choice(["for", "for", "while", "if"])
        feats.add("after-block-" + kind)
        shared = f()
        base = rng.choice(["A", "B"])
        inner = [f"acc = (acc + {red(base + shared)})"]
        if depth == 0 and rng.random() < 0.4:
            sub, sub_shared = block(b + "n", 1)
            inner = (inner if rng.random() < 0.5 else []) + sub + \
                [f"acc = (acc + {red(rng.choice(['A', 'B']) + (sub_shared if rng.random() < 0.6 else f()))})"]
            feats.add("subscript-after-nested-block")
        ind = ["    " + s for s in inner]
        if kind == "for":
            out = [f"for i{b} in range({rng.choice(['2', 'n'])}):"] + ind
        elif kind == "while":
            c, g = f"cnt{b}", f"go{b}"
            out = [f"{c} = op.Constant(value_int=0)", f"{g} = ({c} < n)", f"while {g}:"] + ind + \
                [f"    {c} = ({c} + 1)", f"    {g} = ({c} < n)"]
        else:
            out = [f"if (acc > {rng.choice(['0.0', '3.0'])}):"] + ind + ["else:"] + \
                ([f"    acc = (acc - {red(base + f())})"] if rng.random() < 0.6 else ["    acc = (acc - 1.0)"])
        return out, shared

    for b in range(rng.randint(1, 2)):
        blk, shared = block(str(b), 0)
        body += blk
        body.append(f"acc = (acc + {red(rng.choice(['A', 'B']) + (shared if rng.random() < 0.6 else f()))})")
    body.append("return acc")
    src = "@script(default_opset=op)\n" + f"def {name}(A: FLOAT[4,4], B: FLOAT[4,4], n: INT64):\n" + \
        "".join(f"    {ln}\n" for ln in body)
    return {"name": name, "shape": [4, 4], "params": [["A", "T"], ["B", "T"], ["n", "I"]], "attrs": [],
            "rets": [["acc", "S"]], "src": src, "features": sorted(feats)}


def typed_duplicate_return_program(rng, name: str) -> dict:
    """Conjunction class: the function DECLARES its return types and returns one computed value at two (or three)
    positions — alone, next to a returned input, next to another value, computed at top level or carried out of a
    branch / loop.  The copy the converter inserts for the repeated output is then the value that must carry the
    declared type (checked on `to_model_proto()` with nothing overridden)."""
    feats = {"typed-duplicate-return"}
    body = []
    r = rng.random()
    if r < 0.4:
        body.append(f"y = op.{rng.choice(['Relu', 'Neg', 'Abs'])}(A)")
    elif r < 0.7:
        body += ["if c:", "    y = op.Neg(A)", "else:", "    y = (A + B)"]
        feats.add("typed-duplicate-return-from-branch")
    else:
        body += ["y = op.Identity(A)", "for i in range(2):", "    y = (y + B)"]
        feats.add("typed-duplicate-return-from-loop")
    rets = [["y", "T"], ["y", "T"]]
    r = rng.random()
    if r < 0.25:
        rets.insert(rng.randrange(3), ["A", "T"])
        feats.add("typed-duplicate-return-with-input")
    elif r < 0.5:
        body.append("z = op.ReduceSum(y, keepdims=0)")
        rets.insert(rng.randrange(3), ["z", "S"])
    elif r < 0.65:
        rets.append(["y", "T"])
    ann = ["FLOAT[3]" if t == "T" else "FLOAT" for _, t in rets]
    src = "@script(default_opset=op)\n" + \
        f"def {name}(A: FLOAT[3], B: FLOAT[3], c: BOOL) -> Tuple[{', '.join(ann)}]:\n" + \
        "".join(f"    {ln}\n" for ln in body) + "    return " + ", ".join(v for v, _ in rets) + "\n"
    return {"name": name, "shape": [3], "params": [["A", "T"], ["B", "T"], ["c", "B"]], "attrs": [],
            "rets": rets, "src": src, "features": sorted(feats)}


_D2_SRC = """@script(default_opset=op)
def {name}(X: FLOAT[4]) -> FLOAT[4]:
    zero = op.Constant(value_float=0.0)
    @graph()
    def Sum{sig}:
        s = op.Add(acc, nxt)
        return s, op.Identity(s)
    fin, cum = op.Scan(zero, X, body=Sum, num_scan_inputs=1)
    return op.Add(cum, zero)
"""


def regression_programs() -> list[dict]:
    """Must-pass regression cases of fixed findings.  C02-D2 (31e0813): a function that declares its return types and
    contains a nested function definition — without and with annotations of its own (the second one checks that the
    enclosing function's types are *restored*, not merely kept when the nested function declares none)."""
    out = []
    for name, sig in [("rg_c02d2_plain", "(acc, nxt)"),
                      ("rg_c02d2_annotated", "(acc: FLOAT, nxt: FLOAT) -> Tuple[FLOAT, FLOAT]")]:
        out.append({"name": name, "shape": [4], "params": [["X", "T"]], "attrs": [], "rets": [["op.Add(cum, zero)", "T"]],
                    "src": _D2_SRC.format(name=name, sig=sig), "features": ["regression-C02-D2", "nested-graph-function"]})
    return out
