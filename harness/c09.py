"""C09 — shape-based simplifications hold for every runtime binding of symbolic dims.

Proof obligations: lean/OV/Props/C09.lean (model lean/OV/Model/C09Shape.lean).
Tie (a): the real shape helpers / partial evaluators / shape-driven rules of /repo are called directly on
generated symbolic shapes and compared with the compiled Lean model (harness/c09_helpers.py).
Tie (b) + oracle: generated whole models with symbolic dims are optimized ONCE by the real `optimize()`
(and by the real expand-before-binary-op rule set), then original and optimized are run on onnxruntime
(optimisations off) at MANY bindings of the symbols to {0,1,2,3,7}: same outputs, same accept/reject.
"""
from __future__ import annotations

import base64
import itertools
import json
import os
from collections import Counter

import numpy as np

from harness import c09_helpers as H
from harness import c09_lib as L
from harness import c09_models as M
from harness import core

PROP_MODULES = ["OV.Props.C09"]
CORPUS = core.VERIF / "harness" / "corpus_c09.jsonl"

FP = {
    "onnxscript/optimizer/_constant_folding.py": [
        "_same_shape", "_merge_shapes", "add", "abs", "gather", "reshape", "squeeze", "shape", "size",
        "concat", "expand", "identity", "_propagate_shape_value", "OptimizerState.get_shape_value",
    ],
    "onnxscript/rewriter/_ir_utils.py": ["same_shape", "same_dim", "get_dim"],
    "onnxscript/rewriter/rules/common/_remove_expand_before_binary_op.py": [
        "_compute_broadcast_dim", "_compute_broadcast_shape", "_check_dims_sufficient", "_check_expand_removable",
        "_ExpandFirstInput.pattern", "_ExpandFirstInput.check", "_ExpandFirstInput.rewrite",
        "_ExpandSecondInput.pattern", "_ExpandSecondInput.check", "_ExpandSecondInput.rewrite", "_make_expand_before_binary_op_rules",
    ],
    "onnxscript/rewriter/rules/common/_redundant_scatter_nd.py": ["ScatterAllDynamic.pattern", "ScatterAllDynamic.check", "ScatterAllDynamic.rewrite",
                                                                    "ScatterAllStatic.pattern", "ScatterAllStatic.check", "ScatterAllStatic.rewrite"],
    "onnxscript/rewriter/rules/common/_collapse_slices.py": ["_check_if_redundant_slice", "_same_shape", "_identity_to_itself", "_potential_redundant_slice"],
    "onnxscript/rewriter/_matcher.py": ["SimplePatternMatcher._match_constant"],
    "onnxscript/rewriter/rules/common/_no_op.py": ["mul_by_1", "add_0", "sub_0", "div_by_1", "identity"],
    "onnxscript/rewriter/rules/common/_materialize_reshape_shape.py": [
        "MaterializeReshapeShape.check", "MaterializeReshapeShape.rewrite",
    ],
    "onnxscript/rewriter/rules/common/_basic_rules.py": [
        "Flatten2Reshape.check", "Flatten2Reshape.rewrite", "ExpandIdentity.check", "SqueezeReshape.pattern", "SqueezeReshape.check",
        "SqueezeReshape.rewrite", "ReshapeReshape.pattern", "ReshapeReshape.check", "ReshapeReshape.rewrite",
    ],
}

# --------------------------------------------------------------------------- semantic oracles (search)

VALS = [0, 1, 2, 3, 7]


def _bindings_for(shapes, limit=200):
    """All bindings of the named symbols (≤3 distinct) and independent values for unnamed occurrences."""
    names = sorted({d for s in shapes if s for d in s if isinstance(d, str)})
    nun = sum(1 for s in shapes if s for d in s if d is None)
    space = itertools.product(VALS, repeat=len(names) + nun)
    for k, vals in enumerate(space):
        if k >= limit:
            return
        yield dict(zip(names, vals[: len(names)])), list(vals[len(names):])


def _conc(s, sig, unn_iter):
    out = []
    for d in s:
        if d is None:
            out.append(next(unn_iter))
        elif isinstance(d, str):
            out.append(sig[d])
        else:
            out.append(d)
    return out


def np_bcast(a, b):
    try:
        return list(np.broadcast_shapes(tuple(a), tuple(b)))
    except ValueError:
        return None


def search_helper_counterexample(kind, args, real_answer):
    """Given the real code's answer on a helper case, look for a binding that makes it semantically
    wrong (independent numpy oracle).  Returns a dict describing the failing input, or None."""
    try:
        if kind in ("sameShapeFold", "sameShape") and real_answer == "T":
            a, b = args
            for sig, unn in _bindings_for([a, b]):
                it = iter(unn)
                if _conc(a, sig, it) != _conc(b, sig, it):
                    return {"binding": sig, "unnamed": unn, "why": "shapes reported equal differ under this binding"}
        if kind == "sameDim" and real_answer == "T":
            a, b = args
            for sig, unn in _bindings_for([[a], [b]]):
                it = iter(unn)
                if _conc([a], sig, it) != _conc([b], sig, it):
                    return {"binding": sig, "unnamed": unn, "why": "dims reported equal differ"}
        if kind == "bcastShape" and real_answer != "N":
            x, y = args
            c = dec_shape(real_answer)
            for sig, unn in _bindings_for([x, y]):
                it = iter(unn)
                lx, ly = _conc(x, sig, it), _conc(y, sig, it)
                lo = np_bcast(lx, ly)
                if lo is not None and not admits(c, sig, lo):
                    return {"binding": sig, "unnamed": unn, "why": f"symbolic broadcast {c} is not truthful for {lo}"}
        if kind == "evShape" and real_answer not in ("none",):
            shp, st, en = args
            if shp is not None:
                symtxt, consttxt = real_answer.split(" ")
                got = dec_shape(symtxt)
                want = M.spec_slice(shp, st, en)
                if got != want:
                    for sig, unn in _bindings_for([shp, got or []], limit=50):
                        itr = iter(unn)
                        lx = _conc(shp, sig, itr)
                        true_out = M.spec_slice(lx, st, en)
                        if consttxt != "N":
                            c = [] if consttxt == "-" else [int(v) for v in consttxt.split(",")]
                            if c != true_out:
                                return {"binding": sig, "unnamed": unn, "input_shape": lx,
                                        "why": f"Shape<start={st},end={en}> is replaced by the constant {c}; the operator returns {true_out}"}
                        gl = [sig[d] if isinstance(d, str) else (2 if d is None else d) for d in (got or [])]
                        ex = np_bcast(gl, true_out)
                        if ex is not None and ex != gl:
                            return {"binding": sig, "unnamed": unn, "input_shape": lx,
                                    "why": f"recorded shape value {got} != Shape<start={st},end={en}> = {want}: Expand(y:{gl}, Shape(x)) is folded to "
                                           f"Identity(y) of shape {gl}; the original has shape {ex}"}
        if kind == "ruleScatterDyn" and real_answer == "T":
            st, ax, dsh, tsh = args
            for sig, unn in _bindings_for([dsh, tsh], limit=200):
                itr = iter(unn)
                ld, lt = _conc(dsh, sig, itr), _conc(tsh, sig, itr)
                sl = M.spec_slice(ld, st or 0, None)
                if not sl or not (-len(sl) <= ax < len(sl)) or not lt:
                    continue
                rows = sl[ax]
                if rows < lt[0]:
                    return {"binding": sig, "unnamed": unn, "data_shape": ld, "scattered_shape": lt,
                            "why": f"ScatterND replaced by Identity(updates) although the index chain covers only rows 0..{rows - 1} of {lt[0]}"}
        if kind == "evAdd" and real_answer not in ("N",) and real_answer.startswith("s"):
            a, b = args
            for opnd, other in ((a, b), (b, a)):
                if opnd and len(opnd) == 1 and isinstance(opnd[0], int) and opnd[0] < 0 and other and isinstance(other[0], str):
                    return {"binding": {other[0]: 0}, "unnamed": [],
                            "why": f"a symbolic dim {real_answer[1:]!r} is recorded for {other[0]} + ({opnd[0]}), which is {opnd[0]} at {other[0]}=0; "
                                   "`abs` then folds Abs of it to Identity"}
        if kind == "evAbs" and real_answer == "T":
            (a,) = args
            neg = [d for d in (a or []) if isinstance(d, int) and d < 0]
            if neg:
                return {"binding": {}, "unnamed": [], "why": f"Abs is declared an identity on a value containing {neg[0]}"}
        if kind in ("evExpand", "evReshape") and real_answer.startswith("T"):
            i, v = args
            if i is not None and v is not None:
                for sig, unn in _bindings_for([i, v]):
                    it = iter(unn)
                    if _conc(i, sig, it) != _conc(v, sig, it):
                        return {"binding": sig, "unnamed": unn, "why": "replaced by Identity although input shape and target differ under this binding"}
        if kind == "merge" and real_answer not in ("N", "RAISE"):
            p_, o_ = args
            r_ = dec_shape(real_answer)
            if p_ is not None and o_ is not None:
                for sig, unn in _bindings_for([p_]):
                    l = _conc(p_, sig, iter(unn))
                    if admits(o_, sig, l) and not admits(r_, sig, l):
                        return {"binding": sig, "unnamed": unn, "why": f"merged annotation {r_} is false for {l}, which both arguments admit"}
        if kind == "dimsSuff" and real_answer == "ok":
            e, x, y = args
            r = search_helper_counterexample("expandRemovable", (x, y, None, e, None), "ok2")
            if r:
                return r
        if kind == "ruleExpandBinary" and ":fired" in real_answer:
            # the rule fired where the model (given the roles the code is supposed to pass) refuses, or it
            # rebuilt the node with other operands: look for shapes on which the rewritten op differs
            x, y, const, eo, bo = args
            if x is None or y is None:
                return None
            op, side, _, ins = real_answer.split(":", 3)
            want = "xin,yin" if side == "0" else "yin,xin"
            if ins != want:
                return {"binding": {}, "unnamed": [], "why": f"{op} rebuilt with operands ({ins}) instead of ({want})"}
            for sig, unn in _bindings_for([x, y], limit=400):
                it = iter(unn)
                lx, ly = _conc(x, sig, it), _conc(y, sig, it)
                if const is not None:
                    targets = [const]
                else:
                    targets = [[2] + lx, [5] + lx, [3 if d == 1 else d for d in lx], [2, 3] + lx, np_bcast(lx, ly) or lx]
                    for ann in (eo, bo):
                        if ann is not None:
                            for kv in VALS:
                                targets.append([sig.get(d, kv) if isinstance(d, str) else (kv if d is None else d) for d in ann])
                for le in targets:
                    lE = np_bcast(lx, le)
                    if lE is None:
                        continue
                    sg = dict(sig)
                    if eo is not None:
                        # symbols that only occur in the annotation (e.g. K) are bound by the run-time target
                        if len(eo) != len(lE):
                            continue
                        okb = True
                        for d, v in zip(eo, lE):
                            if isinstance(d, str):
                                if sg.setdefault(d, v) != v:
                                    okb = False
                            elif d is not None and d != v:
                                okb = False
                        if not okb:
                            continue
                    o1 = np_bcast(lE, ly)
                    if o1 is None:
                        continue
                    if bo is not None:
                        if len(bo) != len(o1):
                            continue
                        okb = True
                        for d, v in zip(bo, o1):
                            if isinstance(d, str):
                                if sg.setdefault(d, v) != v:
                                    okb = False
                            elif d is not None and d != v:
                                okb = False
                        if not okb:
                            continue
                    if o1 != np_bcast(lx, ly):
                        return {"binding": sg, "unnamed": unn, "expand_input": lx, "other": ly, "expand_target": le,
                                "why": f"{op} with the Expand on operand {side}: original result shape {o1}, rewritten {np_bcast(lx, ly)}"}
        if kind == "expandIdentityRule" and real_answer == "T":
            x, t = args
            if x is not None and t is not None:
                for sig, unn in _bindings_for([x]):
                    lx = _conc(x, sig, iter(unn))
                    lo = np_bcast(lx, t)
                    if lo != lx:
                        return {"binding": sig, "unnamed": unn, "input_shape": lx,
                                "why": f"Expand(x:{lx}, {t}) has shape {lo} but is replaced by Identity(x)"}
        if kind == "evConcat" and (real_answer.startswith("identity:") or real_answer.startswith("concat:")):
            axis, ins = args
            shapes = [t for t, _ in ins]
            keep = [int(v) for v in real_answer.split(":")[1].split(",")] if real_answer.split(":")[1] else []
            if axis is not None and len(ins) > 1 and all(t is not None for t in shapes) and len({len(t) for t in shapes}) == 1:
                r = len(shapes[0])
                a = axis + r if axis < 0 else axis
                if 0 <= a < r and all(t[:a] + t[a + 1:] == shapes[0][:a] + shapes[0][a + 1:] for t in shapes):
                    for sig, unn in _bindings_for(shapes, limit=100):
                        it = iter(unn)
                        ls = [_conc(t, sig, it) for t in shapes]
                        full = sum(l[a] for l in ls)
                        kept = sum(ls[k][a] for k in keep)
                        if full != kept:
                            return {"binding": sig, "unnamed": unn, "operand_shapes": ls,
                                    "why": f"Concat(axis={axis}) of {ls} has extent {full} on the concat axis; after dropping operands "
                                           f"{[k for k in range(len(ls)) if k not in keep]} it has {kept}"}
        if kind == "ruleReshapeReshape" and real_answer not in ("N", "RAISE") and not real_answer.startswith("EXC"):
            shape, out, az = args
            tt, aa = real_answer.split(" ")
            tgt, az2 = H.dec_oints(tt), aa == "az1"
            if shape is not None:
                import itertools

                for r in (1, 2, 3):
                    for mid in itertools.product([0, 1, 2, 3, 4, 6, 7], repeat=r):
                        mid = list(mid)
                        res = H.spec_reshape(mid, shape, az == 1)
                        if res is None:
                            continue
                        sig = {}
                        if out is not None:
                            if len(out) != len(res):
                                continue
                            ok = True
                            for d, v in zip(out, res):
                                if isinstance(d, str):
                                    ok = ok and sig.setdefault(d, v) == v
                                elif d is not None:
                                    ok = ok and d == v
                            if not ok:
                                continue
                        P = 1
                        for d in mid:
                            P *= d
                        for inp in ([P], list(reversed(mid)), [1] + mid, mid + [1], mid):
                            got = H.spec_reshape(inp, tgt, az2)
                            if got != res:
                                return {"binding": sig, "unnamed": [], "x_shape": inp, "intermediate_shape": mid,
                                        "why": f"Reshape(Reshape(x:{inp}, ->{mid}), {shape}, allowzero={az}) gives {res}; the rewritten "
                                               f"Reshape(x, {tgt}, allowzero={int(az2)}) gives {got}"}
        if kind == "expandRemovable" and real_answer in ("ok1", "ok2", "ok3"):
            x, y, const, eo, bo = args
            if pred_d23(real_answer, x, y, eo, bo) or pred_d24(real_answer, x, y, const, eo):
                return None
            for sig, unn in _bindings_for([x, y]):
                it = iter(unn)
                lx, ly = _conc(x, sig, it), _conc(y, sig, it)
                targets = [const] if const is not None else [np_bcast(lx, ly) or lx, lx]
                for le in targets:
                    lE = np_bcast(lx, le)
                    if lE is None:
                        continue
                    if eo is not None and not admits(eo, sig, lE):
                        continue
                    o1 = np_bcast(lE, ly)
                    if bo is not None and real_answer == "ok3" and (o1 is None or not admits(bo, sig, o1)):
                        continue
                    if o1 != np_bcast(lx, ly):
                        return {"binding": sig, "unnamed": unn, "expand_target": le,
                                "why": f"with Expand {o1}, without {np_bcast(lx, ly)}"}
    except Exception:  # the search is best-effort
        return None
    return None


def dec_shape(t):
    if t == "N":
        return None
    if t == "-":
        return []
    out = []
    for d in t.split(","):
        out.append(None if d == "u" else int(d[1:]) if d[0] == "k" else d[1:])
    return out


def admits(s, sig, l):
    if len(s) != len(l):
        return False
    for d, v in zip(s, l):
        if d is None:
            continue
        if isinstance(d, str):
            if sig.get(d) != v:
                return False
        elif d != v:
            return False
    return True


def pred_d23(verdict, x, y, eo, bo):
    """strategy 2/3 succeeded although the deciding annotation has an unnamed dim."""
    if verdict == "ok2":
        return eo is not None and any(d is None for d in eo)
    if verdict == "ok3":
        return bo is not None and any(d is None for d in bo)
    return False


def pred_d24(verdict, x, y, const, eo):
    """strategy 1/2 succeeded although the Expand target has a higher rank than both operands."""
    if x is None or y is None:
        return False
    r = max(len(x), len(y))
    if verdict == "ok1":
        return const is not None and len(const) > r
    if verdict == "ok2":
        return eo is not None and len(eo) > r
    return False


# --------------------------------------------------------------------------- part (a)


def run_helpers(run, drv, R, n, stats, problems):
    cases = H.gen_helper_cases(run.rng, R, n, stats)
    outs = drv.ask([c[1] for c in cases])
    for (kind, line, thunk), m in zip(cases, outs):
        try:
            r = thunk()
        except Exception as e:  # the real helper raised where the model has an answer
            r = "EXC:" + type(e).__name__
        mm = m
        if kind == "materialize" and m != "N":
            mm = m + " az1"
        if kind == "flatten" and m != "N":
            mm = m + " az0"
        if kind == "ruleExpandBinary":
            mm = H.rule_expected(m, r) if r.count(":") >= 2 else m
            stats["br_ruleExpandBinary:op:" + r.split(":")[0]] += 1
            stats["br_ruleExpandBinary:fires:" + m + ":side" + (r.split(":")[1] if r.count(":") >= 2 else "?")] += 1
        stats["helper_cases"] += 1
        stats["k_" + kind] += 1
        if r != mm:
            problems.append({"kind": kind, "line": line, "impl": r, "model": mm})
        if kind == "ruleReshapeReshape":
            for lab in H.rr_branches(line, mm):
                stats["br_" + lab] += 1
            continue
        stats["br_" + H.branch_of(kind, mm)] += 1
    return cases


def parse_line_args(line):
    """Recover python-side arguments of a helper line (for the counterexample search)."""
    t = line.split(" ")
    kind = t[0]
    if kind in ("sameShapeFold", "sameShape", "bcastShape"):
        return kind, (dec_shape(t[1]), dec_shape(t[2]))
    if kind == "sameDim":
        return kind, (dec_shape(t[1])[0], dec_shape(t[2])[0])
    if kind == "ruleFires":
        c = None if t[6] == "N" else ([] if t[6] == "-" else [int(v) for v in t[6].split(",")])
        return "ruleExpandBinary", (dec_shape(t[4]), dec_shape(t[5]), c, dec_shape(t[7]), dec_shape(t[8]))
    if kind == "expandRemovable":
        c = None if t[3] == "N" else ([] if t[3] == "-" else [int(v) for v in t[3].split(",")])
        return kind, (dec_shape(t[1]), dec_shape(t[2]), c, dec_shape(t[4]), dec_shape(t[5]))
    if kind == "evShape":
        return kind, (dec_shape(t[1]), int(t[2]), None if t[3] == "N" else int(t[3]))
    if kind == "scatterDyn":
        return "ruleScatterDyn", (None if t[1] == "N" else int(t[1]), int(t[2]), dec_shape(t[3]), dec_shape(t[4]))
    if kind == "evAdd":
        return kind, (dec_shape(t[1]), dec_shape(t[2]))
    if kind == "evAbs":
        return kind, (dec_shape(t[1]),)
    if kind == "evReshape":
        return kind, (dec_shape(t[1]), dec_shape(t[2]))
    if kind == "evExpand":
        if t[2] == "n":
            return kind, (dec_shape(t[1]), dec_shape(t[4]))
        return kind, None
    if kind == "merge":
        return kind, (dec_shape(t[1]), dec_shape(t[2]))
    if kind == "dimsSuff":
        return kind, (dec_shape(t[1]), dec_shape(t[2]), dec_shape(t[3]))
    if kind == "expandIdentityRule":
        return kind, (dec_shape(t[1]), H.dec_oints(t[2]))
    if kind == "evConcat":
        ax = None if t[1] == "N" else int(t[1])
        rest = t[2:]
        return kind, (ax, [(dec_shape(rest[i]), dec_shape(rest[i + 1])) for i in range(0, len(rest), 2)])
    if kind == "reshapeReshape":
        return "ruleReshapeReshape", (H.dec_oints(t[1]), H.dec_oshape(t[2]), int(t[3]))
    return kind, None


# --------------------------------------------------------------------------- part (b)


class Ort:
    """onnxruntime behind a child process (harness/c09_ortworker.py): a run that makes the runtime abort is
    answered "CRASH:…" (and the worker is restarted) instead of killing the check."""

    def __init__(self):
        self.proc = None
        self.bytes = {}      # handle -> model bytes
        self.live = set()    # handles known to the current worker
        self.n = 0
        self.crashes = 0

    def _start(self):
        import subprocess
        import sys as _sys

        env = dict(os.environ)
        self.proc = subprocess.Popen([_sys.executable, "-m", "harness.c09_ortworker"], stdin=subprocess.PIPE,
                                     stdout=subprocess.PIPE, stderr=subprocess.DEVNULL, cwd=str(core.VERIF), env=env)
        self.live = set()

    def _call(self, req):
        import pickle
        import struct

        if self.proc is None or self.proc.poll() is not None:
            self._start()
        try:
            blob = pickle.dumps(req, protocol=pickle.HIGHEST_PROTOCOL)
            self.proc.stdin.write(struct.pack("<I", len(blob)))
            self.proc.stdin.write(blob)
            self.proc.stdin.flush()
            hdr = self.proc.stdout.read(4)
            if len(hdr) < 4:
                raise EOFError
            (n,) = struct.unpack("<I", hdr)
            return pickle.loads(self.proc.stdout.read(n))
        except (EOFError, BrokenPipeError, OSError):
            rc = self.proc.wait()
            self.proc = None
            self.crashes += 1
            return f"CRASH:onnxruntime terminated the process (exit {rc}) while handling this model"

    def session(self, proto_bytes):
        self.n += 1
        self.bytes[self.n] = proto_bytes
        return self.n

    def run(self, sess, feeds):
        if isinstance(sess, str):
            return sess
        if self.proc is None or self.proc.poll() is not None:
            self._start()
        if sess not in self.live:
            r = self._call(("session", sess, self.bytes[sess]))
            if isinstance(r, str) and r.startswith("CRASH"):
                return r
            self.live.add(sess)
        return self._call(("run", sess, feeds))

    def drop(self, handles):
        for h in handles:
            self.bytes.pop(h, None)
        if self.proc is not None and self.proc.poll() is None:
            self._call(("drop", [h for h in handles if h in self.live]))
        self.live -= set(handles)

    def close(self):
        if self.proc is not None and self.proc.poll() is None:
            try:
                self.proc.stdin.close()
                self.proc.wait(timeout=5)
            except Exception:
                self.proc.kill()
        self.proc = None


def same_outputs(a, b):
    """None if equal, else list of differing output indices ('*' when one side failed)."""
    ea, eb = isinstance(a, str), isinstance(b, str)
    if ea and eb:
        return None
    if ea != eb:
        return ["*"]
    bad = []
    for i, (u, v) in enumerate(zip(a, b)):
        if u.shape != v.shape or u.dtype != v.dtype or not np.array_equal(u, v, equal_nan=True):
            bad.append(i)
    return bad or None


def optimize_variants(R, orig, has_expand_binary, drv, stats):
    """[(variant, proto_bytes | 'RAISED:…', info)] — one optimize() per model."""
    import onnx

    from onnxscript import optimizer

    ir = R.ir
    out = []
    try:
        m = ir.from_proto(orig)
        optimizer.optimize(m)
        p = ir.to_proto(m)
        out.append(("optimize", p.SerializeToString(), {"ops": [n.op_type for n in p.graph.node]}))
    except Exception as e:
        out.append(("optimize", "RAISED:" + type(e).__name__ + ":" + str(e)[:200], {}))
    if has_expand_binary:
        for variant, pre in (("reb_inferred", True), ("reb_raw", False)):
            try:
                src = onnx.shape_inference.infer_shapes(orig) if pre else orig
                m = ir.from_proto(src)
                info = {"patterns": expand_patterns(R, m, drv, stats)}
                cnt = R.reb.expand_before_binary_op_rules.apply_to_model(m)
                info["fired"] = cnt
                pats = info["patterns"]
                if len(pats) == 1 and sum(1 for n in src.graph.node if n.op_type == "Expand") == 1:
                    # the rule objects (role wiring per side) against the Lean verdict for the supposed roles
                    want = 1 if pats[0]["model"] in ("ok1", "ok2", "ok3") else 0
                    if cnt != want:
                        info["rule_tie_break"] = {"kind": "expandRemovable(rule on model graph)", "line": pats[0]["line"],
                                                  "impl": f"fired={cnt}", "model": pats[0]["model"]}
                out.append((variant, ir.to_proto(m).SerializeToString(), info))
            except Exception as e:
                out.append((variant, "RAISED:" + type(e).__name__ + ":" + str(e)[:200], {}))
    return out


def expand_patterns(R, m, drv, stats):
    """Every BinaryOp(Expand(x, s), y) of the model with the shapes the rule will see, the real
    `_check_expand_removable` verdict and the Lean model's verdict (another tie point)."""
    pats = []
    ops = set(R.reb._BROADCAST_BINARY_OPS)
    for node in m.graph:
        if node.op_type not in ops or len(node.inputs) != 2:
            continue
        for side in (0, 1):
            e = node.inputs[side]
            if e is None or e.producer() is None or e.producer().op_type != "Expand":
                continue
            en = e.producer()
            x, s = en.inputs[0], en.inputs[1]
            y = node.inputs[1 - side]
            xs, ys = L.ir_shape_to_py(x.shape), L.ir_shape_to_py(y.shape)
            cv = R.iu.get_numpy_value(s)
            const = None if cv is None else [int(v) for v in cv.tolist()]
            eo = L.ir_shape_to_py(e.shape)
            bo = L.ir_shape_to_py(node.outputs[0].shape)
            r = R.reb._check_expand_removable(x, s, y, expand_output=e, binary_op_output=node.outputs[0])
            line = f"expandRemovable {L.enc_shape(xs)} {L.enc_shape(ys)} {L.enc_ints(const)} {L.enc_shape(eo)} {L.enc_shape(bo)}"
            mv = drv.ask([line])[0]
            stats["model_expand_patterns"] += 1
            pats.append({"x": xs, "y": ys, "const": const, "eo": eo, "bo": bo, "real_ok": bool(r), "model": mv, "line": line})
    return pats


def classify_model_failure(b_meta, variant, info, opt_bytes, binding, concrete_inputs, bad, out_names, opt_err="", orig=None,
                           zero_seen=False):
    """Known-finding id for a whole-model mismatch, or None."""
    import onnx

    if (variant == "optimize" and opt_err.startswith("LOADERR") and "/shape" in opt_err
            and "is not a graph input, initializer, or output of a previous node" in opt_err and orig is not None):
        prod = {o: n.op_type for n in orig.graph.node for o in n.output}
        if any(n.op_type == "Flatten" and prod.get(n.input[0]) == "Reshape" for n in orig.graph.node):
            return "C09-N3"

    if isinstance(opt_bytes, str):
        return None
    opt = onnx.load_from_string(opt_bytes)
    ops = [n.op_type for n in opt.graph.node]
    inits = {i.name: onnx.numpy_helper.to_array(i) for i in opt.graph.initializer}
    if variant == "optimize":
        # D16c: materialized target with a static 0 beside -1 under allowzero=1
        for n in opt.graph.node:
            if n.op_type == "Reshape" and any(a.name == "allowzero" and a.i == 1 for a in n.attribute):
                t = inits.get(n.input[1])
                if t is not None and (t == 0).any() and (t == -1).any():
                    return "C09-D16c"
        # D6: Flatten became Reshape and a dim of size 0 is around
        if b_meta.get("flatten") and ops.count("Flatten") < len(b_meta["flatten"]) and "Reshape" in ops:
            zero = any(0 in shp for shp in concrete_inputs.values()) or zero_seen
            if zero:
                return "C09-D6"
        # D5: only outputs of Abs(Shape-piece + negative constant) differ
        neg = set(b_meta.get("abs_neg_outputs", []))
        if neg and bad != ["*"] and all(out_names[i] in neg for i in bad):
            return "D5"
    else:
        for p in info.get("patterns", []):
            if p["real_ok"]:
                v = p["model"]
                if pred_d23(v, p["x"], p["y"], p["eo"], p["bo"]):
                    return "C09-N1"
                if pred_d24(v, p["x"], p["y"], p["const"], p["eo"]):
                    return "C09-N2"
    return None


def gen_bindings(rng, syms, unnamed, k):
    keys = list(syms) + list(unnamed)
    out = []
    for v in (2, 1, 0, 3):
        out.append({key: v for key in keys})
    seen = {tuple(sorted(b.items(), key=str)) for b in out}
    tries = 0
    while len(out) < k and tries < 10 * k:
        tries += 1
        bnd = {key: rng.choice(M.VALUES) for key in keys}
        t = tuple(sorted(bnd.items(), key=str))
        if t not in seen:
            seen.add(t)
            out.append(bnd)
    return out[:k]


def run_models(run, drv, R, n_models, n_bind, stats, failures, tie_problems):
    import onnx

    ortx = Ort()
    rng_np = np.random.default_rng(run.rng.randrange(1 << 30))
    made = 0
    attempts = 0
    while made < n_models and attempts < 4 * n_models:
        attempts += 1
        b = M.gen_model(run.rng)
        if b is None:
            stats["model_gen_none"] += 1
            continue
        syms, unn = M.symbols_of(b)
        prov = M.finish(b, None)
        sess0 = ortx.session(prov.SerializeToString())
        probe = ortx.run(sess0, M.feeds_for(b, {k: 2 for k in syms + unn}, rng_np))
        if isinstance(probe, str):
            stats["model_discarded_probe_fails"] += 1
            continue
        orig = M.finish(b, {n: o.ndim for n, o in zip(b.outputs, probe)})
        try:
            onnx.checker.check_model(orig, full_check=True)
        except Exception:
            stats["model_discarded_checker"] += 1
            continue
        made += 1
        for t in b.tags:
            stats["tpl_" + t] += 1
        ob = orig.SerializeToString()
        variants = optimize_variants(R, orig, bool(b.meta.get("expand_binary")), drv, stats)
        so = ortx.session(ob)
        sessions = []
        for variant, pb, info in variants:
            stats["variants"] += 1
            if info.get("rule_tie_break"):
                tie_problems.append(info["rule_tie_break"])
            for p in info.get("patterns", []):
                if (p["model"] in ("ok1", "ok2", "ok3")) != p["real_ok"]:
                    tie_problems.append({"kind": "expandRemovable(model graph)", "line": p["line"], "impl": str(p["real_ok"]), "model": p["model"]})
            if isinstance(pb, str):
                failures.append({"model": base64.b64encode(ob).decode(), "variant": variant, "binding": None,
                                 "what": f"{variant} raised on a checker-valid model: {pb}", "known": None, "tags": b.tags})
                continue
            if variant == "optimize":
                before = Counter(n.op_type for n in orig.graph.node)
                after = Counter(info["ops"])
                for op in ("Reshape", "Expand", "Abs", "Flatten", "Size", "Shape", "Slice", "Concat", "Gather", "Cast"):
                    if before[op] > after[op]:
                        stats["simplified_" + op] += before[op] - after[op]
            else:
                stats["reb_fired"] += info.get("fired", 0)
            sessions.append((variant, pb, info, ortx.session(pb)))
        for bnd in gen_bindings(run.rng, syms, unn, n_bind):
            feeds = M.feeds_for(b, bnd, rng_np)
            ro = ortx.run(so, feeds)
            stats["bindings"] += 1
            if isinstance(ro, str):
                stats["orig_rejects"] += 1
            if any(0 in v.shape for v in feeds.values()):
                stats["bindings_with_zero_dim"] += 1
            for variant, pb, info, s in sessions:
                rr = ortx.run(s, feeds)
                stats["model_runs"] += 1
                bad = same_outputs(ro, rr)
                if bad is None:
                    continue
                conc = {k: list(v.shape) for k, v in feeds.items()}
                fid = classify_model_failure(b.meta, variant, info, pb, bnd, conc, bad, b.outputs,
                                             opt_err=rr if isinstance(rr, str) else "", orig=orig,
                                             zero_seen=(any(0 in o.shape for o in ro) if not isinstance(ro, str) else False)
                                             or any(v.dtype == np.int64 and (v == 0).any() for k, v in feeds.items() if k in b.shape_feeds))
                what = (f"{variant}: original " + ("rejects" if isinstance(ro, str) else "accepts") + ", optimized "
                        + ("rejects" if isinstance(rr, str) else "accepts") + f"; differing outputs {bad}; shapes {conc}"
                        + (f"; opt error {rr[:120]}" if isinstance(rr, str) else "")
                        + (f"; orig error {ro[:120]}" if isinstance(ro, str) else ""))
                failures.append({"model": base64.b64encode(ob).decode(), "variant": variant,
                                 "binding": {str(k): v for k, v in bnd.items()},
                                 "feeds": {k: v.tolist() for k, v in feeds.items()}, "feed_shapes": conc,
                                 "what": what, "known": fid, "tags": b.tags})
        ortx.drop([sess0, so] + [x[3] for x in sessions])
        run.sample({"model_tags": b.tags, "inputs": [(n, str(s)) for n, _, s in b.inputs], "variants": [v[0] for v in variants]}, limit=6)
    stats["models"] = made
    stats["runtime_crashes"] = ortx.crashes
    ortx.close()
    return made


def replay_model_case(R, drv, case, stats):
    """Re-run one stored (model, variant, feeds) on the current tree. Returns (mismatch?, text)."""
    import onnx

    ortx = Ort()
    orig = onnx.load_from_string(base64.b64decode(case["model"]))
    has_eb = any(n.op_type == "Expand" for n in orig.graph.node)
    variants = optimize_variants(R, orig, has_eb, drv, stats)
    feeds = {}
    elem = {i.name: i.type.tensor_type.elem_type for i in orig.graph.input}
    for k, v in case["feeds"].items():
        feeds[k] = np.array(v, dtype=np.int64 if elem[k] == onnx.TensorProto.INT64 else np.float32)
        shp = (case.get("feed_shapes") or {}).get(k)
        if shp is not None:
            feeds[k] = feeds[k].reshape(shp)
    ro = ortx.run(ortx.session(orig.SerializeToString()), feeds)
    for variant, pb, info in variants:
        if variant != case["variant"]:
            continue
        if isinstance(pb, str):
            return True, pb, info
        rr = ortx.run(ortx.session(pb), feeds)
        bad = same_outputs(ro, rr)
        desc = ("orig=" + (ro[:80] if isinstance(ro, str) else str([(o.shape, o.tolist()) for o in ro])[:160])
                + " opt=" + (rr[:120] if isinstance(rr, str) else str([(o.shape, o.tolist()) for o in rr])[:160]))
        return bad is not None, desc, info
    return False, "variant not produced", {}


def corpus_cases():
    if not CORPUS.exists():
        return []
    return [json.loads(l) for l in CORPUS.read_text().splitlines() if l.strip()]


def run_corpus(run, drv, R, stats, findings):
    """Witnesses of the known findings.  Open finding: the witness must still fail (else a NOTE, not a
    violation).  Fixed finding (known_findings.d/C09.json "fixed"): the witness is a regression case — a
    difference between original and optimized is a VIOLATION again."""
    import onnx

    for c in corpus_cases():
        txt = c["onnx_text"]
        m = R.ir.from_onnx_text(txt)
        for name, shp in c.get("value_info", {}).items():
            for n in m.graph:
                for o in n.outputs:
                    if o.name == name:
                        o.shape = R.ir.Shape(shp)
                        o.type = R.ir.TensorType(R.ir.DataType.FLOAT)
        orig = R.ir.to_proto(m)
        case = {"model": base64.b64encode(orig.SerializeToString()).decode(), "variant": c["variant"], "feeds": c["feeds"],
                "feed_shapes": c.get("feed_shapes", {})}
        bad, desc, info = replay_model_case(R, drv, case, stats)
        stats["corpus_cases"] += 1
        fid = c["finding"]
        if bad:
            if fid in findings:
                run.known(fid, f"{c['what']} :: {desc}")
                stats["known_" + fid] += 1
            else:
                run.violation({"corpus": c, "detail": desc}, f"corpus witness of {fid} fails but {fid} is not an open finding: {desc}")
        elif fid in findings:
            stats["corpus_no_longer_reproduces_" + fid] += 1
            print(f"NOTE property=C09 witness of open finding {fid} no longer reproduces ({c['what']})", flush=True)
        else:
            stats["corpus_regression_ok_" + fid] += 1  # witness of a fixed finding: original == optimized again


# --------------------------------------------------------------------------- main


def main(run: core.Run) -> None:
    run.assumptions += [
        "A-shape: every shape annotation present in a model is truthful for the inputs considered (the property "
        "quantifies over bindings consistent with the model's own constraints); the generated models satisfy it by construction",
        "A-op: Expand/binary-op broadcasting, Reshape (0 / -1 / allowzero), Flatten, Shape(start,end), Gather follow the ONNX "
        "operator specification as transcribed in OV.Model.C09Shape; onnxruntime CPU (optimisations off) is the runtime observed",
        "a symbolic dim created by the fold pass's `add` (name \"a+b\") denotes the sum of its operands (hypothesis of add_sym_sound); "
        "a user symbol literally named like such a sum is outside the statement",
        "values (not only shapes) of BinaryOp(Expand(x), y) vs BinaryOp(x, y): broadcasting replicates data identically once the result "
        "shapes agree — exercised by the whole-model runs, proved at shape level",
    ]
    import logging

    for name in ("onnx_ir", "onnxscript"):
        logging.getLogger(name).setLevel(logging.ERROR)
    audit = run.prove(PROP_MODULES)
    drv = core.Driver("C09")
    R = L.Real()
    stats: Counter = Counter()
    findings = {f["id"]: f for f in run.open_findings()}

    if run.replay_path:
        body = json.loads(open(run.replay_path).read())
        case = body.get("case", {})
        if "model" in case:
            bad, desc, info = replay_model_case(R, drv, case, stats)
            print(f"REPLAY model variant={case['variant']}: mismatch={bad} :: {desc}")
            if bad:
                run.violation(case, "replayed model/binding still differs: " + desc)
        elif "line" in case:
            kind, args = parse_line_args(case["line"])
            m = drv.ask([case["line"]])[0]
            print(f"REPLAY helper {case['line']} :: model={m} recorded impl={case.get('impl')}")
            if m != case.get("impl"):
                run.violation(case, "replayed helper case: model and recorded implementation answer differ", no_input=True)
        run.coverage.update(evaluations=1, distinct_nontrivial=1)
        return

    drift = []
    fpf = core.VERIF / "harness" / "fingerprints_c09.json"
    rec = json.loads(fpf.read_text()).get("C09", {}) if fpf.exists() else {}
    for path, names in FP.items():
        cur = core.source_fingerprint(path, names)
        drift += [f"{path}:{q}" for q in names if rec.get(path, {}).get(q) is not None and rec[path][q] != cur.get(q)]
        drift += core.fingerprint_drift("C09", path, names)
    run.coverage["fingerprint_drift"] = drift
    n_helper = run.size(1500, 20000)
    n_models = run.size(500, 10000)
    n_bind = run.size(10, 16)
    if drift and run.tier == "quick":
        n_helper *= 4

    # ---- corpus (known findings' witnesses)
    run_corpus(run, drv, R, stats, findings)

    # ---- (a) helpers
    tie_problems: list = []
    done = 0
    while done < n_helper:
        k = min(250, n_helper - done)
        run_helpers(run, drv, R, k, stats, tie_problems)
        done += k

    # ---- specification side of the theorems vs onnxruntime / numpy
    S = H.SpecOracle()
    sc = H.gen_spec_cases(run.rng, S, run.size(300, 3000))
    so = drv.ask([c[1] for c in sc])
    for (kind, line, thunk), m in zip(sc, so):
        r = thunk()
        stats["spec_cases"] += 1
        stats["br_" + kind + ":" + ("N" if r == "N" else "some")] += 1
        if r != m:
            tie_problems.append({"kind": kind, "line": line, "impl": r, "model": m})

    # ---- (b) whole models
    failures: list = []
    run_models(run, drv, R, n_models, n_bind, stats, failures, tie_problems)

    # ---- verdict
    known_counts: Counter = Counter()
    real_failures = []
    for f in failures:
        fid = f["known"]
        if fid and fid in findings:
            known_counts[fid] += 1
            if known_counts[fid] == 1:
                run.known(fid, f"generated model {f['tags']} binding {f['binding']}: {f['what']}")
        else:
            real_failures.append(f)
    for k, v in known_counts.items():
        stats["generated_known_" + k] = v

    if real_failures:
        real_failures.sort(key=lambda f: (len(f["tags"]), len(f["model"])))
        f = real_failures[0]
        run.violation({**f, "others": len(real_failures) - 1},
                      f"optimized model differs from the original at a concrete binding: tags={f['tags']} binding={f['binding']} :: {f['what']}")
    if tie_problems:
        # look for a concrete input on which the real code is semantically wrong
        found = None
        for p in tie_problems:
            kind, args = parse_line_args(p["line"])
            if p["kind"] == "ruleExpandBinary":
                kind = "ruleExpandBinary"
            if args is None:
                continue
            cx = search_helper_counterexample(kind, args, p["impl"])
            if cx:
                found = (p, cx)
                break
        if found:
            p, cx = found
            run.violation({**p, "counterexample": cx}, f"real {p['kind']} answers {p['impl']} on `{p['line']}` but {cx['why']} (binding {cx['binding']})")
        elif not real_failures:
            p = tie_problems[0]
            run.violation({**p, "broken": "correspondence OV.Model.C09Shape vs implementation", "others": len(tie_problems) - 1},
                          f"correspondence broken ({p['kind']}): `{p['line']}` impl={p['impl']} model={p['model']}; "
                          "no binding found on which the implementation is semantically wrong", no_input=True)
    if not audit["ok"]:
        run.violation({"broken": "proof obligations of OV.Props.C09", "problems": audit["problems"], "log": audit["build_log"][-1500:]},
                      "Lean proof obligations for C09 do not check: " + "; ".join(audit["problems"][:3]), no_input=True)

    branches = {k[3:]: v for k, v in stats.items() if k.startswith("br_")}
    run.coverage.update(
        evaluations=stats["helper_cases"] + stats["model_runs"],
        distinct_nontrivial=stats["helper_cases"] + stats["models"],
        rule="helper cases: (function, symbolic shapes) pairs compared real vs Lean model; models: distinct generated models with "
        "symbolic dims, each optimized once and run at `bindings/models` bindings on onnxruntime, original vs optimized",
        traces_validated_against_impl=stats["helper_cases"] + stats["model_expand_patterns"],
        distribution={k: v for k, v in stats.items() if not k.startswith("br_")},
        branch_histogram=branches,
        exhaustive=False,
    )
    need = ["expandRemovable:ok1", "expandRemovable:ok2", "expandRemovable:ok3", "expandRemovable:fail1", "expandRemovable:fail2",
            "expandRemovable:fail3", "dimsSuff:ok", "dimsSuff:fail", "merge:RAISE", "evGather:RAISE", "evConcat:concat",
            "evConcat:sym", "evReshape:T", "evExpand:T", "evAbs:F", "materialize:some", "flatten:some", "flatten:N",
            "ruleScatterDyn:T", "ruleScatterDyn:F", "expandRemovable:rank1", "expandRemovable:rank2",
            "ruleScatterStatic:T", "ruleScatterStatic:F", "ruleCollapseSlice1:T", "ruleCollapseSlice1:F", "ruleCollapseSlice2:T",
            "ruleCollapseSlice2:F", "ruleSqueezeReshape:T", "ruleSqueezeReshape:F", "getShapeValue:N", "getShapeValue:some", "spec_gather:N", "spec_gather:some", "ruleNoOp:T", "ruleNoOp:F",
            # missing shape / no information / negative-answer branches of every modelled function (each >= 40 hits per quick run)
            "expandRemovable:noshapes", "expandRemovable:noinfo", "evShape:none", "evShape:const", "evShape:symonly", "evSize:none", "evSize:const",
            "evSqueeze:N", "evSqueeze:sym", "evIdentity:N", "evIdentity:sym", "getDim:N", "getDim:some", "materialize:N", "evGather:none",
            "evGather:const", "evGather:symonly", "evAdd:N", "evAdd:int", "evAdd:sym", "evConcat:none", "evConcat:identity", "evAbs:T",
            "evExpand:F", "evReshape:F", "bcastDim:N", "bcastDim:some", "bcastShape:N", "bcastShape:some", "sameDim:T", "sameDim:F",
            "sameShape:T", "sameShape:F", "sameShapeFold:T", "sameShapeFold:F", "merge:some", "expandIdentityRule:T", "expandIdentityRule:F",
            "ruleExpandBinary:side0:fired", "ruleExpandBinary:side0:no", "ruleExpandBinary:side1:fired", "ruleExpandBinary:side1:no",
            "spec_reshape:N", "spec_reshape:some", "spec_broadcast:N", "spec_broadcast:some", "spec_expand_ort:N", "spec_expand_ort:some",
            "expandIdentityRule:target_lead1", "expandIdentityRule:target_ones", "evConcat:zero_other_axis",
            "ruleReshapeReshape:N:notconst", "ruleReshapeReshape:out_known", "ruleReshapeReshape:out_none", "ruleReshapeReshape:upd:zero",
            "ruleReshapeReshape:upd:neg", "ruleReshapeReshape:RAISE", "ruleReshapeReshape:out_short", "ruleReshapeReshape:az1",
            "ruleReshapeReshape:az1_nozero", "ruleReshapeReshape:N:zero_and_neg", "ruleReshapeReshape:N:two_zeros",
            "ruleReshapeReshape:az0:zero2neg", "ruleReshapeReshape:az0:plain"]
    missing = [b for b in need if branches.get(b, 0) == 0]
    if missing and not run.violations:
        raise core.Infra(f"generator degenerated: branches never hit: {missing}")
    if stats["models"] < 0.5 * n_models and not run.violations:
        raise core.Infra(f"model generator degenerated: only {stats['models']} of {n_models} models usable")
