"""Collect a round of seeded changes from an author's scratch worktree into seeded/<prop>-<n>/.

usage: python harness/seedcollect.py <prop> <author-worktree> <first-number> <round>
Copies <wt>/_seeded/<k>/{patch.diff,demo.py,meta.json} to seeded/<prop>-<first+k-1>/, adds "round" to meta.json,
then confirms each with harness/seedconfirm.py (demo clean/patched, unit-test summaries equal).
"""
import json
import shutil
import subprocess
import sys
from pathlib import Path

V = Path(__file__).resolve().parent.parent


def main():
    prop, wt, first, rnd = sys.argv[1], sys.argv[2].rstrip("/"), int(sys.argv[3]), int(sys.argv[4])
    for k in (1, 2, 3):
        src = Path(wt) / "_seeded" / str(k)
        if not (src / "patch.diff").exists():
            continue
        sid = f"{prop}-{first + k - 1}"
        dst = V / "seeded" / sid
        dst.mkdir(parents=True, exist_ok=True)
        for f in ("patch.diff", "demo.py", "meta.json"):
            shutil.copy(src / f, dst / f)
        meta = json.loads((dst / "meta.json").read_text())
        meta["property"] = prop
        meta["round"] = rnd
        (dst / "meta.json").write_text(json.dumps(meta, indent=1))
        subprocess.run([sys.executable, str(V / "harness" / "seedconfirm.py"), sid, wt])


if __name__ == "__main__":
    main()
