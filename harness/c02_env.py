"""C02, second stream — what `to_function_proto()` / `to_model_proto()` put AROUND the body: opset-import lists and
`ModelProto.functions`.

Model: lean/OV/Model/C02Collect.lean (`graphImports`, `collect`, `modelImports`, `toModel`); theorems:
lean/OV/Props/C02Collect.lean.  Driver: `drv_c02` (`C02 env …`).

Tie (exact, ordered): a *world* of script functions in 1-3 custom domains calling each other (at top level, inside
`if` branches, inside loop bodies, callee-of-callee), custom-domain operators in several versions, several default
opsets, a main function with or without a default-domain operator of its own.  The model's input is read off the REAL
`function_ir` objects (per node: domain, version, `meta["callee"]` by object identity, subgraphs); compared with
  * `to_function_proto().opset_import` of the main function            (`main=`),
  * `to_model_proto(**kw).opset_import`                                 (`model=`),
  * the order and identity of `ModelProto.functions`                    (`functions=`),
  * the `opset_import` of every FunctionProto in the model               (`f<i>=`).
Oracle (independent of the model): imported domains distinct; every domain used at any depth of the main graph /
of a FunctionProto is imported by the model / by that FunctionProto; every function reachable *by object identity*
has its identifier `(domain, name)` in `ModelProto.functions`.
"""
from __future__ import annotations

import warnings
from collections import Counter

from harness import scriptgen


HEADER = """\
from onnxscript.values import Opset
DA1 = Opset("dom.a", 1)
DA2 = Opset("dom.a", 2)
DB = Opset("dom.b", 2)
DC = Opset("dom.c", 3)
CU1 = Opset("cust.ops", 1)
CU2 = Opset("cust.ops", 2)
CV = Opset("cust.v", 5)
"""
FUNC_DOMAINS = ["DA1", "DA1", "DB", "DC", "DA2"]
DEFAULTS = ["op", "op", "opset17", "opset19", "opset21"]
CUSTOM = ["CU1.Foo", "CU2.Foo", "CU1.Bar", "CV.Baz"]
NAMES = ["h0", "h1", "h2", "foo", "bar"]


class World:
    def __init__(self, name: str):
        self.name = name
        self.src = ""
        self.features: set[str] = set()
        self.kwargs: dict = {}


def _stmts(rng, dflt: str, callables: list[str], depth: int, feats: set, where: str, want_default: bool) -> list[str]:
    out = []
    for _ in range(rng.randint(1, 3)):
        r = rng.random()
        if callables and r < 0.4:
            out.append(f"x = {rng.choice(callables)}(x, c)")
            feats.add("call-" + where)
        elif r < 0.55:
            out.append(f"x = {rng.choice(CUSTOM)}(x)")
            feats.add("custom-op-" + where)
        elif r < 0.7 and want_default:
            out.append(f"x = {dflt}.{rng.choice(['Neg', 'Abs', 'Relu'])}(x)")
        elif r < 0.85 and depth < 2 and want_default:
            t = _stmts(rng, dflt, callables, depth + 1, feats, "branch", want_default)
            e = _stmts(rng, dflt, callables, depth + 1, feats, "branch", want_default)
            out += ["if c:"] + ["    " + s for s in t] + ["else:"] + ["    " + s for s in e]
            feats.add(f"if-depth{depth + 1}")
        elif depth < 2 and want_default:
            b = _stmts(rng, dflt, callables, depth + 1, feats, "loop", want_default)
            out += ["for i in range(2):"] + ["    " + s for s in b]
            feats.add(f"loop-depth{depth + 1}")
        elif callables:
            out.append(f"x = {rng.choice(callables)}(x, c)")
            feats.add("call-" + where)
        else:
            out.append(f"x = {rng.choice(CUSTOM)}(x)")
            feats.add("custom-op-" + where)
    return out


def gen_world(rng, name: str) -> World:
    """A module-level world: helpers F0..Fk-1 (python aliases; ONNX names drawn from a small pool so that names
    collide across domains and within one), then the main function."""
    w = World(name)
    lines: list[str] = []
    k = rng.choice([0, 1, 2, 2, 3, 3, 4, 5])
    collide = rng.random() < 0.35
    used: list[tuple[str, str]] = []
    aliases: list[str] = []
    for j in range(k):
        dom = rng.choice(FUNC_DOMAINS)
        if collide and used and rng.random() < 0.6:
            nm = rng.choice(used)[1]
        else:
            free = [n for n in NAMES if all(n != u[1] for u in used)]
            nm = rng.choice(free) if free else rng.choice(NAMES)
        used.append((dom, nm))
        dflt = rng.choice(DEFAULTS)
        feats: set[str] = set()
        body = _stmts(rng, dflt, aliases[:], 0, feats, "top", want_default=rng.random() < 0.8)
        if any(f.startswith("call-") for f in feats):
            w.features.add("callee-calls-callee")
        w.features |= {"helper-" + f for f in feats}
        lines += [f"@script({dom}, default_opset={dflt})", f"def {nm}(x, c):"] + ["    " + s for s in body] + ["    return x"]
        lines.append(f"{name}_F{j} = {nm}")
        aliases.append(f"{name}_F{j}")
    # main
    dflt = rng.choice(DEFAULTS)
    want_default = rng.random() < 0.6
    feats = set()
    body = _stmts(rng, dflt, aliases[:], 0, feats, "top", want_default)
    w.features |= {"main-" + f for f in feats}
    if not want_default:
        w.features.add("main-without-default-domain-operator")
        if rng.random() < 0.5:
            w.kwargs = {"opset_version": rng.choice([15, 17, 20])}
            w.features.add("opset_version-argument")
    lines += [f"@script(default_opset={dflt})", f"def {name}(x: FLOAT[3], c: BOOL) -> FLOAT[3]:"] + \
        ["    " + s for s in body] + ["    return x"]
    w.src = "\n".join(lines) + "\n"
    return w


WITNESS_D1 = """\
@script(DA1, default_opset=op)
def foo(x, c):
    return op.Neg(x)
w_c02d1_F0 = foo
@script(DB, default_opset=op)
def foo(x, c):
    return op.Abs(x)
w_c02d1_F1 = foo
@script(default_opset=op)
def w_c02d1(x: FLOAT[3], c: BOOL) -> FLOAT[3]:
    x = w_c02d1_F0(x, c)
    x = w_c02d1_F1(x, c)
    return x
"""


def witness_world() -> World:
    w = World("w_c02d1")
    w.src = WITNESS_D1
    w.features.add("corpus-witness-C02-D1")
    return w


# ---------------------------------------------------------------------------------------------- real side -> model input


def _dom(d: str) -> str:
    return d if d else "~"


def _is_fn(obj) -> bool:
    from onnxscript import values

    return isinstance(obj, values.OnnxFunction)


def _graph_attrs(node):
    import onnx_ir as ir

    out = []
    for a in node.attributes.values():
        if a.type == ir.AttributeType.GRAPH:
            out.append((a.name, a.value))
        elif a.type == ir.AttributeType.GRAPHS:
            raise ValueError("GRAPHS attribute")
    return out


def encode_nodes(nodes, ref_of) -> list[str]:
    toks = ["["]
    for n in nodes:
        subs = _graph_attrs(n)
        ver = n.version if n.version is not None else 0
        if not subs:
            callee = n.meta.get("callee", None)
            toks += ["o", _dom(n.domain), str(ver), str(ref_of(callee)) if _is_fn(callee) else "-"]
        elif n.op_type == "If" and [s[0] for s in subs] == ["then_branch", "else_branch"] and n.domain == "":
            toks += ["i", str(ver)] + encode_nodes(subs[0][1], ref_of) + encode_nodes(subs[1][1], ref_of)
        elif n.op_type == "Loop" and [s[0] for s in subs] == ["body"] and n.domain == "":
            toks += ["l", str(ver)] + encode_nodes(subs[0][1], ref_of)
        else:
            raise ValueError(f"node kind outside the model: {n.op_type} {[s[0] for s in subs]}")
    return toks + ["]"]


def discover(main_fn):
    """All OnnxFunction objects reachable from main by *object identity* (independent of the code's by-name dict)."""
    import onnx_ir as ir

    order: list = []
    index: dict[int, int] = {}

    def ref_of(fn) -> int:
        if id(fn) not in index:
            index[id(fn)] = len(order)
            order.append(fn)
        return index[id(fn)]

    def scan(fn_ir):
        for node in ir.traversal.RecursiveGraphIterator(fn_ir.graph):
            c = node.meta.get("callee", None)
            if _is_fn(c):
                ref_of(c)

    scan(main_fn.function_ir)
    k = 0
    while k < len(order):
        scan(order[k].function_ir)
        k += 1
    return order, ref_of


def imports_str(opset_import) -> str:
    return ",".join(f"{_dom(o.domain)}:{o.version}" for o in opset_import)


def domains_used(nodes, acc: set):
    import onnx

    for n in nodes:
        acc.add(n.domain)
        for a in n.attribute:
            if a.type == onnx.AttributeProto.GRAPH:
                domains_used(a.g.node, acc)
            elif a.type == onnx.AttributeProto.GRAPHS:
                for g in a.graphs:
                    domains_used(g.node, acc)
    return acc


def check_world(w: World, fn, latest: int, stats: Counter) -> dict:
    """Returns {line, real, problems} for one compiled world."""
    with warnings.catch_warnings():
        warnings.simplefilter("ignore")
        order, ref_of = discover(fn)
        fp = fn.to_function_proto()
        mp = fn.to_model_proto(**w.kwargs)
    for f in [fn] + order:
        vers: dict[str, set] = {}
        import onnx_ir as _ir

        for n in _ir.traversal.RecursiveGraphIterator(f.function_ir.graph):
            vers.setdefault(n.domain, set()).add(n.version)
        if any(len(v) > 1 for v in vers.values()):
            stats["env_two_versions_of_one_domain"] += 1
            break
    main_tokens = encode_nodes(fn.function_ir, ref_of)
    toks = ["env", "latest", str(latest), "ov", str(w.kwargs.get("opset_version", "-")), "main"] + main_tokens + ["funcs"]
    for f in order:
        fir = f.function_ir
        toks += ["f", f.name, _dom(fir.domain), str(fir.meta.get("opset_version", 1))] + encode_nodes(fir, ref_of)
    ident_to_ref = {}
    for k, f in enumerate(order):
        ident_to_ref.setdefault((f.function_ir.domain, f.name), []).append(k)
    # real answer in the driver's format with every function reference replaced by its identifier (two objects may share
    # an identifier and even a body: which OBJECT was serialised is not observable on the proto; `canon` below does the
    # same replacement on the model's answer)
    real_funcs = [f"{_dom(fpx.domain)}/{fpx.name}" for fpx in mp.functions]
    real_fimports = [f"f[{_dom(fpx.domain)}/{fpx.name}]={imports_str(fpx.opset_import)}" for fpx in mp.functions]
    real = (f"main={imports_str(fp.opset_import)} model={imports_str(mp.opset_import)} functions="
            + ",".join(real_funcs) + " " + " ".join(real_fimports))
    ref_ident = [f"{_dom(f.function_ir.domain)}/{f.name}" for f in order]
    # ---- the property's oracle on the real protos
    problems = []
    imported = Counter(o.domain for o in mp.opset_import)
    for d, c in imported.items():
        if c > 1:
            problems.append(f"ModelProto imports domain {d!r} {c} times")
    for d in sorted(domains_used(mp.graph.node, set())):
        if d not in imported:
            problems.append(f"ModelProto main graph uses domain {d!r} but the model does not import it")
    for fpx in list(mp.functions) + [fp]:
        imp = Counter(o.domain for o in fpx.opset_import)
        for d, c in imp.items():
            if c > 1:
                problems.append(f"FunctionProto {fpx.domain}:{fpx.name} imports domain {d!r} {c} times")
        for d in sorted(domains_used(fpx.node, set())):
            if d not in imp:
                problems.append(f"FunctionProto {fpx.domain}:{fpx.name} uses domain {d!r} but does not import it")
        if fpx is not fp and fpx.domain not in imported:
            problems.append(f"ModelProto does not import the domain {fpx.domain!r} of its function {fpx.name}")
    listed = Counter((f.domain, f.name) for f in mp.functions)
    for ident, c in listed.items():
        if c > 1:
            problems.append(f"ModelProto.functions lists {ident} {c} times")
    # closure ON THE PROTO: every node (any depth) of the main graph or of a listed FunctionProto whose
    # (domain, op_type) is the identifier of a script function of this world must find that function in
    # ModelProto.functions.  (Object level would be wrong: of two objects with one identifier the proto holds one body.)
    world_idents = {(f.function_ir.domain, f.name) for f in order}

    def proto_calls(nodes, acc: set):
        import onnx

        for n in nodes:
            if (n.domain, n.op_type) in world_idents:
                acc.add((n.domain, n.op_type))
            for a in n.attribute:
                if a.type == onnx.AttributeProto.GRAPH:
                    proto_calls(a.g.node, acc)
        return acc

    missing = []
    for where, nodes in [("the main graph", mp.graph.node)] + [(f"{f.domain}:{f.name}", f.node) for f in mp.functions]:
        for ident in sorted(proto_calls(nodes, set())):
            if ident not in listed and ident not in missing:
                missing.append(ident)
                problems.append(f"function {ident[0]}:{ident[1]} is called (from {where}) but is not in ModelProto.functions")
    names = Counter(f.name for f in order)
    same_name_two_domains = any(
        len({g.function_ir.domain for g in order if g.name == n}) > 1 for n, c in names.items() if c > 1)
    same_ident_two_objects = any(len(v) > 1 for v in ident_to_ref.values())
    # counters
    stats["env_worlds"] += 1
    stats["env_functions_reachable"] += len(order)
    stats[f"env_reachable_{min(len(order), 4)}{'+' if len(order) >= 4 else ''}"] += 1
    if same_name_two_domains:
        stats["env_same_name_two_domains"] += 1
    if same_ident_two_objects:
        stats["env_same_identifier_two_objects"] += 1
    main_domains = domains_used(fp.node, set())
    if "" not in main_domains:
        stats["env_main_without_default_domain"] += 1
        if any("" in domains_used(f.to_function_proto().node, set()) for f in order):
            stats["env_default_domain_from_function"] += 1
        elif "opset_version" in w.kwargs:
            stats["env_default_domain_from_opset_version"] += 1
        else:
            stats["env_default_domain_from_installed_onnx"] += 1
    if any(f.function_ir.domain in main_domains for f in order):
        stats["env_function_domain_already_imported"] += 1
    if any(f.function_ir.domain not in main_domains for f in order):
        stats["env_function_domain_added_by_loop"] += 1
    if len(mp.functions) < len(order):
        stats["env_dict_dropped_a_function"] += 1
    return {"line": " ".join(toks), "real": real, "problems": problems,
            "n_funcs": len(order), "ref_ident": ref_ident}


def canon(answer: str, ref_ident: list[str]) -> str:
    """The model's answer with function references replaced by identifiers."""
    out = []
    for tok in answer.strip().split(" "):
        if tok.startswith("functions="):
            refs = [r for r in tok[len("functions="):].split(",") if r]
            out.append("functions=" + ",".join(ref_ident[int(r)] if r.isdigit() and int(r) < len(ref_ident) else "?"
                                               for r in refs))
        elif tok.startswith("f") and "=" in tok and tok[1:tok.index("=")].isdigit():
            r = int(tok[1:tok.index("=")])
            out.append(f"f[{ref_ident[r] if r < len(ref_ident) else '?'}]" + tok[tok.index("="):])
        else:
            out.append(tok)
    return " ".join(out)


def run_stream(run, driver, n: int, stats: Counter, features: Counter, only_src: str | None = None,
               only_kwargs: dict | None = None):
    """Generate, compile, tie and judge `n` worlds (plus the regression witness of C02-D1, which must pass).
    Returns (ties, failures)."""
    import onnx

    latest = onnx.defs.onnx_opset_version()
    if only_src is not None:
        w = World(only_src.split("def ")[-1].split("(")[0])
        w.src = only_src
        w.kwargs = dict(only_kwargs or {})
        worlds = [w]
    else:
        worlds = [witness_world()] + [gen_world(run.rng, f"e{k}") for k in range(n)]
    ties, failures = [], []
    lines, metas = [], []
    for start in range(0, len(worlds), 20):
        chunk = worlds[start:start + 20]
        # one module per chunk; each world compiled in its own try-block (a refusal does not lose the chunk)
        with warnings.catch_warnings():
            warnings.simplefilter("ignore")  # "Version conflict" (append_node) is counted from the IR instead
            fns, errs, modname = scriptgen.compile_functions([(w.name, w.src) for w in chunk], header_extra=HEADER)
        try:
            for w in chunk:
                meta = {"name": w.name, "src": w.src, "env": True, "kwargs": w.kwargs, "features": sorted(w.features)}
                if w.name in errs:
                    stats["env_refused"] += 1
                    stats["env_refused_" + errs[w.name][0]] += 1
                    failures.append({"meta": meta, "what": "a world of plain script functions calling each other is "
                                     f"refused by script(): {errs[w.name][0]}: {errs[w.name][1][:160]}"})
                    continue
                try:
                    res = check_world(w, fns[w.name], latest, stats)
                except ValueError as e:
                    stats["env_outside_model"] += 1
                    stats["env_outside_model_" + str(e)[:40]] += 1
                    continue
                for f in w.features:
                    features["env-" + f] += 1
                if res["problems"]:
                    failures.append({"meta": meta, "what": res["problems"][0], "all": res["problems"]})
                lines.append(res["line"])
                metas.append((meta, res))
        finally:
            scriptgen.release(modname)
    answers = driver.ask(lines) if lines else []
    for (meta, res), ans in zip(metas, answers):
        stats["env_ties"] += 1
        ans = canon(ans, res["ref_ident"])
        if ans.strip() != res["real"].strip():
            ties.append({"meta": meta, "tie": "import lists / function list of to_model_proto differ from "
                         "OV.C02.toModel", "real": res["real"], "model": ans})
    return ties, failures


REQUIRED_STATS = [
    "env_worlds", "env_ties", "env_same_name_two_domains", "env_main_without_default_domain",
    "env_default_domain_from_function", "env_default_domain_from_opset_version",
    "env_default_domain_from_installed_onnx", "env_function_domain_already_imported",
    "env_function_domain_added_by_loop", "env_two_versions_of_one_domain", "env_reachable_4+", "env_reachable_0",
]
REQUIRED_FEATURES = [
    "env-main-call-top", "env-main-call-branch", "env-main-call-loop", "env-callee-calls-callee",
    "env-helper-call-branch", "env-helper-call-loop", "env-main-custom-op-branch", "env-helper-custom-op-loop",
    "env-main-if-depth2", "env-main-loop-depth2", "env-opset_version-argument", "env-corpus-witness-C02-D1",
]
