"""C06 — case encoding, construction of the real pattern / host graph, canonical results.

A *case* is JSON: {"pattern": P, "graph": G, "root": int, "rm": bool}

P = {"cond": bool, "inputs": [name|None], "nodes": [N], "outputs": [V]}
N = {"dom": ["e"|"p", str], "op": ["e"|"p", str], "aoa": bool|None, "aoi": bool|None,
     "check": None|bool, "inputs": [V|None], "attrs": [[name, A]], "outputs": [name|None]}
V = ["V", id, name|None, canNone, check]      Var
  | ["W", id, check]                           bare ValuePattern made from a callable (unnamed)
  | ["A"]                                      ANY_VALUE
  | ["K", id, int | [int]]                     Constant
  | ["O", np, idx]                             output `idx` of node pattern `np`
  | ["OR", id, name|None, tagvar|None, tags|None, [V]]   OrValue(...)  (dispatch/backtracking is decided by the real code)
A = ["c", value] | ["v", name|None, canNone]
G = {"nodes": [{"dom","op","ov","inputs":[vid|None],"attrs":[[name, ty, val]],"outputs":[vid]}],
     "outputs":[vid], "consts":[[vid, shape, data]], "foreign":[vid], "foreign_kind": "free"|"outer", "ext":[vid]}
"""
from __future__ import annotations

import json

import numpy as np

# --------------------------------------------------------------------------- driver line


# constant values travel to the Lean driver as integers in units of 1e-6; tolerances as exact fractions
SCALE = 10**6
TOLS = {1e-5: (1, 10**5), 1e-8: (1, 10**8), 1e-2: (1, 10**2), 1e-3: (1, 10**3), 0.0: (0, 1)}
DEFAULT_REL, DEFAULT_ABS = 1e-5, 1e-8


def _sc(v) -> int:
    return int(round(v * SCALE))


def _tol(t) -> str:
    if t in TOLS:
        return f"{TOLS[t][0]}/{TOLS[t][1]}"
    return f"?{t!r}"


def k_explicit(v):
    """the tolerances written in a ["K", id, value(, rel|None, abs|None)] pattern (None = not given)"""
    return (v[3] if len(v) > 3 else None, v[4] if len(v) > 4 else None)


def k_tols(v):
    """(rel_tol, abs_tol) a Constant pattern ends up with — the defaults of `Constant.__init__` restated:
    integer literals are matched exactly (0/0), float literals within 1e-5/1e-8, each tolerance independently"""
    vals = v[2] if isinstance(v[2], list) else [v[2]]
    exact = all(isinstance(x, int) and not isinstance(x, bool) for x in vals)
    rel, ab = k_explicit(v)
    return ((0.0 if exact else DEFAULT_REL) if rel is None else rel, (0.0 if exact else DEFAULT_ABS) if ab is None else ab)


def _n(x):
    return "_" if x is None else str(x)


def _b(x):
    return "_" if x is None else ("1" if x else "0")


def _ints(l):
    return ",".join(str(int(i)) for i in l)


def op_identifier(node):
    """NodePattern._op_identifier as the real constructor computes it (both constant patterns)."""
    if node["dom"][0] == "e" and node["op"][0] == "e":
        return (node["dom"][1], node["op"][1])
    return None


def or_is_dispatch(v, pattern):
    """OrValue's make_op_id_or_pattern decision, restated for the encoder."""
    seen = set()
    for alt in v[5]:
        if alt[0] != "O":
            return False
        ident = op_identifier(pattern["nodes"][alt[1]])
        if ident is None or ident in seen:
            return False
        seen.add(ident)
    return True


def enc_vpat(v, pattern) -> list[str]:
    k = v[0]
    if k == "V":
        return [f"V:{v[1]}:{_n(v[2])}:1:{_b(bool(v[3]))}:{_b(v[4])}"]
    if k == "W":
        return [f"V:{v[1]}:_:0:0:{_b(v[2])}"]
    if k == "A":
        return ["A"]
    if k == "K":
        rel, ab = k_tols(v)
        if isinstance(v[2], list):
            return [f"K:{v[1]}:l:{','.join(str(_sc(i)) for i in v[2])}:{_tol(rel)}:{_tol(ab)}"]
        return [f"K:{v[1]}:s:{_sc(v[2])}:{_tol(rel)}:{_tol(ab)}"]
    if k == "O":
        return [f"O:{v[1]}:{v[2]}"]
    if k == "OR":
        _, vid, name, tagvar, tags, alts = v
        tagvals = list(tags) if tags is not None else list(range(len(alts)))
        if or_is_dispatch(v, pattern):
            parts = []
            for t, alt in zip(tagvals, alts):
                d, o = op_identifier(pattern["nodes"][alt[1]])
                parts.append(f"{d};{o};{t};{alt[1]};{alt[2]}")
            return [f"D:{vid}:{_n(name)}:{_n(tagvar)}:" + "/".join(parts)]
        out = [f"B:{vid}:{_n(name)}:{_n(tagvar)}:{len(alts)}"]
        for t, alt in zip(tagvals, alts):
            out.append(f"t:{t}")
            out += enc_vpat(alt, pattern)
        return out
    raise ValueError(v)


def enc_apat(a) -> str:
    if a[0] == "v":
        return f"v:{_n(a[1])}:{_b(bool(a[2]))}"
    val = a[1]
    if isinstance(val, str):
        return f"c:s:{val}"
    if isinstance(val, (int, float)):
        return f"c:n:{int(val)}"
    if all(isinstance(i, str) for i in val) and len(val) > 0:
        return "c:ss:" + ",".join(val)
    return "c:ns:" + _ints(val)


def enc_pattern(p) -> list[str]:
    t = ["P", _b(p["cond"]), str(len(p["inputs"]))] + [_n(i) for i in p["inputs"]]
    t.append(str(len(p["nodes"])))
    for n in p["nodes"]:
        aoa = True if n.get("aoa") is None else n["aoa"]
        aoi = False if n.get("aoi") is None else n["aoi"]
        t += ["N", f"{n['dom'][0]}:{n['dom'][1]}", f"{n['op'][0]}:{n['op'][1]}", _b(aoa), _b(aoi), _b(n.get("check"))]
        t.append(str(len(n["inputs"])))
        for i in n["inputs"]:
            t += ["-"] if i is None else enc_vpat(i, p)
        t.append(str(len(n["attrs"])))
        for name, a in n["attrs"]:
            t += [name, enc_apat(a)]
        t.append(str(len(n["outputs"])))
        t += [_n(o) for o in n["outputs"]]
    t.append(str(len(p["outputs"])))
    for o in p["outputs"]:
        t += enc_vpat(o, p)
    return t


def enc_attr(ty, val) -> str:
    if ty in ("i", "f"):
        return f"{ty}:{int(val)}"
    if ty == "s":
        return f"s:{val}"
    if ty in ("is", "fs"):
        return f"{ty}:{_ints(val)}"
    return "ss:" + ",".join(val)


def enc_graph(g) -> list[str]:
    t = ["G", str(len(g["nodes"]))]
    for n in g["nodes"]:
        t += ["M", n["dom"] or "_", n["op"], n.get("ov") or "_", str(len(n["inputs"]))]
        t += ["-" if i is None else str(i) for i in n["inputs"]]
        t.append(str(len(n["attrs"])))
        for name, ty, val in n["attrs"]:
            t += [name, enc_attr(ty, val)]
        t.append(str(len(n["outputs"])))
        t += [str(o) for o in n["outputs"]]
    t.append(str(len(g["outputs"])))
    t += [str(o) for o in g["outputs"]]
    t.append(str(len(g["consts"])))
    for vid, shape, data in g["consts"]:
        t += [str(vid), ",".join(map(str, shape)) or "-", ",".join(str(_sc(i)) for i in data) or "_"]
    t.append(str(len(g.get("foreign", []))))
    t += [str(v) for v in g.get("foreign", [])]
    t.append(str(len(g.get("ext", []))))
    t += [str(v) for v in g.get("ext", [])]
    return t


# which revision of two repaired spots the model restates (F1: _match_node fails the match on missing outputs,
# /repo 778bd07; F7a: BacktrackingOr.clone without tag_var, /repo e372708).  Pinned to the repaired, committed
# revision; c06.check_fixed_findings() reports a VIOLATION if the working tree shows the pre-fix behaviour.
FLAGS = "111111111"


def case_line(mode: str, case, pattern_tokens=None, graph_tokens=None) -> str:
    mode = f"{mode}/{FLAGS}"
    pt = pattern_tokens if pattern_tokens is not None else enc_pattern(case["pattern"])
    gt = graph_tokens if graph_tokens is not None else enc_graph(case["graph"])
    return " ".join([mode, _b(case["rm"]), str(case["root"])] + pt + gt)


# --------------------------------------------------------------------------- real objects


class BuiltPattern:
    def __init__(self, graph_pattern, pattern, node_index, err=None):
        self.graph_pattern = graph_pattern
        self.pattern = pattern  # onnxscript.rewriter.pattern.Pattern
        self.node_index = node_index  # id(NodePattern) -> np
        self.err = err


def build_pattern(p) -> BuiltPattern:
    """Build the pattern with the public pattern API."""
    from onnxscript.rewriter import _pattern_ir as PI
    from onnxscript.rewriter import pattern as P

    if p.get("via") == "callable":
        return build_pattern_via_callable(p)
    objs: dict = {}
    nodes: list = []
    builders: dict = {}

    def builder(dom):
        key = tuple(dom)
        if key not in builders:
            builders[key] = P.OpsetPatternBuilder(dom[1] if dom[0] == "e" else PI.PrefixPattern(dom[1]), record=True)
        return builders[key]

    def const_fn(b):
        return lambda context, x: b

    def mk(v):
        k = v[0]
        if k == "A":
            return P.ANY_VALUE
        if k == "O":
            return nodes[v[1]].outputs[v[2]]
        key = (k, v[1])
        if key in objs:
            return objs[key]
        if k == "V":
            o = P.Var(v[2], check=None if v[4] is None else const_fn(v[4]), can_match_none=bool(v[3]))
        elif k == "W":
            o = const_fn(v[2])  # a callable input: _to_value_pattern makes ValuePattern(None, check=f)
            return o  # a fresh ValuePattern object per use (ids are unique by construction)
        elif k == "K":
            rel, ab = k_explicit(v)
            kw = {}
            if rel is not None:
                kw["rel_tol"] = rel
            if ab is not None:
                kw["abs_tol"] = ab
            o = P.Constant(v[2], **kw)  # tolerances not written are left to Constant.__init__'s defaults
        elif k == "OR":
            _, vid, name, tagvar, tags, alts = v
            o = P.OrValue([mk(a) for a in alts], name=name, tag_var=tagvar, tag_values=tags)
        else:
            raise ValueError(v)
        objs[key] = o
        return o

    for n in p["nodes"]:
        b = builder(n["dom"])
        opb = getattr(b, n["op"][1]) if n["op"][0] == "e" else b.submodule(n["op"][1])
        kwargs = {}
        for name, a in n["attrs"]:
            kwargs[name] = P.AttrVar(a[1], can_match_none=bool(a[2])) if a[0] == "v" else a[1]
        ins = [None if i is None else mk(i) for i in n["inputs"]]
        out = opb(
            *ins,
            _outputs=list(n["outputs"]),
            _allow_other_attributes=n.get("aoa"),
            _allow_other_inputs=n.get("aoi"),
            _check=None if n.get("check") is None else const_fn(n["check"]),
            **kwargs,
        )
        first = out if len(n["outputs"]) == 1 else out[0]
        nodes.append(first.producer())
    outs = []
    for o in p["outputs"]:
        x = mk(o)
        if callable(x) and not isinstance(x, PI.ValuePattern):
            x = PI._to_value_pattern(x)
        outs.append(x)
    inputs = [P.Var(nm) for nm in p["inputs"]]
    node_index = {id(n): i for i, n in enumerate(nodes)}
    try:
        gp = PI.GraphPattern(inputs, outs, nodes)
    except NotImplementedError:
        return BuiltPattern(None, None, node_index, err="CTOR-ERR")
    cond = p["cond"]
    pat = P.Pattern(gp, (lambda context, **kw: cond))
    return BuiltPattern(gp, pat, node_index)


def _np_const(data, shape):
    dt = np.int64 if all(float(x).is_integer() for x in data) else np.float64
    return np.array(data, dtype=dt).reshape(shape)


def callable_eligible(p) -> bool:
    """patterns that can be written as a pattern function `def pattern(op, x, y, ...)`: no prefix domain"""
    return all(n["dom"][0] == "e" for n in p["nodes"]) and all(
        isinstance(i, str) and i.isidentifier() for i in p["inputs"]) and len(set(p["inputs"])) == len(p["inputs"])


def build_pattern_via_callable(p) -> BuiltPattern:
    """The same pattern through the documented entry point: a pattern *function* handed to `Pattern(...)`, which
    `_to_graph_pattern` turns into a GraphPattern (parameters become `Var`s, the builder records the nodes, a single
    returned value is normalised to a list)."""
    from onnxscript.rewriter import _pattern_ir as PI
    from onnxscript.rewriter import pattern as P

    state: dict = {}

    def const_fn(b):
        return lambda context, x: b

    def body(op, params):
        objs: dict = {}
        nodes: list = []

        def mk(v):
            k = v[0]
            if k == "A":
                return P.ANY_VALUE
            if k == "O":
                return nodes[v[1]].outputs[v[2]]
            key = (k, v[1])
            if key in objs:
                return objs[key]
            if k == "V":
                if v[2] in params and not v[3] and v[4] is None:
                    o = params[v[2]]  # the Var that _to_graph_pattern made for the parameter
                else:
                    o = P.Var(v[2], check=None if v[4] is None else const_fn(v[4]), can_match_none=bool(v[3]))
            elif k == "W":
                return const_fn(v[2])
            elif k == "K":
                rel, ab = k_tols(v)
                o = P.Constant(v[2], rel_tol=rel, abs_tol=ab)
            elif k == "OR":
                _, vid, name, tagvar, tags, alts = v
                o = P.OrValue([mk(a) for a in alts], name=name, tag_var=tagvar, tag_values=tags)
            else:
                raise ValueError(v)
            objs[key] = o
            return o

        for n in p["nodes"]:
            opb = getattr(op, n["op"][1]) if n["op"][0] == "e" else op.submodule(n["op"][1])
            kwargs = {}
            for name, a in n["attrs"]:
                if a[0] == "v":
                    if a[1] in params and not a[2]:
                        kwargs[name] = params[a[1]]  # a Var in attribute position: _to_attr_pattern makes an AttrVar
                    else:
                        kwargs[name] = P.AttrVar(a[1], can_match_none=bool(a[2]))
                else:
                    kwargs[name] = a[1]
            ins = [None if i is None else mk(i) for i in n["inputs"]]
            out = opb(
                *ins,
                _domain=None if n["dom"][1] == "" else n["dom"][1],
                _outputs=list(n["outputs"]),
                _allow_other_attributes=n.get("aoa"),
                _allow_other_inputs=n.get("aoi"),
                _check=None if n.get("check") is None else const_fn(n["check"]),
                **kwargs,
            )
            first = out if len(n["outputs"]) == 1 else out[0]
            nodes.append(first.producer())
        outs = []
        for o in p["outputs"]:
            x = mk(o)
            if callable(x) and not isinstance(x, PI.ValuePattern):
                x = PI._to_value_pattern(x)
            outs.append(x)
        state["nodes"] = nodes
        return outs[0] if len(outs) == 1 else outs

    names = list(p["inputs"])
    src = f"def _pattern(op{''.join(', ' + n for n in names)}):\n    return _body(op, dict({', '.join(f'{n}={n}' for n in names)}))\n"
    ns = {"_body": body}
    exec(src, ns)  # noqa: S102 - builds a function with the pattern's parameter names
    cond = p["cond"]
    try:
        pat = P.Pattern(ns["_pattern"], (lambda context, **kw: cond))
    except NotImplementedError:
        return BuiltPattern(None, None, {}, err="CTOR-ERR")
    gp = pat._target_pattern
    node_index = {id(n): i for i, n in enumerate(state["nodes"])}
    assert [id(n) for n in gp] == [id(n) for n in state["nodes"]], "builder recorded the nodes in another order"
    return BuiltPattern(gp, pat, node_index)


class BuiltGraph:
    def __init__(self, model, graph, nodes, vid_of):
        self.model = model
        self.graph = graph
        self.nodes = nodes
        self.vid_of = vid_of  # id(ir.Value) -> vid
        self.keep = []  # objects that must stay alive (outer graph, external consumers)
        self.node_index = {id(n): i for i, n in enumerate(nodes)}


def _mk_nodes(g, values: dict, consts: dict) -> list:
    """fresh ir.Node objects for g["nodes"]; `values` (vid -> ir.Value) is extended with their outputs"""
    import onnx_ir as ir

    nodes = []
    for k, n in enumerate(g["nodes"]):
        attrs = []
        for name, ty, val in n["attrs"]:
            if ty == "i":
                attrs.append(ir.AttrInt64(name, int(val)))
            elif ty == "f":
                attrs.append(ir.AttrFloat32(name, float(val)))
            elif ty == "s":
                attrs.append(ir.AttrString(name, val))
            elif ty == "is":
                attrs.append(ir.AttrInt64s(name, [int(i) for i in val]))
            elif ty == "fs":
                attrs.append(ir.AttrFloat32s(name, [float(i) for i in val]))
            else:
                attrs.append(ir.AttrStrings(name, list(val)))
        node = ir.Node(
            n["dom"],
            n["op"],
            [None if i is None else values[i] for i in n["inputs"]],
            attrs,
            overload=n.get("ov") or "",
            num_outputs=len(n["outputs"]),
            name=f"n{k}",
        )
        for vid, ov in zip(n["outputs"], node.outputs):
            ov.name = f"v{vid}"
            values[vid] = ov
            if vid in consts:
                shape, data = consts[vid]
                ov.const_value = ir.tensor(_np_const(data, shape), name=f"v{vid}")
        nodes.append(node)
    return nodes


def graph_leaves(g) -> set:
    produced = {o for n in g["nodes"] for o in n["outputs"]}
    leafs = {i for n in g["nodes"] for i in n["inputs"] if i is not None and i not in produced}
    leafs.update(o for o in g["outputs"] if o not in produced)
    leafs.update(v for v, _, _ in g["consts"] if v not in produced)
    return leafs


def rebuild_in_place(bg: "BuiltGraph", g2) -> None:
    """Edit the host graph IN PLACE: the ir.Graph / ir.Model objects (and the leaf values: graph inputs,
    initializers, foreign values) stay, every node is replaced by a fresh ir.Node built from `g2` (a k-for-k
    replacement when the node counts agree), graph outputs and external consumers are re-attached.  `g2` must have
    the leaves of the graph `bg` was built from (same consts / foreign / foreign_kind)."""
    import onnx_ir as ir

    graph = bg.graph
    leafs = graph_leaves(g2)
    old_produced = {bg.vid_of[id(o)] for n in bg.nodes for o in n.outputs}
    if not leafs <= (set(bg.values) - old_produced):
        raise ValueError("rebuild_in_place: the edited graph has other leaves than the built one")
    ext_nodes = [k for k in bg.keep if isinstance(k, ir.Node) and k.op_type == "ExternalUse"]
    for n in list(bg.nodes) + ext_nodes:
        for k in range(len(n.inputs)):
            n.replace_input_with(k, None)
    graph.outputs.clear()
    graph.remove(list(bg.nodes), safe=False)
    bg.keep = [k for k in bg.keep if not (isinstance(k, ir.Node) and k.op_type == "ExternalUse")]
    values = {vid: v for vid, v in bg.values.items() if vid not in old_produced}
    consts = {vid: (shape, data) for vid, shape, data in g2["consts"]}
    nodes = _mk_nodes(g2, values, consts)
    graph.extend(nodes)
    graph.outputs.extend(values[o] for o in g2["outputs"])
    for vid in g2.get("ext", []):
        bg.keep.append(ir.Node("", "ExternalUse", [values[vid]], name=f"ext{vid}"))
    bg.nodes = nodes
    bg.values = values
    bg.vid_of = {id(v): vid for vid, v in values.items()}
    bg.node_index = {id(n): i for i, n in enumerate(nodes)}


def build_graph(g) -> BuiltGraph:
    import onnx_ir as ir

    produced = set()
    for n in g["nodes"]:
        produced.update(n["outputs"])
    foreign = set(g.get("foreign", []))
    consts = {vid: (shape, data) for vid, shape, data in g["consts"]}
    values: dict = {}
    keep = []
    graph_inputs, initializers = [], []
    leafs = set()
    for n in g["nodes"]:
        for i in n["inputs"]:
            if i is not None and i not in produced:
                leafs.add(i)
    for o in g["outputs"]:
        if o not in produced:
            leafs.add(o)
    leafs.update(v for v in consts if v not in produced)
    outer_nodes = []
    for vid in sorted(leafs):
        if vid in foreign and g.get("foreign_kind") == "outer":
            src = ir.Value(name=f"o{vid}")
            on = ir.Node("", "Outer", [src], name=f"outer{vid}")
            outer_nodes.append((src, on))
            v = on.outputs[0]
            v.name = f"v{vid}"
        else:
            v = ir.Value(name=f"v{vid}")
        values[vid] = v
        if vid in consts:
            shape, data = consts[vid]
            v.const_value = ir.tensor(_np_const(data, shape), name=f"v{vid}")
        if vid in foreign:
            continue
        if vid in consts:
            initializers.append(v)
        else:
            graph_inputs.append(v)
    nodes = _mk_nodes(g, values, consts)
    graph = ir.Graph(
        graph_inputs,
        [values[o] for o in g["outputs"]],
        nodes=nodes,
        initializers=initializers,
        opset_imports={"": 18},
        name="g",
    )
    model = ir.Model(graph, ir_version=9)
    bg = BuiltGraph(model, graph, nodes, {id(v): vid for vid, v in values.items()})
    if outer_nodes:
        og = ir.Graph([s for s, _ in outer_nodes], [], nodes=[n for _, n in outer_nodes], name="outer")
        bg.keep.append(og)
    for vid in g.get("ext", []):
        bg.keep.append(ir.Node("", "ExternalUse", [values[vid]], name=f"ext{vid}"))
    bg.values = values
    return bg


# --------------------------------------------------------------------------- canonical results


def show_attr(a) -> str:
    import onnx_ir as ir

    t = a.type
    if t == ir.AttributeType.INT:
        return f"i:{int(a.value)}"
    if t == ir.AttributeType.FLOAT:
        return f"f:{int(a.value)}"
    if t == ir.AttributeType.STRING:
        return f"s:{a.value}"
    if t == ir.AttributeType.INTS:
        return "is:" + _ints(a.value)
    if t == ir.AttributeType.FLOATS:
        return "fs:" + _ints(a.value)
    if t == ir.AttributeType.STRINGS:
        return "ss:" + ",".join(a.value)
    return f"?{t}"


def show_bound(x, bg: BuiltGraph) -> str:
    import onnx_ir as ir

    if x is None:
        return "N"
    if isinstance(x, ir.Value):
        return f"v{bg.vid_of.get(id(x), '?')}"
    if isinstance(x, ir.Attr):
        return f"a({x.name};{show_attr(x)})"
    if isinstance(x, bool):
        return f"t{int(x)}"
    if isinstance(x, int):
        return f"t{x}"
    return f"?{type(x).__name__}"


def show_match(m, bg: BuiltGraph) -> str:
    if not m:
        return "M0"
    b = " ".join(f"{k}={show_bound(v, bg)}" for k, v in m.bindings.items())
    n = ",".join(str(bg.node_index.get(id(x), "?")) for x in m.nodes)
    o = " ".join(show_bound(v, bg) for v in m.outputs)
    return f"M1 | {b} | {n} | {o}"


def run_real(bp: BuiltPattern, bg: BuiltGraph, root: int, rm: bool) -> str:
    if bp.err:
        return bp.err
    on = ",".join(str(bp.node_index[id(n)]) for n in bp.graph_pattern.output_nodes)
    try:
        m = bp.pattern.match(bg.model, bg.graph, bg.nodes[root], check_nodes_are_removable=rm)
    except Exception as e:  # noqa: BLE001 - an exception is an observable outcome here
        return f"on={on} EXC:{type(e).__name__}"
    return f"on={on} " + show_match(m, bg)


def show_consts(gp) -> str:
    """the Constant patterns of a GraphPattern: per node, in input order (through BacktrackingOr alternatives)"""
    from onnxscript.rewriter import _pattern_ir as PI

    def walk(v, out):
        if isinstance(v, PI.Constant):
            val = v._value
            head = ("l" + ",".join(str(_sc(i)) for i in val)) if isinstance(val, list) else f"s{_sc(val)}"
            out.append(f"{head}~{_tol(v._rel_tol)}~{_tol(v._abs_tol)}")
        elif isinstance(v, PI.BacktrackingOr):
            for a in v._values:
                walk(a, out)

    parts = []
    for n in gp:
        out: list = []
        for i in n.inputs:
            if i is not None:
                walk(i, out)
        parts.append(",".join(out))
    return ";".join(parts)


def _dummy_replacement(op, **_):
    return None  # never evaluated: only the match half of try_rewrite is run


def run_real_commute(bp: BuiltPattern, bg: BuiltGraph, root: int, rm: bool, cond: bool) -> str:
    """`RewriteRule(pattern, …, remove_nodes=rm).commute()` — the entry `RewriteRuleSet(commute=True)` uses — then
    every variant rule matched the way `try_rewrite` does it: `rule.match(…, check_nodes_are_removable=
    rule.remove_nodes)`.  Each variant has its own fresh default matcher (`matcher_class(new_pattern)`)."""
    from onnxscript.rewriter import pattern as P

    if bp.err:
        return bp.err
    try:
        rule = P.RewriteRule(bp.graph_pattern, _dummy_replacement, (lambda context, **kw: cond), remove_nodes=rm)
        variants = rule.commute()
    except AssertionError:
        return "ERR:assertion"
    except NotImplementedError:
        return "ERR:notimplemented"
    except ValueError:
        return "ERR:valueerror"
    except Exception as e:  # noqa: BLE001
        return f"EXC:{type(e).__name__}"
    outs = []
    for v in variants:
        gp = v._target_pattern
        try:
            m = v.match(bg.model, bg.graph, bg.nodes[root], check_nodes_are_removable=v.remove_nodes)
            outs.append(show_match(m, bg) + " #K " + show_consts(gp))
        except Exception as e:  # noqa: BLE001
            outs.append(f"EXC:{type(e).__name__}" + " #K " + show_consts(gp))
    return f"K{len(variants)}" + "".join(" || " + o for o in outs)


COMMUTATIVE_OPS = {"Add", "Mul", "And", "Or", "Xor", "BitwiseAnd", "BitwiseOr", "BitwiseXor", "Equal", "Max", "Mean",
                   "Min", "Sum"}


def commute_masks(p):
    """the swap masks in itertools.product order (the property's own reading of "commutative operators")"""
    import itertools

    space = []
    for n in p["nodes"]:
        ident = op_identifier(n)
        ok = ident is not None and ident[0] == "" and ident[1] in COMMUTATIVE_OPS
        if len(FLAGS) > 3 and FLAGS[3] == "1":  # repair C06-F7b: only nodes written with two inputs are swapped
            ok = ok and len(n["inputs"]) == 2
        space.append([False, True] if ok else [False])
    return list(itertools.product(*space))


def swapped_pattern(p, mask):
    """the pattern with the operands of the masked (binary) nodes swapped; object ids are kept"""
    import copy

    q = copy.deepcopy(p)
    for n, b in zip(q["nodes"], mask):
        if b:
            if len(n["inputs"]) != 2:
                return None
            n["inputs"] = [n["inputs"][1], n["inputs"][0]]
    return q


def commute_oracle_applies(p) -> bool:
    """single output node, no unnamed object used twice (clone un-shares those), few variants"""
    from collections import Counter

    outs = p["outputs"]
    if not outs or any(o[0] != "O" for o in outs) or len({o[1] for o in outs}) != 1:
        return False
    cnt: Counter = Counter()

    def rec(v):
        if v[0] in ("K", "OR", "W") or (v[0] == "V" and v[2] is None):
            cnt[v[1]] += 1
        if v[0] == "OR":
            for a in v[5]:
                rec(a)

    for n in p["nodes"]:
        for i in n["inputs"]:
            if i is not None:
                rec(i)
    if any(c > 1 for c in cnt.values()):
        return False
    masks = commute_masks(p)
    return 1 < len(masks) <= 8 and all(swapped_pattern(p, m) is not None for m in masks)


def dumps(case) -> str:
    return json.dumps(case, sort_keys=True, separators=(",", ":"))
