"""C15 — a ModelProto and an IR model are treated alike, and nothing untouched is lost.

Proof obligations: lean/OV/Props/C15.lean over lean/OV/Model/C15Wrappers.lean — the *plumbing* of the
dual-entry wrappers (which carrier of the result comes from where, which object is mutated, what is
returned), for every serde, every transformation, every model.  onnx_ir's serde is a CONTRACT there.

Tie, re-established on every run against /repo's working tree and the installed onnx_ir:
  stream 1  serde contract validation: generated ModelProtos (all element types, odd payloads, metadata on
            every carrier, …): M ⊑ N(M) field by field, N(N(M)) = N(M) bytes, de leaves M untouched, payload
            bytes seen through the IR equal the proto's.
  stream 2  wrapper correspondence: every API × both entry forms on the same generated model and options;
            real proto-entry result vs ser(real IR-entry result); per carrier, where the content came from
            (caller's bytes / serialised IR result / emptied) vs the Lean driver's symbolic evaluation of
            `protoPath`/`irPath`; carriers changed vs the Lean `touches` frame; argument mutated / returned
            object identity vs the Lean `Outcome`.
The property's own oracle (proto = ser∘ir∘de up to map order and explicit defaults; untouched carriers
survive; in-place/pure) is evaluated on the real code for every case; a failure is a VIOLATION with the
shrunk model as replay unless it lies inside an open known finding's predicate.
"""
from __future__ import annotations

import copy
import json
import logging
import os
import random
import re
import shutil
import tempfile
import warnings
from collections import Counter

from harness import c15_api, c15_cmp, c15_fields, c15_gen, core, extract_c15

PROP_MODULES = ["OV.Props.C15", "OV.Props.C15Fields"]

DRIVER_API = {
    "optimize": "optimize", "fold_constants": "fold_constants", "remove_unused_nodes": "remove_unused_nodes",
    "remove_unused_functions": "remove_unused_functions", "rewrite_default": "rewrite_rules",
    "rewrite_empty": "rewrite_empty", "rewrite_rules": "rewrite_rules", "convert_version": "convert_version",
    "replace_functions": "replace_functions", "replace_functions_keep": "replace_functions",
}
SER_EXPR = "ser(T(de(M)))"

# --------------------------------------------------------------------------- known-finding predicates

TMETA_RE = re.compile(r"(initializer\[[^\]]*\]|\.t|\.tensors\[\d+\])\.metadata_props\[")
FALLBACK_RE = re.compile(r"(^|\.)metadata_props\[|(input|output|value_info)\[[^\]]*\]\.doc_string$|node\[\d+\]\.doc_string$")


def pred_tmeta(d) -> bool:
    """C15-TMETA: an inline TensorProto's metadata_props entry is written twice by serialize_tensor_into."""
    path, kind, detail = d
    return kind == "changed" and bool(TMETA_RE.search(path)) and detail.startswith("multiplicity")


def pred_sparse(d) -> bool:
    """C15-SPARSE: graph.sparse_initializer / model.training_info have no IR counterpart and are dropped."""
    path, kind, _ = d
    return path in ("graph.sparse_initializer", "training_info") or path.startswith(("graph.sparse_initializer[", "training_info["))


ALIAS_RE = re.compile(r"(\.t|\.tensors\[\d+\]|\.sparse_tensor\.(values|indices))\.name$")


def pred_alias(d) -> bool:
    """C15-ALIAS: an attribute TensorProto of the caller's proto gets its `name` written by the IR (write-through)."""
    path, kind, _ = d
    return kind in ("added", "changed") and bool(ALIAS_RE.search(path))


def capi_path_taken(opset: int, o: dict) -> bool:
    """convert_version falls through to onnx's C API (fallback=True and the converter does not support the step)."""
    t = o.get("target_version")
    return bool(o.get("fallback")) and t != opset and not (18 <= opset <= t <= 23)


def pred_fallback(api: str, opset: int, o: dict, d) -> bool:
    """C15-FALLBACK: the C-API path replaces the whole graph; metadata_props and value/node doc strings are gone."""
    path, kind, _ = d
    return api == "convert_version" and capi_path_taken(opset, o) and kind == "lost" and path.startswith("graph.") and bool(FALLBACK_RE.search(path))


VMETA_RE = re.compile(r"^graph\.value_info\['([^']*)'\]\.(metadata_props\[|doc_string$)")


def pred_fallback_vmeta(api: str, opset: int, o: dict, d, NM) -> bool:
    """C15-FALLBACK-VALUE-META: on the C-API route `_restore_metadata` matches values by graph input / node output only, so
    the value_info entry of an INITIALIZER that is not a graph input loses its metadata_props / doc_string.  Nothing else."""
    path, kind, _ = d
    m_ = VMETA_RE.match(path)
    if not (api == "convert_version" and capi_path_taken(opset, o) and kind == "lost" and m_):
        return False
    name = m_.group(1)
    return any(t_.name == name for t_ in NM.graph.initializer) and not any(i_.name == name for i_ in NM.graph.input)


# --------------------------------------------------------------------------- driver tables


def parse_path(line: str) -> dict:
    ret, arg, res = line.split(";")
    tab = lambda s: dict(kv.split("=", 1) for kv in s.split(":", 1)[1].split(","))
    return {"ret": ret.split("=")[1], "arg": tab(arg), "res": tab(res)}


def driver_tables(drv: core.Driver) -> dict:
    names = sorted(set(DRIVER_API.values()))
    lines = []
    for a in names:
        lines += [f"path {a} proto", f"path {a} ir", f"touches {a}"]
    lines += ["inline 0", "inline 1", "path convert_version_old proto"]
    rep_lines = [f"replace {e} {b}" for e in ("proto", "ir") for b in ("0", "1")]
    rep_outs = drv.ask(rep_lines)
    route_lines = [f"route {a} {e}" for a in ("optimize", "fold_constants", "convert_version") for e in ("proto", "ir")]
    route_outs = drv.ask(route_lines)
    outs = drv.ask(lines)
    t = {}
    for i, a in enumerate(names):
        if "bad-op" in outs[3 * i : 3 * i + 3]:
            raise core.Infra("driver rejected " + a)
        t[a] = {"proto": parse_path(outs[3 * i]), "ir": parse_path(outs[3 * i + 1]),
                "touches": set(filter(None, outs[3 * i + 2].split(",")))}
    t["_inline"] = {"0": outs[-3], "1": outs[-2]}
    t["_convert_old"] = parse_path(outs[-1])
    t["_replace"] = {}
    for ln, o_ in zip(rep_lines, rep_outs):
        if o_ == "bad-op":
            raise core.Infra("driver rejected " + ln)
        _, e, b = ln.split()
        t["_replace"][(e, b)] = dict(kv.split("=") for kv in o_.split(";"))
    # object tracking along call histories (`protoTrack`): every sequence of up to three driver APIs
    hist_names = [a for a in names if a != "replace_functions"]
    seqs = [(a,) for a in hist_names] + [(a, b) for a in hist_names for b in hist_names] \
        + [(a, b, c) for a in hist_names for b in hist_names for c in hist_names]
    track_outs = drv.ask(["track " + " ".join(sq) for sq in seqs])
    t["_track"] = {}
    for sq, o_ in zip(seqs, track_outs):
        if o_ == "bad-op" or "?" in o_:
            raise core.Infra(f"driver rejected track {sq}: {o_}")
        t["_track"][sq] = dict(kv.split("=") for kv in o_.split(";"))
    t["_route"] = {}
    for ln, o_ in zip(route_lines, route_outs):
        if o_ == "bad-op":
            raise core.Infra("driver rejected " + ln)
        _, a, e = ln.split()
        t["_route"][(a, e)] = dict(kv.split("<-") for kv in o_.split(","))
    return t


# --------------------------------------------------------------------------- stream 1: serde contract


def _payload_bytes_expected(t):
    """Raw little-endian payload of an inline raw_data tensor (None when stored otherwise)."""
    import onnx

    if t.data_location == onnx.TensorProto.EXTERNAL or not t.HasField("raw_data"):
        return None
    return t.raw_data


def serde_refuses(M):
    from onnxscript import ir

    if not any(a.type in (11, 12) for n in M.graph.node for a in n.attribute):  # SPARSE_TENSOR(S)
        return None
    try:
        ir.serde.deserialize_model(copy.deepcopy(M))
        return None
    except Exception as e:  # noqa: BLE001
        return type(e).__name__


def check_serde(M, stats: Counter) -> list:
    """Returns problems [(kind, finding_id|None, detail)] for one model; kind in {property}."""
    from onnxscript import ir

    problems = []
    if serde_refuses(M):
        stats["serde_refused_models"] += 1  # a loud refusal (NotImplementedError: sparse tensors), nothing is lost silently
        return problems
    before = M.SerializeToString(deterministic=True)
    m = ir.serde.deserialize_model(M)
    N1 = ir.serde.serialize_model(m)
    if M.SerializeToString(deterministic=True) != before:
        problems.append(("property", None, "deserialize/serialize mutated the source ModelProto"))
    def graphs(g, prefix):
        yield prefix, g
        for i, n in enumerate(g.node):
            for j, a in enumerate(n.attribute):
                if a.HasField("g"):
                    yield from graphs(a.g, f"{prefix}.node[{i}].attribute[{j}].g")
                for k_, sg in enumerate(a.graphs):
                    yield from graphs(sg, f"{prefix}.node[{i}].attribute[{j}].graphs[{k_}]")

    gm = dict(graphs(M.graph, "graph"))
    gn = dict(graphs(N1.graph, "graph"))
    inits = {t.name: t for t in M.graph.initializer}
    for p, k, det in c15_cmp.diff(M, N1):
        d = (p, k, det)
        stats["serde_diff_" + k] += 1
        if k in ("dropped-default",):
            continue
        if k == "added":
            mm = re.fullmatch(r"(graph(?:\.node\[\d+\]\.attribute\[\d+\]\.(?:g|graphs\[\d+\]))*)\.value_info\['([^']*)'\]", p)
            ginits = {t.name: t for t in gm[mm.group(1)].initializer} if mm and mm.group(1) in gm else {}
            if mm and mm.group(2) in ginits:
                vi = next(v for v in gn[mm.group(1)].value_info if v.name == mm.group(2))
                t = ginits[mm.group(2)]
                tt = vi.type.tensor_type
                if tt.elem_type == t.data_type and [x.dim_value for x in tt.shape.dim] == list(t.dims) and not vi.doc_string and not vi.metadata_props:
                    stats["serde_added_initializer_annotation"] += 1
                    continue
            problems.append(("property", None, f"N(M) has a field M does not: {p}"))
        elif pred_tmeta(d):
            problems.append(("property", "C15-TMETA", f"{p}: {det}"))
        elif pred_sparse(d):
            problems.append(("property", "C15-SPARSE", f"{p}: {k} {det}"))
        else:
            problems.append(("property", None, f"M is not included in N(M): {p} {k} {det}"))
    N2 = ir.serde.serialize_model(ir.serde.deserialize_model(N1))
    if N2.SerializeToString(deterministic=True) != N1.SerializeToString(deterministic=True):
        dd = c15_cmp.diff(N1, N2)
        fid = "C15-TMETA" if dd and all(pred_tmeta(x) for x in dd) else None
        problems.append(("property", fid, f"N(N(M)) != N(M): {[x[:2] for x in dd[:3]]}"))
    else:
        stats["serde_idempotent"] += 1
    # payload bytes as the IR sees them (every dtype incl. packed 4/2-bit, NaN payloads, -0.0, subnormals)
    for name, t in inits.items():
        exp = _payload_bytes_expected(t)
        if exp is None:
            continue
        v = m.graph.initializers.get(name)
        try:
            got = v.const_value.tobytes()
        except Exception as e:  # noqa: BLE001
            problems.append(("property", None, f"initializer {name} dtype {t.data_type}: tobytes raised {type(e).__name__}"))
            continue
        stats["payload_checked"] += 1
        stats[f"payload_dtype_{t.data_type}"] += 1
        if got != exp:
            problems.append(("property", None, f"initializer {name} dtype {t.data_type} dims {list(t.dims)}: IR payload bytes differ from raw_data"))
    return problems


# --------------------------------------------------------------------------- stream 2: wrappers


def _by_name(items):
    return {x.name: x for x in items if x.name}


def fine_untouched(NM, P) -> list:
    """Property's fine print: surviving initializers keep their payload; surviving nodes/values keep metadata+doc."""
    out = []
    a, b = _by_name(NM.graph.initializer), _by_name(P.graph.initializer)
    for n in a.keys() & b.keys():
        if a[n].SerializeToString(deterministic=True) != b[n].SerializeToString(deterministic=True):
            dd = c15_cmp.hard(c15_cmp.diff(a[n], b[n]))
            if dd:
                out.append((f"graph.initializer['{n}']{'.' + dd[0][0] if dd[0][0] else ''}", dd[0][1], dd[0][2]))
    a, b = _by_name(NM.graph.node), _by_name(P.graph.node)
    for n in a.keys() & b.keys():
        if a[n].op_type != b[n].op_type or a[n].domain != b[n].domain:
            continue
        idx = list(P.graph.node).index(b[n])
        ma = {e.key: e.value for e in a[n].metadata_props}
        mb = {e.key: e.value for e in b[n].metadata_props}
        for k in ma:
            if mb.get(k) != ma[k]:
                out.append((f"graph.node[{idx}].metadata_props['{k}']", "lost" if k not in mb else "changed", n))
        if a[n].doc_string and a[n].doc_string != b[n].doc_string:
            out.append((f"graph.node[{idx}].doc_string", "lost", n))
    def producers(g):
        d = {i.name: ("<input>", "") for i in g.input}
        d.update({t.name: ("<initializer>", "") for t in g.initializer})
        for nd in g.node:
            for o_ in nd.output:
                d[o_] = (nd.name, nd.op_type)
        return d

    pa, pb = producers(NM.graph), producers(P.graph)
    for fld in ("input", "output", "value_info"):
        a, b = _by_name(getattr(NM.graph, fld)), _by_name(getattr(P.graph, fld))
        for n in a.keys() & b.keys():
            if pa.get(n) != pb.get(n) or not pa.get(n, ("", ""))[0]:
                continue  # the value was re-created by the transformation (different producer): not "untouched"
            ma = {e.key: e.value for e in a[n].metadata_props}
            mb = {e.key: e.value for e in b[n].metadata_props}
            for k in ma:
                if mb.get(k) != ma[k]:
                    out.append((f"graph.{fld}['{n}'].metadata_props['{k}']", "lost", ""))
            if a[n].doc_string and a[n].doc_string != b[n].doc_string:
                out.append((f"graph.{fld}['{n}'].doc_string", "lost", ""))
    return out


def check_wrapper(api: str, M, o: dict, opset: int, tables: dict, stats: Counter) -> list:
    """Run one API on both entries.  Problems: (kind in {property, tie}, finding_id|None, detail)."""
    problems = []
    refusal = serde_refuses(M)
    if refusal:
        # onnx_ir refuses the model (sparse tensor attribute): every proto entry must raise that and change nothing
        stats["serde_refused_models"] += 1
        if api == "rewrite_empty":
            return problems
        Mp = copy.deepcopy(M)
        fns = None
        if api == "replace_functions":
            Mp, fns = c15_api.split_functions(Mp)
        elif api == "replace_functions_keep":
            fns = [c15_gen.triple_function(opset)]
        before = Mp.SerializeToString(deterministic=True)
        try:
            c15_api.call_proto(api, Mp, o, fns)
            problems.append(("property", None, f"{api}: deserialisation refuses the model ({refusal}) but the proto entry returned"))
        except Exception as e:  # noqa: BLE001
            if type(e).__name__ != refusal:
                problems.append(("tie", None, f"{api}: proto entry raised {type(e).__name__}, deserialisation raises {refusal}"))
        if Mp.SerializeToString(deterministic=True) != before:
            problems.append(("property", None, f"{api}: raised on an unsupported model but modified the caller's proto"))
        return problems
    ob = c15_api.observe(api, M, o)
    tab = tables[DRIVER_API[api]]
    M0, P, Q, NM = ob["M"], ob["P"], ob["Q"], ob["NM"]
    stats[f"api_{api}"] += 1
    # ---- errors: same on both entries, proto argument untouched
    if api in ("replace_functions", "replace_functions_keep"):
        # T0: the guard of replace_functions vs the Lean `protoReplace`/`irReplace`
        hasf = "1" if len(ob["M"].functions) else "0"
        stats[f"replace_guard_functions_{hasf}"] += 1
        for entry, err in (("proto", ob["err_p"]), ("ir", ob["err_i"])):
            want = tables["_replace"][(entry, hasf)]["ret"]
            if (want == "raised") != (err is not None):
                problems.append(("tie", None, f"{api} [{entry} entry] on a model {'with' if hasf == '1' else 'without'} local "
                                 f"functions: {'raised ' + str(err) if err else 'returned'}, model says ret={want}"))
    if ob["err_p"] or ob["err_i"]:
        stats[f"err_{api}_{ob['err_p']}"] += 1
        if ob["err_p"] != ob["err_i"]:
            problems.append(("property", None, f"{api}{o}: proto entry raised {ob['err_p']}, IR entry {ob['err_i']}"))
        if ob["proto"]["arg_mutated"]:
            problems.append(("property", None, f"{api}{o}: raised {ob['err_p']} but the caller's proto was modified"))
        return problems
    cM, cP, cQ = c15_cmp.carriers(M0), c15_cmp.carriers(P), c15_cmp.carriers(Q)

    # ---- O1: proto(f)(M) = ser(ir(f)(de M))   (up to map order / explicit defaults; empty rules: up to N)
    if api == "rewrite_empty":
        for d in c15_cmp.hard(c15_cmp.diff(P, Q)):
            if d[1] == "added" and re.search(r"(^graph|\.g|\.graphs\[\d+\])\.value_info\[[^\]]*\]$", d[0]):
                continue
            problems.append(("property", "C15-TMETA" if pred_tmeta(d) else "C15-SPARSE" if pred_sparse(d) else None,
                             f"rewrite(M, []) vs ser(rewrite(de M, [])): {d}"))
    else:
        for d in c15_cmp.canon_equal(P, Q)[:4]:
            # convert_version keeps the caller's training_info, which the IR entry cannot represent
            problems.append(("property", "C15-SPARSE" if pred_sparse(d) else None, f"{api}{o}: proto result != ser(IR result): {d}"))

    # ---- O2: what the transformation does not touch survives (vs N(M); caller-kept carriers vs M)
    touched = tab["touches"]
    hard_np = c15_cmp.hard(c15_cmp.diff(NM, P))
    caller_kept = {c for c, e in tab["proto"]["res"].items() if e in ("M", "M~")}
    if caller_kept - touched and any(cP[c] != cM[c] for c in caller_kept - touched):
        # never re-serialised by the wrapper: must still hold everything the caller had (byte identity is T2's business)
        for d in c15_cmp.hard(c15_cmp.diff(M0, P)):
            c = c15_cmp.carrier_of_path(d[0])
            if c in caller_kept - touched and not (d[1] == "added" and re.search(r"(^graph|\.g|\.graphs\[\d+\])\.value_info\[[^\]]*\]$", d[0])):
                fid = "C15-TMETA" if pred_tmeta(d) else None
                problems.append(("property", fid, f"{api}{o}: carrier {c} kept from the caller differs from M: {d}"))
    for d in hard_np:
        c = c15_cmp.carrier_of_path(d[0])
        stats[f"changed_{api}_{c}"] += 1
        if c in caller_kept:
            continue  # compared with M itself above (never re-serialised)
        if c not in touched:
            fid = "C15-FALLBACK" if pred_fallback(api, opset, o, d) else None
            problems.append(("property", fid, f"{api}{o}: untouched carrier {c} differs from N(M): {d}"))
    if capi_path_taken(opset, o) and api == "convert_version":
        stats["convert_capi_path"] += 1
    for d in ([] if api == "rewrite_empty" else fine_untouched(NM, P)):
        fid = "C15-FALLBACK-VALUE-META" if pred_fallback_vmeta(api, opset, o, d, NM) else "C15-FALLBACK" if pred_fallback(api, opset, o, d) else None
        problems.append(("property", fid, f"{api}{o}: surviving element lost content: {d}"))

    # ---- O2b: an initializer may disappear only together with its uses (payload never lost under a live value)
    def refs(g, acc):
        for nd in g.node:
            acc.update(i_ for i_ in nd.input if i_)
            for a in nd.attribute:
                if a.HasField("g"):
                    refs(a.g, acc)
                for sg in a.graphs:
                    refs(sg, acc)
        acc.update(o_.name for o_ in g.output)
        return acc

    for label, R in (("proto", P), ("IR", Q)):
        have = {t.name for t in R.graph.initializer}
        used = refs(R.graph, set())
        for t in NM.graph.initializer:
            if t.name not in have and t.name in used:
                stats["initializer_lost_under_live_value"] += 1
                problems.append(("property", None, f"{api}{o} [{label} entry]: initializer '{t.name}' ({list(t.dims)}) lost its payload "
                                 f"but the value is still used" + (" (now a required graph input)" if any(i_.name == t.name for i_ in R.graph.input) else "")))
        for t in NM.graph.initializer:
            if len(t.dims) and t.dims[0] * (t.dims[1] if len(t.dims) > 1 else 1) > 1000:
                stats[f"big_initializer_seen_{api}"] += 1
    # ---- O2c: replace_functions must not delete / change model-local functions it was not asked to replace
    if api in ("replace_functions", "replace_functions_keep"):
        given = set()  # (replace_functions: the model was stripped of its functions; _keep: only c15.repl::Triple is given)
        for label, R in (("proto", P), ("IR", Q)):
            after = {(f_.domain, f_.name, f_.overload): f_ for f_ in R.functions}
            for f_ in NM.functions:
                k_ = (f_.domain, f_.name, f_.overload)
                if k_ in given:
                    continue
                if k_ not in after:
                    problems.append(("property", None, f"{api} [{label} entry]: model-local function {k_} was not named in the replacement but is gone"))
                elif c15_cmp.hard(c15_cmp.diff(f_, after[k_])):
                    problems.append(("property", None, f"{api} [{label} entry]: model-local function {k_} was not named in the replacement but changed"))
    # ---- O3: in place or pure
    in_place = api in ("fold_constants", "remove_unused_nodes", "remove_unused_functions", "convert_version")
    pm = ob["proto"]
    if in_place:
        if pm["ret"] not in ("none", "aux"):
            problems.append(("property", None, f"{api}: in-place variant returned {pm['ret']}"))
        if not pm["arg_mutated"] and [d for d in c15_cmp.canon_equal(M0, Q) if not pred_sparse(d)]:
            # (a difference made only of fields the IR cannot carry — C15-SPARSE — is no evidence that the argument had to change)
            problems.append(("property", None, f"{api}{o}: in-place variant left its argument unchanged although the result differs"))
    else:
        if pm["arg_mutated"]:
            dd = c15_cmp.diff(M0, ob["Mp"])
            fid = "C15-ALIAS" if dd and all(pred_alias(x) for x in dd) else None
            stats["arg_written_through"] += 1
            problems.append(("property", fid, f"{api}{o}: non-in-place variant modified the caller's proto: {dd[:3]}"))
    if ob["ir"]["input_proto_mutated"]:
        # not an argument of the call (the IR entry's argument is the ir.Model): counted, not judged
        stats["ir_source_proto_written_through"] += 1
    if ob.get("fns_mutated"):
        problems.append(("property", None, "replace_functions modified the FunctionProtos it was given"))

    # ---- T1: return / identity vs the Lean Outcome
    if pm["ret"] != tab["proto"]["ret"]:
        problems.append(("tie", None, f"{api}: proto entry returned '{pm['ret']}', model says '{tab['proto']['ret']}'"))
    if ob["ir"]["ret"] != tab["ir"]["ret"]:
        problems.append(("tie", None, f"{api}: IR entry returned '{ob['ir']['ret']}', model says '{tab['ir']['ret']}'"))
    # ---- T2: per carrier, where the content came from
    empty = c15_cmp.carriers(type(M0)())
    for c in c15_cmp.CARRIERS:
        expr = tab["proto"]["res"][c]
        if cM[c] != cQ[c]:
            stats[f"discriminating_{api}"] += 1
        if expr in ("M", "M~"):  # the caller's content (`~`: reachable by the serde's write-through only on tensor carriers)
            ok = cP[c] == cM[c]
        elif expr == SER_EXPR:
            ok = cP[c] == cQ[c]
        elif expr == "empty":
            ok = cP[c] == empty[c]
        else:
            raise core.Infra(f"unknown driver expression {expr}")
        if not ok:
            src = "caller" if cP[c] == cM[c] else "serialised-IR" if cP[c] == cQ[c] else "neither"
            problems.append(("tie", None, f"{api}{o}: carrier {c} of the proto result holds {src} content, model says {expr}"))
    # "M" = never assigned and never reachable by write-through; "M~" = the caller's content up to serde aliasing
    arg_pred_unchanged = all(v == "M" for v in tab["proto"]["arg"].values())
    if arg_pred_unchanged and pm["arg_mutated"]:
        problems.append(("tie", None, f"{api}: model says the argument is not assigned, but it changed"))
    # ---- T3: IR-level frame (what the passes changed) within the Lean `touches`
    for c in c15_cmp.canon_carrier_changes(NM, Q):
        stats[f"irchanged_{api}_{c}"] += 1
        if c not in touched:
            problems.append(("tie", None, f"{api}{o}: IR entry changed carrier {c} outside the model's frame"))
    return problems


def check_inline(M, tables: dict, stats: Counter) -> list:
    if serde_refuses(M):
        return []
    r = c15_api.run_inline(M)
    key = "1" if r["had_functions"] else "0"
    pred = dict(kv.split("=") for kv in tables["_inline"][key].split(";"))
    out = []
    stats[f"inline_functions_{key}"] += 1
    if r["ret"] != pred["ret"]:
        out.append(("tie", None, f"inline returned {r['ret']}, model says {pred['ret']}"))
    same = r["after"].SerializeToString(deterministic=True) == r["NM"].SerializeToString(deterministic=True)
    if pred["changed"] == "0" and not same:
        out.append(("property", None, "inline() changed a model without functions"))
    if pred["changed"] == "1":
        fids = {(f.domain, f.name) for f in M.functions}
        if any((n.domain, n.op_type) in fids for n in r["after"].graph.node):
            out.append(("property", None, "inline() left a call to a model-local function"))
    bad = c15_cmp.canon_carrier_changes(r["NM"], r["after"]) - {"functions", "nodes", "valueInfo", "opsetImports", "initializers"}
    if bad:
        out.append(("property", None, f"inline() changed untouched carriers {sorted(bad)}"))
    return out


def check_routing(M, tables: dict, stats: Counter) -> list:
    """Option routing of both entries (recorded at the IR-level callee) vs the Lean `route` table."""
    out = []
    obs = c15_api.observe_routing(M)
    for (api, entry), got in obs.items():
        want = tables["_route"][(api, entry)]
        for param, src in got.items():
            stats["routes_checked"] += 1
            if want.get(param) != src:
                out.append(("tie", None, f"{api} [{entry} entry]: parameter {param} of the IR-level implementation receives "
                            f"the caller's '{src}', model says '{want.get(param)}'"))
    for api in ("optimize", "fold_constants", "convert_version"):
        if obs[(api, "proto")] != obs[(api, "ir")]:
            out.append(("tie", None, f"{api}: the two entries route options differently: proto {obs[(api, 'proto')]} vs ir {obs[(api, 'ir')]}"))
    return out


RENAMERS = ["LiftConstantsToInitializersPass", "LiftSubgraphInitializersToMainGraphPass", "NameFixPass",
            "IdentityEliminationPass", "CommonSubexpressionEliminationPass", "OutputFixPass"]  # = OV.C15.renamingPasses


def check_quiet_passes(M, src_passes: dict, stats: Counter) -> list:
    """Per-pass contract of `rewrite_and_replace_leave_argument`: every pass of the pipelines the source builds for
    rewrite / replace_functions, run alone on de(M) and serialised, leaves M's bytes alone (QuietPass, DeQuiet);
    the named renaming passes are run too, to show the set is not vacuous (they do write through on some models)."""
    import onnx_ir.passes.common as cp
    import onnxscript.rewriter as rw
    from onnxscript import ir

    if serde_refuses(M):
        return []
    out = []
    before = M.SerializeToString(deterministic=True)

    def run_one(name):
        Mc = copy.deepcopy(M)
        m = ir.serde.deserialize_model(Mc)
        if name == "AddFunctions":
            fn = ir.serde.deserialize_function(c15_gen.triple_function(18))
            m.functions[fn.identifier()] = fn
        elif name == "RewritePass":
            rw.RewritePass(rw._DEFAULT_REWRITE_RULES)(m)
        elif name == "LiftConstantsToInitializersPass":
            cp.LiftConstantsToInitializersPass(lift_all_constants=True, size_limit=0)(m)
        else:
            getattr(cp, name)()(m)
        ir.serde.serialize_model(m)
        return Mc.SerializeToString(deterministic=True) != before

    Mc = copy.deepcopy(M)
    ir.serde.serialize_model(ir.serde.deserialize_model(Mc))
    if Mc.SerializeToString(deterministic=True) != before:
        out.append(("tie", None, "DeQuiet: deserialise+serialise alone changed the source proto"))
    for api in ("rewrite", "replace_functions"):
        for name in src_passes.get(api, []):
            if name in RENAMERS:
                continue  # the Lean theorem source_rewrite_replace_run_no_renaming_pass is rejected in that case
            try:
                wrote = run_one(name)
            except Exception as e:  # noqa: BLE001
                stats[f"quiet_pass_raised_{name}"] += 1
                continue
            stats["quiet_pass_checked"] += 1
            if wrote:
                out.append(("tie", None, f"QuietPass: {name} (pipeline of {api}) run alone wrote into the proto its model was deserialised from"))
    for name in RENAMERS:
        if not hasattr(cp, name):
            continue
        try:
            if run_one(name):
                stats[f"renamer_wrote_through_{name}"] += 1
        except Exception:  # noqa: BLE001
            stats[f"renamer_raised_{name}"] += 1
    return out



# --------------------------------------------------------------------------- stream 3: call histories

HIST_INPLACE = ["fold_constants", "remove_unused_nodes", "remove_unused_functions", "convert_version"]
HIST_FRESH = ["optimize", "rewrite_default", "rewrite_rules"]
HIST_APIS = HIST_INPLACE + HIST_FRESH + ["rewrite_empty"]
HIST_PATTERNS = [  # I = in place, F = returns a fresh proto, E = rewrite(., []) (returns its argument), C = convert_version, * = any
    "**", "***", "EIF", "II", "FC", "IFI", "FF", "EI", "FE", "FI", "IC", "EEI", "DC", "DI",
]  # D = convert_version down through the onnx C API with fallback=True (may fail silently: the object must be usable afterwards)


def gen_history(rng, pattern: str, opset: int) -> list:
    """A call history following `pattern`; options of each call are drawn for the opset the model has at that stage."""
    calls = []
    for ch in pattern:
        api = {"I": lambda: rng.choice(HIST_INPLACE), "F": lambda: rng.choice(HIST_FRESH), "E": lambda: "rewrite_empty",
               "C": lambda: "convert_version", "D": lambda: "convert_version", "*": lambda: rng.choice(HIST_APIS)}[ch]()
        o = c15_api.gen_options(rng, api, opset)
        if ch == "D":
            o = {"target_version": max(18, opset - rng.choice([1, 1, 2])) if opset >= 19 else rng.choice([19, 20]), "fallback": True}
        elif api == "convert_version":
            if ch == "C" or rng.random() < 0.7:  # mostly a step the native converter supports, so that the history goes on
                o = {"target_version": rng.choice([v for v in (18, 19, 20, 21, 22, 23) if v >= max(opset, 18)] or [opset])}
            if not capi_path_taken(opset, o) and (18 <= opset <= o["target_version"] <= 23):
                opset = o["target_version"]
        calls.append([api, o])
    return calls


def check_history(M, calls: list, opset: int, tables: dict, stats: Counter) -> list:
    """A history of wrapper calls, each applied to the object the previous call produced (proto entries), against the same
    history of in-place IR-entry calls on one ir.Model.

      H1 (property)  every call after the first is judged by the full single-call oracle on the proto it received
                     (`check_wrapper` on the product of the previous real call: second use of a returned / mutated object);
      H2 (contract)  proto chain result = ser(IR chain result)  — `history_proto_eq_ir` (SerRoundTrip, Extensional);
      H3 (property + tie) which object holds what afterwards vs the Lean `protoTrack`: the caller's original object holds
                     the result of the leading in-place / rewrite(.,[]) calls and is never reached after the first
                     fresh-returning call; the final object IS the original iff the model says so;
      H4 (property)  a pure call repeated on the same (unchanged) argument gives the same bytes (no state across calls).
    """
    from onnxscript import ir

    problems = []
    if serde_refuses(M):
        stats["history_serde_refused"] += 1
        return problems
    names = tuple(DRIVER_API[a] for a, _ in calls)
    stats["history_cases"] += 1
    stats[f"history_len_{len(calls)}"] += 1
    orig = copy.deepcopy(M)
    cur = orig
    snaps = [c15_api._bytes(orig)]
    protos = [copy.deepcopy(M)]
    err_p = None
    done = 0
    for api, o in calls:
        try:
            ret, rp = c15_api.call_proto(api, cur, o)
        except Exception as e:  # noqa: BLE001
            err_p = type(e).__name__
            break
        if ret == "fresh":
            # H4: the same call again on the same argument object
            if c15_api._bytes(cur) == snaps[-1]:
                try:
                    ret2, rp2 = c15_api.call_proto(api, cur, o)
                    stats["history_repeat_same_arg"] += 1
                    if ret2 != "fresh" or c15_api._bytes(rp2) != c15_api._bytes(rp):
                        problems.append(("property", None, f"history {names}: {api}{o} called twice on the same unchanged proto "
                                         f"gave different results: {c15_cmp.diff(rp, rp2)[:3] if ret2 == 'fresh' else ret2}"))
                except Exception as e:  # noqa: BLE001
                    problems.append(("property", None, f"history {names}: {api}{o} succeeded once and raised {type(e).__name__} "
                                     f"when called again on the same unchanged proto"))
        cur = rp if ret == "fresh" else cur
        snaps.append(c15_api._bytes(cur))
        protos.append(copy.deepcopy(cur))
        done += 1
    # ---- the same history on the IR entry
    m = ir.serde.deserialize_model(copy.deepcopy(M))
    err_i = None
    done_i = 0
    for api, o in calls:
        try:
            c15_api.call_ir(api, m, o)
        except Exception as e:  # noqa: BLE001
            err_i = type(e).__name__
            break
        done_i += 1
    if err_p or err_i:
        stats[f"history_err_{err_p}"] += 1
        if (err_p, done) != (err_i, done_i):
            problems.append(("property", None, f"history {names}: proto entries raised {err_p} at call {done + 1}, IR entries {err_i} at call {done_i + 1}"))
    # ---- H1: each later call judged on the proto it actually received
    stage_opset = opset
    for k in range(done):
        api, o = calls[k]
        if k >= 1:
            stats["history_second_call_checked"] += 1
            stats[f"history_second_{api}"] += 1
            for kind, fid, det in check_wrapper(api, protos[k], o, stage_opset, tables, stats):
                problems.append((kind, fid, f"history {names}, call {k + 1} on the product of the previous calls: {det}"))
        if api == "convert_version" and not capi_path_taken(stage_opset, o):
            stage_opset = next((x.version for x in protos[k + 1].opset_import if x.domain == ""), stage_opset)
    if done == 0:
        return problems
    pre = tuple(names[:done])
    # ---- H2: chain vs chain
    if err_p is None and err_i is None and any(a != "rewrite_empty" for a, _ in calls):
        Q = ir.serde.serialize_model(m)
        stats["history_chain_compared"] += 1
        dd = c15_cmp.canon_equal(cur, Q)
        if not dd and c15_api._bytes(cur) == c15_api._bytes(Q):
            stats["history_chain_byte_equal"] += 1
        # `Extensional` holds only up to AUTO-GENERATED node names: the counter behind `node_<Op>_<n>` lives in the in-memory
        # ir.Model (IR chain: one object, counter goes on) and does not serialise (proto chain: restarts after each call)
        auto = [d for d in dd if d[1] == "changed" and re.search(r"\.node\[\d+\]\.name$", d[0])
                and re.fullmatch(r"'node_\w+_\d+' -> 'node_\w+_\d+'", d[2])]
        if auto:
            stats["history_chain_differs_in_autogenerated_node_names"] += 1
            dd = [d for d in dd if d not in auto]
        for d in dd[:4]:
            fid = "C15-TMETA" if pred_tmeta(d) else "C15-SPARSE" if pred_sparse(d) else None
            problems.append(("tie", fid, f"history {names}: proto chain result != ser(IR chain result): {d}"))
    # ---- H3: which object holds what
    tr = tables["_track"][pre]
    is_orig = cur is orig
    if is_orig != (tr["cur"] == "orig"):
        problems.append(("tie", None, f"history {pre}: the final object {'is' if is_orig else 'is not'} the caller's original, model says cur={tr['cur']}"))
    k = int(tr["orig"].rstrip("~"))
    stats[f"history_orig_holds_stage_{min(k, 2)}{'+' if k > 2 else ''}"] += 1
    if k >= 1 and not is_orig:
        stats["history_inplace_prefix_then_fresh"] += 1
    if k >= 2 and pre[0] == "rewrite_empty":
        stats["history_returned_argument_then_mutated"] += 1
    if not is_orig and any(a in HIST_INPLACE for a, _ in calls[k + 1:done]):
        stats["history_fresh_then_inplace"] += 1
    if c15_api._bytes(orig) != snaps[k]:
        later = [i for i in range(len(snaps)) if snaps[i] == c15_api._bytes(orig)]
        problems.append(("property", None, f"history {pre}: the caller's original object must hold the result of the first {k} call(s) "
                         f"(later calls work on other objects), but it holds {'the result after call ' + str(later[0]) if later else 'something else'}: "
                         f"{c15_cmp.diff(onnx_from(snaps[k]), orig)[:3]}"))
    return problems


def onnx_from(b: bytes):
    import onnx

    mp = onnx.ModelProto()
    mp.ParseFromString(b)
    return mp

# --------------------------------------------------------------------------- cases


def build_case(case: dict):
    rng = random.Random(case["gen_seed"])
    M, info = c15_gen.gen_model(rng, features=case.get("features"))
    return M, info


def run_case(case: dict, tables: dict, stats: Counter) -> list:
    M, info = build_case(case)
    api = case["api"]
    if api == "serde":
        return check_serde(M, stats)
    if api == "inline":
        return check_inline(M, tables, stats)
    if api == "routing":
        return check_routing(M, tables, stats)
    if api == "quiet_passes":
        return check_quiet_passes(M, tables["_src_passes"], stats)
    if api == "history":
        return check_history(M, case["calls"], info["features"]["opset"], tables, stats)
    return check_wrapper(api, M, case.get("options", {}), info["features"]["opset"], tables, stats)


SHRINK_OFF = {
    "dead_node": False, "noop_mul": False, "cast_cast": False, "function_call": False, "versioned_op": False,
    "unused_initializer": False, "initializer_as_input": False, "graph_doc": False, "graph_meta": False,
    "node_meta": False, "value_meta": False, "value_doc": False, "init_value_info": False,
    "unused_function": False, "functions_reversed": False, "unused_opset": False, "opsets_shuffled": False,
    "producer": False, "domain": False, "model_version": False, "model_doc": False, "model_meta": False,
    "explicit_defaults": False, "symbolic_batch": False, "function_doc": False, "function_meta": False,
    "function_value_info": False, "w2_raw": False, "const_tensor_node": "none", "expand_fold": "none",
    "big_initializer": "none", "repl_call": False, "no_fold": False, "sparse_attr": False, "subgraph_if": False, "second_custom_domain": False, "expand_from_constant_nodes": False, "tensor_meta": False, "other_fields": False, "function_dead_node": False, "trimmable": False, "nothing_dead": False, "introduced_op": False,
}


def shrink_case(case: dict, tables: dict, fails) -> dict:
    """Greedy feature-level shrinking: switch generator features off while the same class of problem remains."""
    _, info = build_case(case)
    cur = dict(case, features=dict(info["features"]))
    for k, off in SHRINK_OFF.items():
        if cur["features"].get(k) == off:
            continue
        cand = dict(cur, features=dict(cur["features"], **{k: off}))
        try:
            if fails(cand):
                cur = cand
        except Exception:  # noqa: BLE001
            pass
    spec = list(cur["features"].get("exotic_spec", []))
    i = 0
    while i < len(spec):
        cand_spec = spec[:i] + spec[i + 1 :]
        cand = dict(cur, features=dict(cur["features"], exotic_spec=cand_spec, n_exotic=len(cand_spec)))
        try:
            if fails(cand):
                spec, cur = cand_spec, cand
                continue
        except Exception:  # noqa: BLE001
            pass
        i += 1
    return cur


# --------------------------------------------------------------------------- known-finding witnesses


def witness_models():
    import onnx
    from onnx import TensorProto as TP
    from onnx import helper

    def base(opset=20):
        n = helper.make_node("Relu", ["x"], ["y"], name="r", doc_string="node doc")
        e = n.metadata_props.add()
        e.key, e.value = "nk", "nv"
        g = helper.make_graph([n], "g", [helper.make_tensor_value_info("x", TP.FLOAT, [2])],
                              [helper.make_tensor_value_info("y", TP.FLOAT, [2])])
        e = g.metadata_props.add()
        e.key, e.value = "gk", "gv"
        g.input[0].doc_string = "in doc"
        return helper.make_model(g, opset_imports=[helper.make_opsetid("", opset)], ir_version=10)

    out = {}
    m = base()
    t = helper.make_tensor("w", TP.FLOAT, [1], [1.0])
    e = t.metadata_props.add()
    e.key, e.value = "k", "v"
    m.graph.initializer.append(t)
    m.graph.node.append(helper.make_node("Add", ["y", "w"], ["z"], name="a"))
    m.graph.output[0].name = "z"
    out["C15-TMETA"] = m
    m = base()
    sp = m.graph.sparse_initializer.add()
    sp.values.CopyFrom(helper.make_tensor("sw", TP.FLOAT, [1], [3.0]))
    sp.indices.CopyFrom(helper.make_tensor("sw_idx", TP.INT64, [1], [1]))
    sp.dims.append(4)
    m.training_info.add().algorithm.name = "alg"
    out["C15-SPARSE"] = m
    out["C15-FALLBACK"] = base(20)
    m = base(20)
    m.graph.initializer.append(helper.make_tensor("w", TP.FLOAT, [2], [1.0, 2.0]))
    m.graph.node.append(helper.make_node("Add", ["y", "w"], ["z"], name="a"))
    m.graph.output[0].name = "z"
    vi = helper.make_tensor_value_info("w", TP.FLOAT, [2])
    vi.doc_string = "weight doc"
    e = vi.metadata_props.add()
    e.key, e.value = "k", "v"
    m.graph.value_info.append(vi)
    out["C15-FALLBACK-VALUE-META"] = m
    return out


def replay_known(run: core.Run, stats: Counter) -> None:
    import onnxscript.optimizer as opt
    import onnxscript.version_converter as vc
    from onnxscript import ir

    open_ids = {f["id"] for f in run.open_findings()}
    W = witness_models()
    N = lambda p: ir.serde.serialize_model(ir.serde.deserialize_model(p))
    # TMETA: N doubles the tensor's metadata entry; N(N(M)) != N(M); optimize() on a proto shows it
    m = W["C15-TMETA"]
    n1, n2 = N(m), N(N(m))
    k1, k2 = len(n1.graph.initializer[0].metadata_props), len(n2.graph.initializer[0].metadata_props)
    p = copy.deepcopy(m)
    opt.remove_unused_nodes(p)
    k3 = len(p.graph.initializer[0].metadata_props)
    stats["witness_TMETA"] = int(k1 == 2 and k2 == 3 and k3 == 2)
    if stats["witness_TMETA"] and "C15-TMETA" in open_ids:
        run.known("C15-TMETA", f"initializer 'w' with one metadata_props entry has {k1} after serde, {k2} after a second "
                  f"round trip, {k3} after remove_unused_nodes(proto): N is not idempotent and adds an entry M does not have")
    # SPARSE
    m = W["C15-SPARSE"]
    p = copy.deepcopy(m)
    opt.remove_unused_nodes(p)
    lost = len(m.graph.sparse_initializer) == 1 and len(p.graph.sparse_initializer) == 0 and len(p.training_info) == 0
    stats["witness_SPARSE"] = int(lost)
    if lost and "C15-SPARSE" in open_ids:
        run.known("C15-SPARSE", "remove_unused_nodes(proto) (Clear+CopyFrom of the re-serialised IR) deletes "
                  "graph.sparse_initializer and training_info: the IR has no carrier for them")
    # ALIAS: optimize(proto) writes the lifted constant's name into the caller's attribute tensor
    import onnx.parser

    m = onnx.parser.parse_model('<ir_version: 9, opset_import: ["" : 18]> agraph (float[2] x) => (float[2] y) '
                                '{ c = Constant <value = float[2] {1.0, 2.0}> ()\n y = Add (x, c) }')
    m0 = copy.deepcopy(m)
    opt.optimize(m)
    dd = c15_cmp.diff(m0, m)
    stats["witness_ALIAS"] = int(bool(dd))
    if dd:
        if "C15-ALIAS" in open_ids:
            run.known("C15-ALIAS", f"optimize(ModelProto) modified its argument: {[(x[0], x[2]) for x in dd]}")
        else:  # fixed by 0d5ec74: the witness is a must-pass regression case
            run.violation({"witness": "C15-ALIAS", "model": "c = Constant<value=float[2]{1,2}>(); y = Add(x, c)", "diff": [list(x) for x in dd]},
                          f"regression of fixed finding C15-ALIAS: optimize(ModelProto) modified its argument: {[(x[0], x[2]) for x in dd]}")
    # FALLBACK
    m = W["C15-FALLBACK"]
    p = copy.deepcopy(m)
    vc.convert_version(p, 19, fallback=True)
    i = ir.from_proto(copy.deepcopy(m))
    vc.convert_version(i, 19, fallback=True)
    q = ir.to_proto(i)
    lostp = [d[0] for d in c15_cmp.hard(c15_cmp.diff(m, p)) if d[1] == "lost"]
    lostq = [d[0] for d in c15_cmp.hard(c15_cmp.diff(m, q)) if d[1] == "lost"]
    stats["witness_FALLBACK"] = int(bool(lostp) or bool(lostq))
    if lostp or lostq:
        if "C15-FALLBACK" in open_ids:
            run.known("C15-FALLBACK", f"convert_version(M@20, 19, fallback=True) (onnx C-API path, both entries) loses {lostp}")
        else:  # fixed by 7ba1077: must-pass regression case
            run.violation({"witness": "C15-FALLBACK", "model": "Relu@20 with graph/node metadata_props and an input doc_string",
                           "call": "convert_version(M, 19, fallback=True)", "lost_proto": lostp, "lost_ir": lostq},
                          f"regression of fixed finding C15-FALLBACK: convert_version(M@20, 19, fallback=True) loses {lostp or lostq}")


def replay_value_meta(run: core.Run, stats: Counter) -> None:
    """C15-FALLBACK-VALUE-META: value_info of an initializer (not a graph input) loses metadata_props / doc_string on the
    C-API route, on both entries; the native route keeps them."""
    import onnxscript.version_converter as vc
    from onnxscript import ir

    m = witness_models()["C15-FALLBACK-VALUE-META"]
    kept = lambda mm: [(v.doc_string, [(e.key, e.value) for e in v.metadata_props]) for v in mm.graph.value_info if v.name == "w"]
    p = copy.deepcopy(m)
    vc.convert_version(p, 19, fallback=True)
    i = ir.from_proto(copy.deepcopy(m))
    vc.convert_version(i, 19, fallback=True)
    q = ir.to_proto(i)
    n = copy.deepcopy(m)
    vc.convert_version(n, 21)
    want = [("weight doc", [("k", "v")])]
    lost = p.opset_import[0].version == 19 and kept(p) != want and kept(q) != want and kept(n) == want
    stats["witness_FALLBACK_VALUE_META"] = int(lost)
    if lost and "C15-FALLBACK-VALUE-META" in {f["id"] for f in run.open_findings()}:
        run.known("C15-FALLBACK-VALUE-META", f"convert_version(M@20, 19, fallback=True) (onnx C-API route, both entries): value_info['w'] of "
                  f"initializer 'w' had doc_string + metadata_props {{k: v}}, now {kept(p)}; the native route (target 21) keeps them")


def replay_refutation_witnesses(stats: Counter) -> None:
    """Real-code counterparts of the Lean `_full_refuted` witnesses (by design, not findings):
    `convert_version` and `rewrite(M, [])` keep the caller's bytes where the IR entry re-serialises them."""
    import onnxscript.rewriter as rw
    import onnxscript.version_converter as vc
    from onnxscript import ir

    m = witness_models()["C15-FALLBACK"]
    m.producer_name = ""  # explicitly set to its default
    for k, v in (("zz", "1"), ("aa", "2")):  # not sorted
        e = m.metadata_props.add()
        e.key, e.value = k, v
    p = copy.deepcopy(m)
    vc.convert_version(p, 21)
    i = ir.from_proto(copy.deepcopy(m))
    vc.convert_version(i, 21)
    q = ir.to_proto(i)
    stats["refutation_convert_keeps_caller_bytes"] = int(
        p.HasField("producer_name") and not q.HasField("producer_name")
        and [e.key for e in p.metadata_props] == ["zz", "aa"] and [e.key for e in q.metadata_props] == ["aa", "zz"]
        and not c15_cmp.canon_equal(p, q)
    )
    stats["d9_fixed_opset_import_updated"] = int(p.opset_import[0].version == 21 == q.opset_import[0].version)
    r = rw.rewrite(m, [])
    rq = ir.to_proto(rw.rewrite(ir.from_proto(copy.deepcopy(m)), []))
    stats["refutation_rewrite_empty_is_argument"] = int(r is m and r.HasField("producer_name") and not rq.HasField("producer_name"))


# --------------------------------------------------------------------------- main


def main(run: core.Run) -> None:
    warnings.filterwarnings("ignore")
    logging.disable(logging.CRITICAL)
    run.assumptions += [
        "A-ir (contract, validated not proved): onnx_ir serde — N = ser∘de is idempotent, M is field-wise included in "
        "N(M) (only explicitly-default fields vanish, only initializer-implied value_info appears), payload bytes of "
        "every element type are preserved; validated on the generated models of stream 1",
        "A-ir (contract, validated): the passes change only the carriers in the Lean `touches` frame of each API; the "
        "inliner + RemoveUnusedFunctions leave no model-local function (used by convert_version's proto branch)",
        "equality of protos is taken up to order of map-like repeated fields (metadata_props, opset_import, value_info, "
        "initializer, functions) and presence of explicitly-default proto2 fields; floats by IEEE bytes",
        "what each IR transformation computes is outside C15 (C03/C05/C07/C10); the Lean part decides the wrappers' plumbing only",
    ]
    # translator: regenerate the wrappers' programs and option tables from the working tree; the theorems of
    # section 4 of Props/C15.lean are re-checked against them by the build below
    gen_file = core.LEAN / "OV" / "Gen" / "C15Plumbing.lean"
    gen_before = gen_file.read_text() if gen_file.exists() else None
    src = extract_c15.regenerate()
    run.coverage["source_tables"] = {
        "sha": src["sha"], "programs": {f"{a}/{e}": st for (a, e), st in sorted(src["progs"].items())},
        "routes": len(src["routes"]), "unknown_statements": sum(st.count("unknown") for st in src["progs"].values()),
    }
    # second table: every field of Model/Graph/Node/FunctionProto in the installed descriptors, its carrier, and what the
    # installed onnx_ir's serde does to a populated sample (theorems of OV.Props.C15Fields, decide over the table)
    ft = c15_fields.regenerate()
    run.coverage["field_table"] = {
        "sha": ft["sha"], "rows": len(ft["rows"]),
        "not_carried": [f"{r['msg']}.{r['field']}:{r['status']}" for r in ft["rows"] if r["status"] != "carried"],
        "per_message": dict(Counter(r["msg"] for r in ft["rows"])),
    }
    if any(r["status"].startswith(("refused", "unprobed")) for r in ft["rows"]):
        run.coverage["field_table"]["needs_attention"] = [r for r in ft["rows"] if r["status"].startswith(("refused", "unprobed"))]
    audit = run.prove(PROP_MODULES)
    if not audit["ok"] and gen_file.read_text() != extract_c15.lean_text(extract_c15.extract()):
        # another run (different VERIF_REPO) regenerated the shared table between our write and our build: redo once
        for k in ("obligations", "discharged"):
            run.coverage[k] = 0
        run.coverage.pop("proof_problems", None)
        extract_c15.regenerate()
        audit = run.prove(PROP_MODULES)
    if not audit["ok"] and gen_before is not None and gen_before != gen_file.read_text():
        # leave the last table under which the library builds on disk (other modules import the whole library);
        # this run's table is kept in the evidence and in the replay
        run.coverage["source_tables"]["rejected_table"] = gen_file.read_text()[-6000:]
        with core.lake_lock():
            gen_file.write_text(gen_before)
    drv = core.Driver("C15")
    tables = driver_tables(drv)
    tables["_src_passes"] = src["passes"]
    run.coverage["source_tables"]["pass_lists"] = src["passes"]
    stats: Counter = Counter()

    if run.replay_path:
        run.replay_path = os.path.abspath(run.replay_path)
    scratch = tempfile.mkdtemp(prefix="c15_")
    cwd = os.getcwd()
    os.chdir(scratch)
    try:
        with open(c15_gen.EXT_FILE, "wb") as fh:
            fh.write(c15_gen.EXT_BLOB)
        _main(run, audit, tables, stats)
    finally:
        os.chdir(cwd)
        shutil.rmtree(scratch, ignore_errors=True)


def _main(run: core.Run, audit: dict, tables: dict, stats: Counter) -> None:
    if run.replay_path:
        body = json.loads(open(run.replay_path).read())
        case = body["case"].get("case")
        probs = run_case(case, tables, stats) if case else []
        for kind, fid, det in probs:
            print(f"REPLAY {kind} {fid or ''}: {det}")
        bad = [p for p in probs if not (p[1] and p[1] in {f['id'] for f in run.open_findings()})]
        if bad:
            run.violation({"case": case, "problems": [p[2] for p in bad]}, "replayed case still fails: " + bad[0][2])
        run.coverage.update(evaluations=1, distinct_nontrivial=1)
        return

    drift = []
    for rel, names in (
        ("onnxscript/optimizer/__init__.py", ["optimize", "inline", "fold_constants", "remove_unused_nodes", "remove_unused_functions"]),
        ("onnxscript/rewriter/__init__.py", ["rewrite"]),
        ("onnxscript/version_converter/__init__.py", ["convert_version"]),
        ("onnxscript/utils/replace.py", ["replace_functions", "replace_functions_inplace"]),
    ):
        drift += core.fingerprint_drift("C15", rel, names)
    run.coverage["fingerprint_drift"] = drift
    n_models = run.size(260, 2500)
    n_serde = run.size(350, 5000)
    if drift and run.tier == "quick":
        n_models *= 2

    corpus_file = core.VERIF / "harness" / "corpus_c15.jsonl"
    corpus = [json.loads(l) for l in corpus_file.read_text().splitlines() if l.strip()] if corpus_file.exists() else []

    open_ids = {f["id"] for f in run.open_findings()}
    all_problems = []  # (case, kind, fid, detail)

    def do(case):
        try:
            probs = run_case(case, tables, stats)
        except core.Infra:
            raise
        for kind, fid, det in probs:
            all_problems.append((case, kind, fid, det))
        stats["cases"] += 1

    for case in corpus:
        do(case)
    do({"api": "routing", "gen_seed": 1, "features": {"function_call": True}})
    # stream 1: serde contract
    for _ in range(n_serde):
        seed = run.rng.getrandbits(48)
        feats = {}
        r = run.rng.random()
        if r < 0.5:
            feats["n_exotic"] = run.rng.choice([6, 9, 12])
        do({"api": "serde", "gen_seed": seed, "features": feats})
    # stream 2: wrappers (every API on every model)
    for k in range(n_models):
        seed = run.rng.getrandbits(48)
        M, info = build_case({"gen_seed": seed})
        for fk, fv in info["features"].items():
            if fk not in ("exotic_spec",) and fv not in (False, "none", 0):
                stats[f"feat_{fk}" + ("" if fv is True else f"={fv}")] += 1
        orng = random.Random(seed ^ 0x5EED)
        for api in c15_api.APIS:
            o = c15_api.gen_options(orng, api, info["features"]["opset"])
            case = {"api": api, "gen_seed": seed, "options": o}
            do(case)
            ft = info["features"]
            if api == "optimize" and ft.get("expand_fold") == "mid" and "input_size_limit" not in o and "output_size_limit" not in o:
                stats["branch_default_limits_straddled"] += 1  # 10 000-element fold: above default input, below default output limit
            if api in ("optimize", "fold_constants") and ("input_size_limit" in o or "output_size_limit" in o) and ft.get("expand_fold", "none") != "none":
                stats["branch_explicit_limits_on_growing_fold"] += 1
            if api == "optimize" and o.get("inline") is False and (ft.get("function_call") or ft.get("unused_function")):
                stats["branch_inline_false_with_functions"] += 1
            if api == "convert_version" and capi_path_taken(ft["opset"], o) and ft.get("big_initializer") == "input":
                stats["branch_capi_with_big_overridable_initializer"] += 1
            if api == "fold_constants" and c15_api.LAST.get("fold_modified") is False and not ft.get("sparse_attr"):
                stats["branch_fold_reports_unmodified"] += 1  # nothing folded, the IR is only annotated
                if o.get("onnx_shape_inference"):
                    stats["branch_fold_unmodified_with_shape_inference"] += 1
            if api == "remove_unused_nodes" and ft.get("trimmable") and ft.get("nothing_dead") and not ft.get("sparse_attr"):
                rep_mod, rep_changed = c15_api.remove_unused_nodes_report(M)
                if rep_changed and not rep_mod:
                    stats["branch_rmnodes_reports_unmodified_but_trims"] += 1  # optional outputs / trailing '' inputs trimmed, nothing removed
            if (api == "convert_version" and capi_path_taken(ft["opset"], o) and not ft.get("sparse_attr") and c15_api.LAST.get("proto_error") is None
                    and c15_api.LAST.get("proto_opset_after") == ft["opset"] != o.get("target_version")):
                stats["branch_capi_failed_silently"] += 1  # the C-API converter raised, the wrapper swallowed it: model must be as it was
                if ft.get("big_initializer") != "none":
                    stats["branch_capi_failed_silently_with_big_initializer"] += 1
            if api == "convert_version" and o.get("target_version") == ft["opset"]:
                stats["branch_convert_same_version"] += 1
            if len(run.samples) < 6 and k % 7 == 0 and api in ("optimize", "convert_version", "rewrite_rules"):
                run.sample({"case": case, "opset": info["features"]["opset"], "ir_version": info["features"]["ir_version"]})
        do({"api": "inline", "gen_seed": seed})
        if k % 2 == 0:
            do({"api": "quiet_passes", "gen_seed": seed})

    # stream 3: call histories (second call on the returned / mutated object, object identity, chains)
    for k in range(run.size(70, 700)):
        seed = run.rng.getrandbits(48)
        M, info = build_case({"gen_seed": seed})
        hrng = random.Random(seed ^ 0xC4A1)
        pattern = HIST_PATTERNS[k % len(HIST_PATTERNS)]
        calls = gen_history(hrng, pattern, info["features"]["opset"])
        do({"api": "history", "gen_seed": seed, "calls": calls})

    replay_known(run, stats)
    replay_value_meta(run, stats)
    replay_refutation_witnesses(stats)

    # ---- verdict
    known_counts: Counter = Counter()
    prop_fail, tie_fail = [], []
    for case, kind, fid, det in all_problems:
        if fid and fid in open_ids:
            known_counts[fid] += 1
            continue
        (prop_fail if kind == "property" else tie_fail).append((case, det))
    for fid, n in known_counts.items():
        stats[f"known_{fid}"] = n

    def classes(case):
        return {(k, f, re.sub(r"[\[{].*", "", d)[:60]) for k, f, d in run_case(case, tables, Counter())}

    if prop_fail:
        case, det = prop_fail[0]
        want = ("property", None, re.sub(r"[\[{].*", "", det)[:60])
        small = shrink_case(case, tables, lambda c: want in classes(c))
        dets = [d for k, f, d in run_case(small, tables, Counter()) if k == "property" and not f]
        body = {"case": small, "detail": dets[:4] or [det], "others": len(prop_fail) - 1}
        if not audit["ok"]:
            # the Lean obligations over the regenerated source tables were rejected as well: same change, this is its input
            body["proof_obligations_rejected"] = {"problems": audit["problems"], "log": audit["build_log"][-1500:]}
        run.violation(body, f"{small['api']}: {(dets or [det])[0]}"
                      + ("  [the source theorems of OV.Props.C15 are rejected too]" if not audit["ok"] else ""))
    elif tie_fail:
        case, det = tie_fail[0]
        run.violation({"case": case, "detail": det, "broken": "correspondence OV.C15.protoPath/irPath/touches vs implementation",
                       "others": len(tie_fail) - 1},
                      f"correspondence broken: {det}; no input found on which the real wrappers violate the property's oracle",
                      no_input=True)
    if not audit["ok"] and not prop_fail:
        run.violation({"broken": "proof obligations of OV.Props.C15", "problems": audit["problems"], "log": audit["build_log"][-1500:]},
                      "Lean proof obligations for C15 do not check: " + "; ".join(audit["problems"][:3]), no_input=True)

    # ---- coverage / degeneration guards
    n_api = sum(stats[f"api_{a}"] for a in c15_api.APIS)
    n_err = sum(v for k, v in stats.items() if k.startswith("err_"))
    run.coverage.update(
        evaluations=stats["cases"],
        distinct_nontrivial=n_api - n_err + stats["payload_checked"],
        rule="(model, API, options) triples on which both real entries ran to completion and were compared carrier by "
        "carrier with each other, with N(M), with M and with the Lean driver's table, plus initializer payloads compared "
        "through the IR in the serde stream",
        traces_validated_against_impl=n_api,
        distribution=dict(sorted(stats.items())),
        exhaustive=False,
        lean_tables={a: {"proto": t["proto"]["res"], "ret": [t["proto"]["ret"], t["ir"]["ret"]], "touches": sorted(t["touches"])}
                     for a, t in tables.items() if not a.startswith("_")},
        explanation="models are seeded random over the feature lattice of harness/c15_gen.py; all 9 API forms + inline run on every model",
    )
    if run.violations:
        return  # a behavioural difference was reported; coverage guards must not turn it into an infrastructure exit
    if n_api and n_err > 0.3 * n_api:
        raise core.Infra("generator degenerated: >30% of API calls raised")
    for a in c15_api.APIS:
        if a != "rewrite_empty" and stats[f"discriminating_{a}"] == 0:
            raise core.Infra(f"generator degenerated: no carrier distinguishes caller bytes from serialised-IR bytes for {a}")
    required = [
        "branch_default_limits_straddled", "branch_explicit_limits_on_growing_fold", "branch_inline_false_with_functions",
        "branch_capi_with_big_overridable_initializer", "branch_convert_same_version", "convert_capi_path",
        "branch_fold_reports_unmodified", "branch_fold_unmodified_with_shape_inference", "quiet_pass_checked",
        "branch_rmnodes_reports_unmodified_but_trims", "feat_trimmable", "feat_introduced_op", "branch_capi_failed_silently",
        "branch_capi_failed_silently_with_big_initializer",
        "renamer_wrote_through_LiftConstantsToInitializersPass",
        "replace_guard_functions_0", "replace_guard_functions_1", "inline_functions_0", "inline_functions_1",
        "routes_checked", "serde_refused_models", "feat_subgraph_if", "feat_const_tensor_node=anon", "feat_explicit_defaults",
        "feat_function_value_info", "feat_other_fields", "feat_tensor_meta", "err_convert_version_VersionConverterError",
        "err_replace_functions_keep_ValueError",
        "history_cases", "history_len_3", "history_second_call_checked", "history_chain_compared", "history_chain_byte_equal",
        "history_repeat_same_arg", "history_inplace_prefix_then_fresh", "history_returned_argument_then_mutated",
        "history_fresh_then_inplace", "history_second_convert_version", "history_orig_holds_stage_0",
    ] + (["arg_written_through"] if stats["witness_ALIAS"] else [])  # (only while C15-ALIAS reproduces)
    missing = [k for k in required if stats[k] == 0]
    run.coverage["required_counters"] = {k: stats[k] for k in required}
    if missing:
        raise core.Infra(f"generator degenerated: required coverage counters are zero: {missing}")
    dts = [k for k in stats if k.startswith("payload_dtype_")]
    if len(dts) < 20:
        raise core.Infra(f"generator degenerated: only {len(dts)} element types reached the payload check")
