"""Entry: python -m harness.run <Cxx> [--tier …] [--replay …]"""
import importlib
import sys

from harness import core


def main() -> int:
    if len(sys.argv) < 2:
        print("usage: check <Cxx> [--tier quick|thorough] [--replay f]")
        return 2
    prop = sys.argv[1].upper()
    try:
        mod = importlib.import_module(f"harness.{prop.lower()}")
    except ModuleNotFoundError as e:
        print(f"INFRA no check module for {prop}: {e}")
        return 2
    return core.run_check(prop, mod.main)


if __name__ == "__main__":
    sys.exit(main())
