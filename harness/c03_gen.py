"""C03/C04 — generator of typed random ONNX models (checker-valid, executable on onnxruntime).

Every model is assembled from small "snippets", each aimed at one branch family of
`FoldConstantsPass.process_node` / the partial evaluators / `visit_graph`.  The generator keeps a
typed pool of values (dtype, shape with symbolic dims, constant-derived or input-derived).

Predicates of defects owned by other properties (DESIGN.md section 6: D1-D6, D16) and of the two
C04 findings C04-D1/C04-D2 are avoided *exactly* (see `AVOID` comments); their witnesses live in the corpus.
"""
from __future__ import annotations

import numpy as np
import onnx
from onnx import TensorProto as TP
from onnx import helper as h
from onnx import numpy_helper as nh

NP = {TP.FLOAT: np.float32, TP.INT64: np.int64, TP.BOOL: np.bool_, TP.INT32: np.int32, TP.DOUBLE: np.float64}
SYMS = {"N": 2, "M": 3}


class Val:
    __slots__ = ("name", "dt", "shape", "const", "kind", "shapeval", "addsym")

    def __init__(self, name, dt, shape, const=False, kind="tensor", shapeval=False, addsym=False):
        self.name, self.dt, self.shape, self.const, self.kind = name, dt, list(shape), const, kind
        self.shapeval = shapeval  # carries a shape-like int64 vector
        self.addsym = addsym  # produced by Add over shape values (AVOID D5: never fed to Abs)

    def static(self):
        return all(isinstance(d, int) for d in self.shape)  # None / str dims are not static

    def numel(self):
        n = 1
        for d in self.shape:
            n *= d if isinstance(d, int) else SYMS.get(d, 2)
        return n


class MB:
    """Model builder."""

    def __init__(self, rng, opset=18):
        self.rng = rng
        self.opset = opset
        self.nodes = []
        self.inputs = []  # (name, dt, shape)
        self.inits = []  # TensorProto
        self.vals: list[Val] = []
        self.k = 0
        self.tags = []
        self.init_inputs = []  # names of initializers that are also graph inputs
        self.overrides = {}  # a legal value different from the default, per initializer-input
        self.consumed = set()
        self.outputs = []

    def fresh(self, p="v"):
        self.k += 1
        return f"{p}{self.k}"

    # -- sources
    def add_input(self, dt, shape):
        n = self.fresh("x")
        self.inputs.append((n, dt, list(shape)))
        v = Val(n, dt, shape)
        self.vals.append(v)
        return v

    def rand_array(self, dt, shape):
        rng = self.rng
        n = int(np.prod(shape)) if shape else 1
        if dt == TP.FLOAT or dt == TP.DOUBLE:
            # AVOID D3: constants are never within 1e-3 of 0 or 1 unless exactly 0/1
            vals = [rng.choice([2.0, -3.0, 0.5, 1.5, -0.75, 4.0, 0.25, -2.5]) + rng.randint(0, 3) * 0.125 for _ in range(n)]
            return np.array(vals, dtype=NP[dt]).reshape(shape)
        if dt == TP.BOOL:
            return np.array([rng.random() < 0.5 for _ in range(n)], dtype=np.bool_).reshape(shape)
        return np.array([rng.randint(-4, 6) for _ in range(n)], dtype=NP[dt]).reshape(shape)

    def add_init(self, arr, as_input=False, name=None, override=None):
        n = name or self.fresh("w")
        arr = np.asarray(arr)
        if as_input:
            ov = np.asarray(arr * 2 + 1 if override is None else override, dtype=arr.dtype)
            self.overrides[n] = ov.reshape(arr.shape) if override is None else ov
        self.inits.append(nh.from_array(arr, n))
        dt = nh.from_array(arr).data_type
        if as_input:
            self.inputs.append((n, dt, list(arr.shape)))
            self.init_inputs.append(n)
        v = Val(n, dt, arr.shape, const=not as_input)
        if as_input:
            v.kind = "initinput"
        self.vals.append(v)
        return v

    def add_const_node(self, arr=None, **attr):
        o = self.fresh("c")
        if arr is not None:
            arr = np.asarray(arr)
            self.nodes.append(h.make_node("Constant", [], [o], value=nh.from_array(arr, o + "_t")))
            v = Val(o, nh.from_array(arr).data_type, arr.shape, const=True)
        else:
            self.nodes.append(h.make_node("Constant", [], [o], **attr))
            (k, val), = attr.items()
            if k == "value_ints":
                v = Val(o, TP.INT64, [len(val)], const=True)
            elif k == "value_int":
                v = Val(o, TP.INT64, [], const=True)
            elif k == "value_float":
                v = Val(o, TP.FLOAT, [], const=True)
            elif k == "value_floats":
                v = Val(o, TP.FLOAT, [len(val)], const=True)
            else:
                raise ValueError(k)
        self.vals.append(v)
        return v

    def const(self, arr):
        """A constant either as initializer or as Constant node."""
        if self.rng.random() < 0.5:
            return self.add_init(arr)
        return self.add_const_node(arr)

    # -- nodes
    def node(self, op, ins, dt, shape, n_out=1, const=None, outs=None, **attrs):
        outs = outs or [self.fresh() for _ in range(n_out)]
        self.nodes.append(h.make_node(op, [i.name if isinstance(i, Val) else i for i in ins], outs, **attrs))
        for i in ins:
            if isinstance(i, Val):
                self.consumed.add(i.name)
        if const is None:
            const = all(i.const for i in ins if isinstance(i, Val)) and len([i for i in ins if isinstance(i, Val)]) > 0
        v = Val(outs[0], dt, shape, const=const)
        self.vals.append(v)
        return v

    def pick(self, pred):
        c = [v for v in self.vals if pred(v)]
        return self.rng.choice(c) if c else None

    def tag(self, t):
        self.tags.append(t)


# ----------------------------------------------------------------------------- snippets


def is_f(v):
    return v.kind == "tensor" and v.dt == TP.FLOAT


def dyn_f(v):
    return is_f(v) and not v.const


def s_elementwise(b: MB):
    x = b.pick(dyn_f)
    if x is None:
        return
    r = b.rng.random()
    if r < 0.35:
        op = b.rng.choice(["Neg", "Abs", "Sigmoid", "Tanh", "Floor", "Ceil", "Sqrt", "Exp", "Relu"])
        b.node(op, [x], TP.FLOAT, x.shape)
        b.tag("unary")
    elif r < 0.75:
        c = b.const(b.rand_array(TP.FLOAT, b.rng.choice([[], [1], [x.shape[-1]] if x.shape and isinstance(x.shape[-1], int) else []])))
        op = b.rng.choice(["Add", "Sub", "Mul", "Div"])
        ins = [x, c] if b.rng.random() < 0.6 else [c, x]
        b.node(op, ins, TP.FLOAT, x.shape)
        b.tag("binary_const")
    else:
        y = b.pick(lambda v: dyn_f(v) and v.shape == x.shape)
        # AVOID D4: Min/Max only between input-derived tensors of identical shape
        op = b.rng.choice(["Add", "Sub", "Mul", "Max", "Min"])
        b.node(op, [x, y], TP.FLOAT, x.shape)
        b.tag("binary_dyn")


def s_const_arith(b: MB):
    shape = b.rng.choice([[], [2], [3], [2, 3], [3, 4], [4, 4], [1], [0], [2, 0]])
    dt = b.rng.choice([TP.FLOAT, TP.FLOAT, TP.INT64])
    a = b.const(b.rand_array(dt, shape))
    c2 = b.const(b.rand_array(dt, shape))
    op = b.rng.choice(["Add", "Mul", "Sub"])
    v = b.node(op, [a, c2], dt, shape)
    b.tag("const_arith")
    if b.rng.random() < 0.5:
        # a second layer, reusing an operand (use counts matter for the output-size gate)
        w = b.node(b.rng.choice(["Add", "Mul"]), [v, a if b.rng.random() < 0.5 else v], dt, shape)
        v = w
    if dt == TP.FLOAT:
        x = b.pick(lambda u: dyn_f(u) and (u.shape == shape or shape in ([], [1])))
        if x is not None and shape not in ([0], [2, 0]):
            b.node("Add", [x, v], TP.FLOAT, x.shape)
    return v


def s_transpose_const(b: MB):
    shape = b.rng.choice([[2, 3], [3, 4], [4, 5], [1, 6]])
    a = b.add_init(b.rand_array(TP.FLOAT, shape)) if b.rng.random() < 0.7 else b.add_const_node(b.rand_array(TP.FLOAT, shape))
    t = b.node("Transpose", [a], TP.FLOAT, shape[::-1], perm=[1, 0])
    b.tag("transpose_const")
    if b.rng.random() < 0.4:
        b.node("Neg", [a], TP.FLOAT, shape)  # a second consumer of the large constant
        b.tag("transpose_shared")
    x = b.pick(lambda u: dyn_f(u) and u.shape == shape[::-1])
    if x is not None:
        b.node("Mul", [x, t], TP.FLOAT, x.shape)


def s_cast(b: MB):
    x = b.pick(lambda v: v.kind == "tensor" and v.dt in (TP.FLOAT, TP.INT64))
    if x is None:
        return
    r = b.rng.random()
    if r < 0.3:
        b.node("Cast", [x], x.dt, x.shape, to=x.dt)
        b.tag("cast_same")
    elif r < 0.55:
        to = TP.INT64 if x.dt == TP.FLOAT else TP.FLOAT
        y = b.node("Cast", [x], to, x.shape, to=to)
        b.tag("cast_other")
        if b.rng.random() < 0.5:
            b.node("Cast", [y], to, x.shape, to=to)
            b.tag("cast_chain")
    elif r < 0.8:
        c = b.const(b.rand_array(b.rng.choice([TP.INT64, TP.FLOAT, TP.INT32]), b.rng.choice([[], [1]])))
        y = b.node("CastLike", [c, x], x.dt, c.shape, const=False)
        b.tag("castlike_const")
        if x.dt == TP.FLOAT and not x.const:
            b.node("Mul", [x, y], TP.FLOAT, x.shape)
    else:
        y = b.pick(lambda v: v.kind == "tensor" and v.dt in (TP.FLOAT, TP.INT64))
        o = b.node("CastLike", [x, y], y.dt, x.shape, const=False)
        o.const = False
        b.tag("castlike_dyn")


def s_shape_chain(b: MB):
    x = b.pick(lambda v: v.kind == "tensor" and len(v.shape) >= 1 and not v.const)
    if x is None:
        return
    rank = len(x.shape)
    r = b.rng.random()
    if r < 0.2:
        st = b.rng.randint(-rank, rank - 1)
        en = b.rng.choice([None, rank, st + 1 if st >= 0 else None, rank - 1, -1, st % rank + 1])
        attrs = {"start": st}
        if en is not None:
            attrs["end"] = en
        sl = list(range(rank))[st:en]
        sh = b.node("Shape", [x], TP.INT64, [len(sl)], const=False, **attrs)
        sh.shapeval = True
        b.tag("shape_slice")
        return
    sh = b.node("Shape", [x], TP.INT64, [rank], const=False)
    sh.shapeval = True
    b.tag("shape")
    if None in x.shape and b.rng.random() < 0.5:
        # another tensor with the same *declared* shape (unnamed dims are not known to be equal at run time)
        y = b.pick(lambda v: v.kind == "tensor" and v.name != x.name and v.shape == x.shape and not v.const and v.dt == x.dt)
        if y is not None:
            b.node("Expand", [y, sh], y.dt, x.shape, const=False)
            b.tag("expand_othershape")
            return
    r = b.rng.random()
    if r < 0.25:
        # Reshape / Expand of x by its own shape
        op = b.rng.choice(["Reshape", "Expand"])
        b.node(op, [x, sh], x.dt, x.shape, const=False)
        b.tag(op.lower() + "_ownshape")
    elif r < 0.55:
        n = b.rng.choice([1, 1, 2])
        idx = [b.rng.randint(-rank, rank - 1) for _ in range(n)]
        ic = b.const(np.array(idx, dtype=np.int64))
        kw = {"axis": 0} if b.rng.random() < 0.7 else ({"axis": -1} if b.rng.random() < 0.5 else {})
        g = b.node("Gather", [sh, ic], TP.INT64, [n], const=False, **kw)
        g.shapeval = True
        b.tag("gather_shape")
        r2 = b.rng.random()
        if r2 < 0.3:
            c = b.const(np.array([b.rng.randint(0, 3)] * n, dtype=np.int64))
            a = b.node("Add", [g, c], TP.INT64, [n], const=False)
            a.shapeval = True
            a.addsym = True
            b.tag("add_dims")
        elif r2 < 0.5:
            # AVOID D5: Abs only on shape values that never went through Add
            b.node("Abs", [g], TP.INT64, [n], const=False)
            b.tag("abs_shape")
        elif r2 < 0.8:
            others = [v for v in b.vals if v.shapeval and v.dt == TP.INT64 and len(v.shape) == 1 and not v.addsym]
            parts = [g] + ([b.rng.choice(others)] if others else [])
            if b.rng.random() < 0.3:
                parts.append(b.const(np.array([b.rng.randint(1, 3)], dtype=np.int64)))
            tot = sum(p.shape[0] for p in parts)
            cc = b.node("Concat", parts, TP.INT64, [tot], const=False, axis=0)
            cc.shapeval = True
            b.tag("concat_shape")
    elif r < 0.7:
        b.node("Size", [x], TP.INT64, [], const=False)
        b.tag("size")
    elif r < 0.85:
        ax = b.const(np.array([0], dtype=np.int64))
        if rank == 1:
            q = b.node("Squeeze", [sh, ax], TP.INT64, [], const=False)
            b.tag("squeeze_shape")
    else:
        b.node("Abs", [sh], TP.INT64, [rank], const=False)
        b.tag("abs_shape")


def s_reshape_const(b: MB):
    x = b.pick(lambda v: v.kind == "tensor" and v.static() and len(v.shape) >= 1 and v.numel() > 0 and not v.const)
    if x is None:
        return
    r = b.rng.random()
    if r < 0.35:
        c = b.const(np.array(x.shape, dtype=np.int64))
        b.node("Reshape", [x, c], x.dt, x.shape)
        b.tag("reshape_same")
    elif r < 0.55:
        new = [x.numel()] if b.rng.random() < 0.5 else [-1]
        c = b.const(np.array(new, dtype=np.int64))
        b.node("Reshape", [x, c], x.dt, [x.numel()])
        b.tag("reshape_differ")
    elif r < 0.8:
        c = b.const(np.array(x.shape, dtype=np.int64))
        b.node("Expand", [x, c], x.dt, x.shape)
        b.tag("expand_same")
    else:
        new = [2] + list(x.shape)
        c = b.const(np.array(new, dtype=np.int64))
        b.node("Expand", [x, c], x.dt, new)
        b.tag("expand_differ")


def s_concat_zero(b: MB):
    x = b.pick(lambda v: dyn_f(v) and v.static() and len(v.shape) == 2 and v.numel() > 0)
    if x is None:
        return
    r = b.rng.random()
    if r < 0.25:
        b.node("Concat", [x], TP.FLOAT, x.shape, axis=b.rng.choice([0, 1, -1]))
        b.tag("concat_single")
        return
    axis = b.rng.choice([0, 1, -1, -2])
    ax = axis % 2
    zshape = list(x.shape)
    zshape[ax] = 0
    z = b.const(np.zeros(zshape, dtype=np.float32)) if b.rng.random() < 0.6 else b.add_input(TP.FLOAT, zshape)
    if r < 0.7:
        parts = [x, z] if b.rng.random() < 0.5 else [z, x]
        if b.rng.random() < 0.3:
            parts.append(x)
        oshape = list(x.shape)
        oshape[ax] = sum(p.shape[ax] for p in parts)
        b.node("Concat", parts, TP.FLOAT, oshape, const=False, axis=axis)
        b.tag("concat_dropzero")
    else:
        z2 = b.add_input(TP.FLOAT, zshape)
        b.node("Concat", [z2, z], TP.FLOAT, zshape, const=False, axis=axis)
        b.tag("concat_allzero")


def s_dropout(b: MB):
    x = b.pick(dyn_f)
    if x is None:
        return
    two = b.rng.random() < 0.5
    outs = [b.fresh(), b.fresh()] if two else [b.fresh()]
    r = b.rng.random()
    if r < 0.25:
        ins = [x]
        b.tag("dropout_plain")
    elif r < 0.45:
        ins = [x, b.const(np.array(b.rng.choice([0.5, 0.0]), dtype=np.float32))]
        b.tag("dropout_ratio_only")
    elif r < 0.7:
        ins = [x, b.const(np.array(0.5, dtype=np.float32)), b.const(np.array(False))]
        b.tag("dropout_train_false")
    elif r < 0.8:
        # training mode on, ratio 0: still the identity
        ins = [x, b.const(np.array(0.0, dtype=np.float32)), b.const(np.array(True))]
        b.tag("dropout_train_ratio0")
    elif r < 0.9:
        # training mode decided at run time: feed variants 0, 1 say False, variants 2, 3 say True (`feeds_for`).  The node
        # carries a `seed`, which makes onnxruntime's mask a function of (seed, run number): the k-th run of the original
        # and of the optimized model see the same mask, so the comparison is deterministic in training mode as well.
        tm = b.add_input(TP.BOOL, [])
        ratio = b.rng.choice([0.5, 0.5, 0.25, 0.0])
        ins = [x, b.const(np.array(ratio, dtype=np.float32)), tm]
        b.tag("dropout_train_dynamic")
        if ratio:
            b.tag("dropout_train_dynamic_ratio_nonzero")
        b.node("Dropout", ins, TP.FLOAT, x.shape, outs=outs, const=False, seed=b.rng.randint(1, 999))
        if two:
            b.vals.append(Val(outs[1], TP.BOOL, x.shape))
        return
    else:
        ins = [x, "", b.const(np.array(False))]
        b.tag("dropout_noratio")
    v = b.node("Dropout", ins, TP.FLOAT, x.shape, outs=outs, const=False)
    if two:
        b.vals.append(Val(outs[1], TP.BOOL, x.shape))


def s_identity(b: MB):
    x = b.pick(lambda v: v.kind == "tensor")
    if x is None:
        return
    y = b.node("Identity", [x], x.dt, x.shape, const=x.const)
    y.shapeval = x.shapeval
    b.tag("identity")
    if b.rng.random() < 0.4:
        b.node("Identity", [y], x.dt, x.shape, const=x.const)
        b.tag("identity_chain")
    if b.rng.random() < 0.3 and x.dt == TP.FLOAT:
        b.node("Neg", [y], x.dt, x.shape)


def s_sequence(b: MB):
    xs = [v for v in b.vals if dyn_f(v) and v.static() and len(v.shape) == 2 and v.numel() > 0]
    if not xs:
        return
    x = b.rng.choice(xs)
    r = b.rng.random()
    if r < 0.5:
        same = [v for v in xs if v.shape == x.shape]
        elems = [b.rng.choice(same) for _ in range(b.rng.randint(1, 3))]
        sname = b.fresh("s")
        b.nodes.append(h.make_node("SequenceConstruct", [e.name for e in elems], [sname]))
        b.tag("seq_construct")
        if b.rng.random() < 0.5:
            pos = b.rng.randint(-len(elems), len(elems) - 1)
            p = b.const(np.array(pos, dtype=np.int64))
            b.nodes.append(h.make_node("SequenceAt", [sname, p.name], [o := b.fresh()]))
            b.vals.append(Val(o, TP.FLOAT, x.shape))
            b.tag("seq_at")
        else:
            new_axis = b.rng.choice([0, 1])
            axis = b.rng.choice([0, 1])
            if new_axis:
                oshape = list(x.shape)
                oshape.insert(axis, len(elems))
            else:
                oshape = list(x.shape)
                oshape[axis] = oshape[axis] * len(elems)
            b.nodes.append(h.make_node("ConcatFromSequence", [sname], [o := b.fresh()], axis=axis, new_axis=new_axis))
            b.vals.append(Val(o, TP.FLOAT, oshape))
            b.tag(f"seq_concat_newaxis{new_axis}")
    else:
        axis = b.rng.choice([0, 1, -1])
        d = x.shape[axis]
        keep = b.rng.choice([1, 1, 0])
        mode = b.rng.random()
        sname = b.fresh("s")
        if mode < 0.08:
            # split size decided at run time (C04-D2, fixed): the evaluator must decline
            spv = b.add_input(TP.INT64, [])
            b.nodes.append(h.make_node("SplitToSequence", [x.name, spv.name], [sname], axis=axis))
            b.nodes.append(h.make_node("SequenceAt", [sname, b.const(np.array(0, dtype=np.int64)).name], [o := b.fresh()]))
            oshape = list(x.shape)
            oshape[axis] = None
            b.vals.append(Val(o, TP.FLOAT, oshape))
            b.consumed.add(x.name)
            b.tag("sts_dynamic_scalar")
            return
        if mode < 0.45:
            unev = [k for k in range(1, d + 1) if d % k]
            sz = b.rng.choice(unev) if unev and b.rng.random() < 0.5 else b.rng.randint(1, max(1, d))
            sp = b.const(np.array(sz, dtype=np.int64))  # AVOID C04-D2: a scalar split is always a constant
            chunks = [sz] * (d // sz) + ([d % sz] if d % sz else [])
            b.tag("sts_scalar_uneven" if d % sz else "sts_scalar_even")
        else:
            k = b.rng.randint(1, min(3, d))
            chunks = [d // k] * k
            chunks[-1] += d - sum(chunks)
            if any(c <= 0 for c in chunks):
                return
            sp = b.const(np.array(chunks, dtype=np.int64))
            b.tag("sts_vector")
        kw = {"axis": axis}
        if keep == 0 and all(c == 1 for c in chunks):
            kw["keepdims"] = 0
            b.tag("sts_keepdims0")
        else:
            keep = 1
        b.nodes.append(h.make_node("SplitToSequence", [x.name, sp.name], [sname], **kw))
        pos = b.rng.randint(-len(chunks), len(chunks) - 1)
        p = b.const(np.array(pos, dtype=np.int64))
        oshape = list(x.shape)
        oshape[axis] = chunks[pos]
        if keep == 0:
            del oshape[axis % 2]
        b.nodes.append(h.make_node("SequenceAt", [sname, p.name], [o := b.fresh()]))
        b.vals.append(Val(o, TP.FLOAT, oshape))


def s_if(b: MB, depth=0):
    x = b.pick(lambda v: dyn_f(v) and v.numel() > 0)
    if x is None:
        return
    rng = b.rng
    r = rng.random()
    if r < 0.55:
        cval = rng.random() < 0.5
        cond = b.const(np.array(cval)) if rng.random() < 0.7 else b.const(np.array([cval]))
        b.tag("if_const_" + ("then" if cval else "else"))
    elif r < 0.7:
        # constant-derived condition: folded first, then the If is inlined
        c1 = b.const(np.array(rng.randint(0, 3), dtype=np.int64))
        c2 = b.const(np.array(rng.randint(0, 3), dtype=np.int64))
        cond = b.node("Less", [c1, c2], TP.BOOL, [])
        b.tag("if_foldedcond")
    else:
        red = b.node("ReduceSum", [x], TP.FLOAT, [], keepdims=0)
        z = b.const(np.array(0.5, dtype=np.float32))
        cond = b.node("Greater", [red, z], TP.BOOL, [], const=False)
        b.tag("if_dynamic")

    def branch(tagname):
        nodes, inits = [], []
        o = b.fresh("b")
        rr = rng.random()
        w = b.fresh("bw")
        arr = b.rand_array(TP.FLOAT, [])
        if rr < 0.3:
            inits.append(nh.from_array(arr, w))
            nodes.append(h.make_node("Mul", [x.name, w], [o]))
            b.tag("branch_init")
        elif rr < 0.55:
            nodes.append(h.make_node("Constant", [], [w], value=nh.from_array(arr, w + "_t")))
            w2 = b.fresh("bw")
            nodes.append(h.make_node("Constant", [], [w2], value=nh.from_array(b.rand_array(TP.FLOAT, []), w2 + "_t")))
            w3 = b.fresh("bw")
            nodes.append(h.make_node("Add", [w, w2], [w3]))  # foldable inside the branch
            nodes.append(h.make_node("Add", [x.name, w3], [o]))
            b.tag("branch_fold")
        elif rr < 0.68:
            t = b.fresh("bt")
            nodes.append(h.make_node("Neg", [x.name], [t]))
            nodes.append(h.make_node("Identity", [t], [o]))  # output alias inside a subgraph
            b.tag("branch_alias")
        elif rr < 0.75:
            # the branch returns an alias of an *outer* value: the output must not be replaced across graphs
            nodes.append(h.make_node("Identity", [x.name], [o]))
            b.tag("branch_alias_outer")
        elif rr < 0.9:
            oc = b.pick(lambda v: is_f(v) and v.const and v.shape in ([], [1]))
            if oc is None:
                nodes.append(h.make_node("Relu", [x.name], [o]))
            else:
                # captured outer constant
                t = b.fresh("bt")
                nodes.append(h.make_node("Add", [oc.name, oc.name], [t]))
                nodes.append(h.make_node("Mul", [x.name, t], [o]))
                b.consumed.add(oc.name)
                b.tag("branch_capture_const")
        else:
            t = b.fresh("bt")
            nodes.append(h.make_node("Cast", [x.name], [t], to=TP.FLOAT))
            nodes.append(h.make_node("Abs", [t], [o]))
            b.tag("branch_cast")
        out = h.make_tensor_value_info(o, TP.FLOAT, [d if isinstance(d, int) else d for d in x.shape])
        return h.make_graph(nodes, tagname, [], [out], initializer=inits)

    tb, eb = branch("then"), branch("else")
    b.consumed.add(x.name)
    b.consumed.add(cond.name)
    o = b.fresh()
    b.nodes.append(h.make_node("If", [cond.name], [o], then_branch=tb, else_branch=eb))
    b.vals.append(Val(o, TP.FLOAT, x.shape))


def s_loop_scan(b: MB):
    """Loop / Scan bodies: formal inputs inside a body (graph-input guard), captured outer values, foldable constants,
    an Identity alias on a body output."""
    rng = b.rng
    x = b.pick(lambda v: dyn_f(v) and v.static() and 1 <= len(v.shape) <= 2 and v.numel() > 0)
    if x is None:
        return
    b.consumed.add(x.name)
    k1, k2 = b.fresh("lw"), b.fresh("lw")
    body_consts = [h.make_node("Constant", [], [k1], value=nh.from_array(b.rand_array(TP.FLOAT, []), k1 + "_t")),
                   h.make_node("Constant", [], [k2], value=nh.from_array(b.rand_array(TP.FLOAT, []), k2 + "_t"))]
    kk = b.fresh("lw")
    fold = h.make_node("Mul", [k1, k2], [kk])  # foldable inside the body
    oc = b.pick(lambda v: is_f(v) and v.const and v.shape in ([], [1]))
    if rng.random() < 0.5:
        it, ci, v, co, vo, t = (b.fresh("li") for _ in range(6))
        nodes = body_consts + [fold, h.make_node("Mul", [v, kk], [t])]
        if oc is not None and rng.random() < 0.6:
            t2 = b.fresh("li")
            nodes.append(h.make_node("Add", [t, oc.name], [t2]))  # captured outer constant
            b.consumed.add(oc.name)
            t = t2
        if rng.random() < 0.5:
            nodes.append(h.make_node("Identity", [t], [vo]))  # alias on a body output
        else:
            nodes.append(h.make_node("Neg", [t], [vo]))
        nodes.append(h.make_node("Identity", [ci], [co]))
        body = h.make_graph(nodes, "loop_body",
                            [h.make_tensor_value_info(it, TP.INT64, []), h.make_tensor_value_info(ci, TP.BOOL, []),
                             h.make_tensor_value_info(v, TP.FLOAT, x.shape)],
                            [h.make_tensor_value_info(co, TP.BOOL, []), h.make_tensor_value_info(vo, TP.FLOAT, x.shape)])
        m = b.const(np.array(rng.randint(1, 3), dtype=np.int64))
        c = b.const(np.array(True))
        o = b.fresh()
        b.nodes.append(h.make_node("Loop", [m.name, c.name, x.name], [o], body=body))
        b.consumed.update([m.name, c.name])
        b.vals.append(Val(o, TP.FLOAT, x.shape))
        b.tag("loop")
    else:
        if len(x.shape) != 2:
            return
        st_in, el, st_out, so = (b.fresh("sc") for _ in range(4))
        row = [x.shape[1]]
        nodes = body_consts + [fold, h.make_node("Add", [st_in, el], [st_out]), h.make_node("Mul", [el, kk], [so])]
        body = h.make_graph(nodes, "scan_body",
                            [h.make_tensor_value_info(st_in, TP.FLOAT, row), h.make_tensor_value_info(el, TP.FLOAT, row)],
                            [h.make_tensor_value_info(st_out, TP.FLOAT, row), h.make_tensor_value_info(so, TP.FLOAT, row)])
        init = b.const(b.rand_array(TP.FLOAT, row))
        o1, o2 = b.fresh(), b.fresh()
        b.nodes.append(h.make_node("Scan", [init.name, x.name], [o1, o2], body=body, num_scan_inputs=1))
        b.consumed.add(init.name)
        b.vals.append(Val(o1, TP.FLOAT, row))
        b.vals.append(Val(o2, TP.FLOAT, x.shape))
        b.tag("scan")


def s_gates(b: MB):
    r = b.rng.random()
    if r < 0.3:
        sh = b.const(np.array(b.rng.choice([[2], [2, 3], [0]]), dtype=np.int64))
        kw = {}
        if b.rng.random() < 0.6:
            kw["value"] = nh.from_array(np.array([b.rng.choice([1.5, 2.0])], dtype=np.float32))
        shape = None
        v = b.node("ConstantOfShape", [sh], TP.FLOAT, ["?"], **kw)
        v.kind = "opaque"
        b.tag("gate_blacklist")
    elif r < 0.55:
        a = b.const(b.rand_array(TP.FLOAT, [4]))
        outs = [b.fresh(), b.fresh()]
        kw = {"num_outputs": 2} if b.opset >= 18 else {}
        b.node("Split", [a], TP.FLOAT, [2], outs=outs, axis=0, **kw)
        b.vals.append(Val(outs[1], TP.FLOAT, [2], const=True))
        b.tag("gate_multiout")
    elif r < 0.8:
        sh = [2, 3]
        rn = b.fresh()
        b.nodes.append(h.make_node("RandomUniform", [], [rn], shape=sh, seed=1.0))
        v = Val(rn, TP.FLOAT, sh)
        v.kind = "random"
        b.vals.append(v)
        s = b.node("Shape", [v], TP.INT64, [2], const=False)
        s.shapeval = True
        b.tag("gate_nondeterministic")
    elif r < 0.9:
        a = b.const(b.rand_array(TP.INT64, [3]))
        b.node("Neg", [a], TP.INT64, [3])
        b.tag("const_unary")
    else:
        # all-constant node with an absent optional operand in the middle: Clip(c, <none>, hi)
        a = b.const(b.rand_array(TP.FLOAT, [4]))
        hi = b.const(np.array(1.25, dtype=np.float32))
        b.node("Clip", [a, "", hi], TP.FLOAT, [4], const=True)
        b.tag("const_optional_gap")


def s_init_input(b: MB):
    shape = b.rng.choice([[], [3], [2, 3]])
    w = b.add_init(b.rand_array(TP.FLOAT, shape), as_input=True)
    c = b.const(b.rand_array(TP.FLOAT, shape))
    # all inputs carry const_value, but one is a graph input: the guard must keep the node
    v = b.node("Mul", [w, c], TP.FLOAT, shape, const=False)
    b.tag("initinput_guard")
    x = b.pick(lambda u: dyn_f(u) and (u.shape == shape or shape == []))
    if x is not None:
        b.node("Add", [x, v], TP.FLOAT, x.shape)
    r = b.rng.random()
    if r < 0.2:
        b.node("Cast", [w], TP.FLOAT, shape, const=False, to=TP.FLOAT)
        b.tag("initinput_cast")
    elif r < 0.4:
        # an *optional* operand that is an overridable default: without the graph-input guard the node would be
        # evaluated with that operand missing
        lo = b.add_init(np.array(1.0, dtype=np.float32), as_input=True)
        cc = b.const(b.rand_array(TP.FLOAT, [3]))
        b.node("Clip", [cc, lo], TP.FLOAT, [3], const=False)
        b.tag("initinput_optional_operand")
    elif r < 0.7:
        # an overridable default at a position whose *value* an evaluator would like to read (C04-D1, fixed):
        # AVOID C04-D6: the initializer-input keeps a consumer that is not replaced (Reshape/Expand/Dropout stay)
        x2 = b.pick(lambda u: dyn_f(u) and u.static() and len(u.shape) >= 1 and u.numel() > 0)
        if x2 is not None:
            k = b.rng.random()
            if k < 0.4:
                sw = b.add_init(np.array(x2.shape, dtype=np.int64), as_input=True, override=np.array([-1] + list(x2.shape[1:]), dtype=np.int64))  # same result shape: declared shapes stay truthful
                b.node("Reshape", [x2, sw], TP.FLOAT, [None] * len(x2.shape), const=False)
                b.tag("initinput_reshape")
            elif k < 0.8:
                sw = b.add_init(np.array(x2.shape, dtype=np.int64), as_input=True,
                                override=np.array([d if k else 1 for k, d in enumerate(x2.shape)], dtype=np.int64))
                b.node("Expand", [x2, sw], TP.FLOAT, [None] * len(x2.shape), const=False)
                b.tag("initinput_expand")
            else:
                # the Dropout is replaced (training_mode off) and the initializer-input loses its only consumer:
                # it must nevertheless keep its default (C04-D6, fixed)
                rw = b.add_init(np.array(0.0, dtype=np.float32), as_input=True, override=np.array(0.5, dtype=np.float32))
                b.node("Dropout", [x2, rw, b.const(np.array(False))], TP.FLOAT, x2.shape, const=False)
                b.tag("initinput_dropout_ratio")


def s_guarded_rules(b: MB):
    """Rule families that DO test `is_graph_input` on the clean tree, fed an overridable default: successive
    Clip / Relu fusions whose bounds include an initializer that is also a graph input.  The rule must refuse; if it
    does not, the override run tells."""
    x = b.pick(lambda u: dyn_f(u) and u.static() and u.numel() > 0)
    if x is None:
        return
    rng = b.rng
    lo = b.add_init(np.array(rng.choice([-1.0, 0.5]), dtype=np.float32), as_input=True, override=np.array(-3.0, dtype=np.float32))
    hi = b.const(np.array(rng.choice([2.0, 3.5]), dtype=np.float32))
    kind = rng.choice(["clipclip_first", "clipclip_second", "relu_clip", "clip_relu"])
    lo2, hi2 = b.const(np.array(-2.0, dtype=np.float32)), b.const(np.array(4.0, dtype=np.float32))
    if kind == "clipclip_first":
        y = b.node("Clip", [x, lo, hi], TP.FLOAT, x.shape, const=False)
        b.node("Clip", [y, lo2, hi2], TP.FLOAT, x.shape, const=False)
    elif kind == "clipclip_second":
        y = b.node("Clip", [x, lo2, hi2], TP.FLOAT, x.shape, const=False)
        b.node("Clip", [y, lo, hi], TP.FLOAT, x.shape, const=False)
    elif kind == "relu_clip":
        y = b.node("Relu", [x], TP.FLOAT, x.shape, const=False)
        b.node("Clip", [y, lo, hi], TP.FLOAT, x.shape, const=False)
    else:
        y = b.node("Clip", [x, lo, hi], TP.FLOAT, x.shape, const=False)
        b.node("Relu", [y], TP.FLOAT, x.shape, const=False)
    b.tag("guarded_" + kind)


def s_shared_folded_shape(b: MB):
    """A target shape with a -1 entry that is (1) computed by a foldable chain, so the folder turns it into an initializer
    during the same optimize() call, (2) consumed by a Reshape-of-Reshape (a rule may specialise its entries) and (3) by a
    Reshape of a tensor of another size: the shared constant must not be written in place."""
    x = b.pick(lambda u: dyn_f(u) and u.static() and len(u.shape) == 2 and u.numel() > 0)
    if x is None:
        return
    n, m = x.shape
    c1, c2 = b.const(np.array([-1], dtype=np.int64)), b.const(np.array([m], dtype=np.int64))
    s = b.node("Concat", [c1, c2], TP.INT64, [2], axis=0)
    sa = b.const(np.array([n * m], dtype=np.int64))
    r1 = b.node("Reshape", [x, sa], TP.FLOAT, [n * m], const=False)
    b.node("Reshape", [r1, s], TP.FLOAT, [n, m], const=False)
    z = b.node("Concat", [x, x], TP.FLOAT, [2 * n, m], axis=0, const=False)
    b.node("Reshape", [z, s], TP.FLOAT, [2 * n, m], const=False)
    b.tag("shared_folded_shape")


def s_expand_lower_rank(b: MB):
    """Expand with a constant target of LOWER rank than the input: broadcasting aligns on the right, so x:[k,1] with target
    [k] yields [k,k] (a target that matches the input's LEADING dims is not a no-op)."""
    x = b.pick(lambda u: dyn_f(u) and u.static() and len(u.shape) == 2 and 0 < u.numel() <= 12)
    if x is None:
        return
    n, m = x.shape
    k = n * m
    r = b.node("Reshape", [x, b.const(np.array([k, 1], dtype=np.int64))], TP.FLOAT, [k, 1], const=False)
    kind = b.rng.choice(["lead", "lead", "one", "trail"])
    if kind == "lead":      # target equals the leading dim: the true result is [k, k]
        tgt, oshape = [k], [k, k]
    elif kind == "one":     # a real no-op
        tgt, oshape = [1], [k, 1]
    else:                   # three-dimensional input, two-dimensional target matching the leading dims
        r = b.node("Reshape", [x, b.const(np.array([k, 1, 1], dtype=np.int64))], TP.FLOAT, [k, 1, 1], const=False)
        tgt, oshape = [k, 1], [k, k, 1]
    b.node("Expand", [r, b.const(np.array(tgt, dtype=np.int64))], TP.FLOAT, oshape, const=False)
    b.tag("expand_lower_rank_" + kind)


def s_rule_pairs(b: MB):
    """Two successive single-parameter shape operators with constant parameters, matched by the default rewrite rules
    (UnsqueezeUnsqueeze, TransposeTranspose/TransposeIdentity, Flatten2Reshape).  The two parameters are drawn so that every
    order relation between them (<, =, >) and the boundary values (0, rank, -1) occur deliberately; each class has its tag."""
    rng = b.rng
    x = b.pick(lambda u: dyn_f(u) and u.static() and 1 <= len(u.shape) <= 2 and u.numel() > 0)
    if x is None:
        return
    r = len(x.shape)
    kind = rng.choice(["unsqueeze", "unsqueeze", "transpose", "flatten"])
    if kind == "unsqueeze":
        rel = rng.choice(["lt", "eq", "gt"])
        pairs = [(p, q) for p in range(r + 1) for q in range(r + 2) if (p < q, p == q, p > q)[("lt", "eq", "gt").index(rel)]]
        a1, a2 = rng.choice(pairs)
        s1 = list(np.expand_dims(np.zeros(x.shape), a1).shape)
        s2 = list(np.expand_dims(np.zeros(s1), a2).shape)
        neg = rng.random() < 0.2  # the same position written as a negative axis
        u = b.node("Unsqueeze", [x, b.const(np.array([a1], dtype=np.int64))], TP.FLOAT, s1, const=False)
        b.node("Unsqueeze", [u, b.const(np.array([a2 - len(s2) if neg else a2], dtype=np.int64))], TP.FLOAT, s2, const=False)
        b.tag("rulepair_unsqueeze_" + rel + ("_negative" if neg else ""))
        b.tag("rulepair_unsqueeze_" + rel)
    elif kind == "transpose":
        if r != 2:
            return
        p1, p2 = rng.choice([([1, 0], [1, 0]), ([1, 0], [1, 0]), ([0, 1], [1, 0]), ([1, 0], [0, 1]), ([0, 1], [0, 1])])
        s1 = [x.shape[i] for i in p1]
        t = b.node("Transpose", [x], TP.FLOAT, s1, const=False, perm=p1)
        b.node("Transpose", [t], TP.FLOAT, [s1[i] for i in p2], const=False, perm=p2)
        b.tag("rulepair_transpose_" + ("inverse" if p1 == p2 == [1, 0] else "identity" if p1 == p2 else "mixed"))
    else:
        ax = rng.choice([0, 1, r, -1])
        a = ax if ax >= 0 else ax + r
        lead = int(np.prod(x.shape[:a])) if a else 1
        b.node("Flatten", [x], TP.FLOAT, [lead, int(np.prod(x.shape[a:])) if a < r else 1], const=False, axis=ax)
        b.tag("rule_flatten_axis_" + ("0" if ax == 0 else "rank" if ax == r else "neg" if ax < 0 else "mid"))


def s_const_nodes(b: MB):
    r = b.rng.random()
    if r < 0.3:
        v = b.add_const_node(value_ints=[b.rng.randint(1, 4) for _ in range(b.rng.randint(1, 3))])
        b.tag("const_value_ints")
    elif r < 0.5:
        v = b.add_const_node(value_int=b.rng.randint(0, 5))
        b.tag("const_value_int")
    elif r < 0.75:
        v = b.add_const_node(value_float=float(b.rng.choice([0.5, 2.0, -1.5])))
        b.tag("const_value_float")
    else:
        v = b.add_const_node(value_floats=[0.5, 2.5])
        b.tag("const_value_floats")
    if v.dt == TP.INT64:
        c = b.const(b.rand_array(TP.INT64, v.shape))
        b.node("Add", [v, c], TP.INT64, v.shape)
    else:
        b.node("Neg", [v], TP.FLOAT, v.shape)


SNIPPETS = [
    (s_elementwise, 5), (s_const_arith, 4), (s_transpose_const, 2), (s_cast, 4), (s_shape_chain, 6),
    (s_reshape_const, 3), (s_concat_zero, 2), (s_dropout, 3), (s_identity, 3), (s_sequence, 3),
    (s_if, 4), (s_gates, 2), (s_init_input, 2), (s_const_nodes, 2), (s_loop_scan, 2), (s_guarded_rules, 1), (s_shared_folded_shape, 1), (s_expand_lower_rank, 1), (s_rule_pairs, 3),
]


def s_fragment_a(b: MB):
    """One step of a model that stays inside the domain of the end-to-end theorem `fold_fragmentA_preserves`:
    operators without a partial evaluator (so no Add/Abs/Reshape/…), Constant nodes, Identity, one-operand Concat,
    inference-mode Dropout with one output, Cast, CastLike."""
    rng = b.rng
    r = rng.random()
    x = b.pick(dyn_f)
    if r < 0.2 or x is None:
        shape = rng.choice([[], [2], [3], [2, 3]])
        a, c2 = b.const(b.rand_array(TP.FLOAT, shape)), b.const(b.rand_array(TP.FLOAT, shape))
        v = b.node(rng.choice(["Mul", "Sub", "Div"]), [a, c2], TP.FLOAT, shape)
        if rng.random() < 0.5:
            v = b.node("Neg", [v], TP.FLOAT, shape) if rng.random() < 0.5 else b.node("Mul", [v, a], TP.FLOAT, shape)
        y = b.pick(lambda u: dyn_f(u) and (u.shape == shape or shape in ([], [1])))
        if y is not None:
            b.node("Mul", [y, v], TP.FLOAT, y.shape)
    elif r < 0.35:
        op = rng.choice(["Neg", "Sigmoid", "Tanh", "Floor", "Relu", "Exp"])
        b.node(op, [x], TP.FLOAT, x.shape)
    elif r < 0.5:
        y = b.node("Identity", [x], TP.FLOAT, x.shape, const=False)
        if rng.random() < 0.6:
            b.node(rng.choice(["Neg", "Relu"]), [y], TP.FLOAT, x.shape)
    elif r < 0.6:
        b.node("Concat", [x], TP.FLOAT, x.shape, axis=0, const=False)
    elif r < 0.72:
        ins = [x] if rng.random() < 0.5 else [x, b.const(np.array(rng.choice([0.5, 0.0]), dtype=np.float32))]
        b.node("Dropout", ins, TP.FLOAT, x.shape, const=False)
    elif r < 0.86:
        if rng.random() < 0.5:
            b.node("Cast", [x], TP.FLOAT, x.shape, to=TP.FLOAT, const=False)
        else:
            y = b.node("Cast", [x], TP.INT64, x.shape, to=TP.INT64, const=False)
            b.node("Cast", [y], TP.FLOAT, x.shape, to=TP.FLOAT, const=False)
    else:
        w = b.pick(lambda u: u.kind == "tensor" and u.dt in (TP.FLOAT, TP.INT64) and u.name != x.name)
        if w is not None:
            b.node("CastLike", [x, w], w.dt, x.shape, const=False)
    b.tag("fragment_a")


def gen_model_fragment_a(rng, opset=None):
    """A model all of whose nodes lie in fragment A (the driver confirms it: `thm:fragmentA`)."""
    b = MB(rng, opset or rng.choice([18, 18, 17, 20]))
    base = rng.choice([[2, 3], [3], ["N", 3], [2, "M"], ["N"]])
    b.add_input(TP.FLOAT, base)
    if rng.random() < 0.5:
        b.add_input(TP.FLOAT, base)
    for _ in range(rng.randint(3, 8)):
        s_fragment_a(b)
    return finish(b)


def gen_model(rng, opset=None):
    """Returns (ModelProto, meta) or None if assembly failed."""
    opset = opset or rng.choice([18, 18, 17, 20])
    b = MB(rng, opset)
    base = rng.choice([[2, 3], [3, 4], ["N", 3], [2, "M"], [3], ["N"], [1, 3], ["N", "M"], [None, 3], [None], [2, None]])
    b.add_input(TP.FLOAT, base)
    if rng.random() < 0.6:
        b.add_input(TP.FLOAT, base if rng.random() < 0.6 else rng.choice([[2, 3], [4, 3], [3]]))
    if rng.random() < 0.3:
        b.add_input(TP.INT64, rng.choice([[2], ["N"], [2, 2]]))
    fns = [f for f, w in SNIPPETS for _ in range(w)]
    for _ in range(rng.randint(3, 9)):
        rng.choice(fns)(b)
    return finish(b)


def finish(b: MB):
    rng = b.rng
    in_names = {n for n, _, _ in b.inputs}
    cands = [v for v in b.vals if v.kind == "tensor" and v.name not in in_names and not any(i.name == v.name for i in b.inits)]
    leaves = [v for v in cands if v.name not in b.consumed]
    outs = leaves[:]
    extra = [v for v in cands if v.name in b.consumed]
    rng.shuffle(extra)
    outs += extra[: rng.randint(0, 2)]
    if not outs:
        return None
    if len(outs) > 7:
        rng.shuffle(outs)
        outs = outs[:7]
    if rng.random() < 0.15:
        # an initializer that is itself a graph output (it must survive even when its consumers are folded away)
        init_vals = [v for v in b.vals if v.kind == "tensor" and v.const and any(i.name == v.name for i in b.inits)
                     and v.name in b.consumed and v.name not in in_names]
        if init_vals:
            outs.append(rng.choice(init_vals))
            b.tag("initializer_as_output")
    gouts = [h.make_tensor_value_info(v.name, v.dt, None) for v in outs]
    gins = [h.make_tensor_value_info(n, dt, shape) for n, dt, shape in b.inputs]
    g = h.make_graph(b.nodes, "g", gins, gouts, initializer=b.inits)
    m = h.make_model(g, opset_imports=[h.make_opsetid("", b.opset)], ir_version=8 if b.opset <= 18 else 9)
    try:
        inf = onnx.shape_inference.infer_shapes(m, strict_mode=True, data_prop=False)
    except Exception as e:  # generator bug: report to the caller as a refusal
        return ("refused", f"infer:{type(e).__name__}:{str(e)[:200]}", b.tags)
    vi = {v.name: v for v in inf.graph.value_info}
    vi.update({v.name: v for v in inf.graph.output})
    del m.graph.output[:]
    for v in outs:
        t = vi.get(v.name)
        if t is None or not t.type.tensor_type.HasField("shape"):
            # declare the rank only
            m.graph.output.append(h.make_tensor_value_info(v.name, v.dt, [None] * len(v.shape)))
        else:
            m.graph.output.append(t)
    return ("ok", m, {"tags": b.tags, "init_inputs": b.init_inputs, "overrides": dict(b.overrides), "syms": dict(SYMS)})


def feeds_for(model, rng, variant: int, override: dict | None = None):
    """Input feed number `variant` (0: zeros/ones mix, 1: ±1 and negatives, 2: large, 3+: random)."""
    init_names = {i.name for i in model.graph.initializer}
    syms = [{"N": 2, "M": 3}, {"N": 1, "M": 3}, {"N": 4, "M": 2}, {"N": 3, "M": 1}][variant % 4]
    feeds = {}
    # unnamed dims are independent of each other: the first input and the others get different sizes in variants 1, 2
    unnamed = [(2, 2), (1, 3), (3, 1), (1, 1)][variant % 4]
    idx = -1
    for i in model.graph.input:
        if i.name in init_names:
            if override and i.name in override:
                feeds[i.name] = override[i.name]
            continue
        idx += 1
        tt = i.type.tensor_type
        shape = [d.dim_value if d.HasField("dim_value") else
                 (syms.get(d.dim_param, 2) if d.dim_param else unnamed[min(idx, 1)]) for d in tt.shape.dim]
        n = int(np.prod(shape)) if shape else 1
        if tt.elem_type == TP.FLOAT:
            if variant == 0:
                a = np.array([[0.0, 1.0, -1.0][k % 3] for k in range(n)], dtype=np.float32)
            elif variant == 1:
                a = np.array([-(k + 1) * 0.5 for k in range(n)], dtype=np.float32)
            elif variant == 2:
                a = np.array([(k + 1) * 1e4 * (-1) ** k for k in range(n)], dtype=np.float32)
            else:
                a = np.array([rng.uniform(-3, 3) for _ in range(n)], dtype=np.float32)
        elif tt.elem_type == TP.INT64:
            a = np.array([[0, 1, -1, 7][(k + variant) % 4] for k in range(n)], dtype=np.int64)
            if not shape:
                a = np.array([[2, 1, 3, 7][variant % 4]], dtype=np.int64)
        elif tt.elem_type == TP.BOOL:
            # run-time flags (Dropout's training_mode): off in variants 0, 1, ON in variants 2, 3
            a = np.array([variant >= 2] * n, dtype=np.bool_)
        else:
            a = np.zeros(n, dtype=NP[tt.elem_type])
        feeds[i.name] = a.reshape(shape)
    return feeds
