"""Regenerate every translator-produced Lean table (lean/OV/Gen/*) from /repo's current source, so that
a fresh checkout builds.  Called by setup.sh; every check also regenerates its own tables on every run."""
import sys
import traceback

from harness import core


def step(name, fn):
    try:
        fn()
        print(f"[pregen] {name}: ok", flush=True)
    except Exception:  # a translator failing here is reported by the owning check, not by setup
        print(f"[pregen] {name}: FAILED", flush=True)
        traceback.print_exc()


def main():
    gen = core.LEAN / "OV" / "Gen"

    def c05():
        from harness import extract_rules
        extract_rules.regenerate()

    def c08():
        from harness import extract_torchlib
        extract_torchlib.regenerate()

    def c12():
        from harness import extract_schemas
        extract_schemas.regenerate()

    def c14():
        from harness import extract_stash
        extract_stash.write_lean(extract_stash.extract(core.REPO), core.LEAN)

    def c16():
        from harness import extract_registry as ex
        ex.emit(ex.load()["rows"], gen)

    def c17():
        from harness import extract_opsets as X
        X.emit_lean(X.extract_all(core.REPO))

    def c10():
        from harness import c10_extract
        c10_extract.regenerate()

    def c15():
        from harness import extract_c15
        extract_c15.regenerate()

    def c04():
        from harness import c04_extract
        c04_extract.regenerate()

    def c15f():
        from harness import c15_fields
        c15_fields.regenerate()

    def c19():
        from harness import c19_extract
        c19_extract.write_lean(c19_extract.extract(core.REPO), core.LEAN)

    for name, fn in [("C19", c19), ("C04", c04), ("C15Fields", c15f), ("C10", c10), ("C15", c15), ("C05", c05), ("C12", c12), ("C14", c14), ("C17", c17), ("C16", c16), ("C08", c08)]:
        step(name, fn)


if __name__ == "__main__":
    sys.exit(main())
