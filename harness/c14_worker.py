"""C14 worker: a real interpreter (own PYTHONHASHSEED) executing operation sequences on the real onnxscript.

Protocol (stdin/stdout, one JSON object per line):
    request  {"id": .., "ops": [op, ...], "monitor": bool}
    reply    {"id": .., "seed": "<PYTHONHASHSEED>", "results": [res, ...], "events": {...}, "names": [...], "ctrl": [...]}

Every request is executed in a *forked child* of this process, i.e. starting from the state the
interpreter has right after importing onnxscript (what a fresh process has) — unless the request says
"nofork" (then it runs in this very process, used for the true-fresh-process samples where the process
handles exactly one request).  Within a request the ops run one after the other in the same
interpreter: the same module-level rule singletons, the same shared pass objects, the same decorator
object, the same Opset cache, the same `_pattern_builder` global.

A result is {"k": kind, "digest": sha256 of SerializeToString() (or of the canonical observable), "err": class
name or None, ...extras}.  Nothing here judges anything; harness/c14.py compares digests.
"""
from __future__ import annotations

import hashlib
import json
import os
import sys
import traceback


def _sha(b: bytes) -> str:
    return hashlib.sha256(b).hexdigest()[:24]


# --------------------------------------------------------------------------- shared objects (created once per process)

_S: dict = {}


def shared():
    """Objects the property calls 'the same decorator, pass and rule objects'."""
    if _S:
        return _S
    import onnx
    import onnxscript
    from onnxscript import ir, optimizer, rewriter, version_converter
    from onnxscript import opset18
    from onnxscript.optimizer import _constant_folding as cf
    from onnxscript.rewriter import _pattern_ir, pattern
    from onnxscript.rewriter.rules.common import _materialize_reshape_shape  # noqa: F401
    from onnxscript.rewriter.rules.fusion import _layer_norm, _rms_normalization

    _S["onnx"] = onnx
    _S["ir"] = ir
    _S["onnxscript"] = onnxscript
    _S["optimizer"] = optimizer
    _S["rewriter"] = rewriter
    _S["vc"] = version_converter
    _S["cf"] = cf
    _S["pir"] = _pattern_ir
    _S["pattern"] = pattern
    _S["DEC"] = onnxscript.script(default_opset=opset18)  # one decorator object for every script
    _S["hook"] = {"raise_on": None}

    def should_fold(node):
        ro = _S["hook"]["raise_on"]
        if ro is not None and node.op_type == ro:
            raise RuntimeError(f"injected failure while folding {ro}")
        return None

    _S["FOLD"] = cf.FoldConstantsPass(
        shape_inference=True, input_size_limit=8192, output_size_limit=8192, should_fold=should_fold
    )
    _S["REWRITE"] = rewriter.RewritePass(rewriter._DEFAULT_REWRITE_RULES)
    _S["rulesets"] = {
        "default": rewriter._DEFAULT_REWRITE_RULES,
        "layer_norm": _layer_norm.layer_normalization_ruleset,
        "rms_norm": _rms_normalization.rms_normalization_ruleset,
    }

    # a class-based rule of our own whose rewrite raises: appended after the default singletons so that
    # their check() methods run (and stash) before the whole operation is aborted by the exception
    class Boom(pattern.RewriteRuleClassBase):
        def pattern(self, op, x):
            return op.Softsign(x)

        def check(self, context, x):
            self._seen = x.name
            return True

        def rewrite(self, op, x):
            raise RuntimeError("injected failure in rewrite of " + str(self._seen))

    _S["rulesets"]["default_then_boom"] = pattern.RewriteRuleSet(
        [*rewriter._DEFAULT_REWRITE_RULES, Boom.rule()]
    )
    # as_function=True over matched nodes of three non-default domains: the extracted function's opset imports
    def _af_pattern(op, x):
        b = op.B(x, _domain="custom.b")
        c = op.C(b, _domain="custom.c")
        return op.A(c, _domain="custom.a")

    _S["rulesets"]["as_function"] = pattern.RewriteRuleSet(
        [pattern.RewriteRule(_af_pattern, lambda op, x: op.Fused(x, _domain="custom.f"), as_function=True)]
    )
    # commuted variants share ONE rule-class instance (one stash) among several RewriteRule objects
    _S["rulesets"]["layer_norm_commute"] = pattern.RewriteRuleSet(list(_layer_norm.layer_normalization_rules), commute=True)
    _S["rulesets"]["boom_first"] = pattern.RewriteRuleSet([Boom.rule(), *rewriter._DEFAULT_REWRITE_RULES])
    return _S


# --------------------------------------------------------------------------- monitor


class Monitor:
    """Observes (from outside) what every real try_rewrite does with the rule object's fields."""

    def __init__(self):
        self.cur = None  # current event
        self.phase = None
        self.events: dict[str, int] = {}
        self.installed = False

    def install(self):
        if self.installed:
            return
        self.installed = True
        S = shared()
        seen_rules = set()
        for rs in S["rulesets"].values():
            for rule in rs:
                if id(rule) in seen_rules:
                    continue
                seen_rules.add(id(rule))
                cf = getattr(rule, "_condition_function", None)
                if getattr(cf, "_c14_wrapper", False):
                    continue
                inst = getattr(cf, "__self__", None)
                if inst is None or not hasattr(inst, "rewrite"):
                    continue
                self._wrap_rule(rule, inst)

    def _wrap_rule(self, rule, inst):
        mon = self
        cls = type(inst)
        if not getattr(cls, "_c14_traced", False):

            class Traced(cls):  # type: ignore[misc, valid-type]
                _c14_traced = True

                def __getattribute__(self, name):
                    if name.startswith("__") or mon.cur is None:
                        return object.__getattribute__(self, name)
                    d = object.__getattribute__(self, "__dict__")
                    try:
                        v = object.__getattribute__(self, name)
                    except AttributeError:
                        mon.read(name)
                        raise
                    if name in d:
                        mon.read(name)
                    return v

                def __setattr__(self, name, value):
                    if mon.cur is not None:
                        mon.write(name)
                    object.__setattr__(self, name, value)

            Traced.__name__ = cls.__name__
            Traced.__qualname__ = cls.__qualname__
            Traced.__module__ = cls.__module__
            inst.__class__ = Traced
        modname = cls.__module__.rsplit(".", 1)[-1]
        rname = f"{modname}.{cls.__name__}"
        check0 = rule._condition_function
        repl = rule._replacement_pattern
        rew0 = repl._function

        def check(*a, **k):
            mon.begin(rname)
            mon.phase = "check"
            ok = False
            try:
                r = check0(*a, **k)
                ok = bool(r)
                return r
            finally:
                mon.phase = None
                mon.cur["ok"] = ok
                if not ok:
                    mon.end()

        def rewrite(*a, **k):
            if mon.cur is None:
                mon.begin(rname)
                mon.cur["ok"] = True
                mon.cur["nocheck"] = True
            mon.phase = "rewrite"
            try:
                return rew0(*a, **k)
            finally:
                mon.phase = None
                mon.end()

        check._c14_wrapper = True
        rule._condition_function = check
        if not getattr(repl, "_c14_wrapped", False):  # commuted rules share the replacement object
            repl._function = rewrite
            repl._c14_wrapped = True

    def begin(self, rname):
        if self.cur is not None:
            self.end()
        self.cur = {"rule": rname, "ok": False, "W": set(), "CR": set(), "R2": set(), "W2": set()}

    def read(self, name):
        c = self.cur
        if self.phase == "check":
            if name not in c["W"]:
                c["CR"].add(name)
        elif self.phase == "rewrite":
            if name not in c["W2"]:
                c["R2"].add(name)

    def write(self, name):
        c = self.cur
        if self.phase == "check":
            c["W"].add(name)
        elif self.phase == "rewrite":
            c["W2"].add(name)

    def end(self):
        c = self.cur
        self.cur = None
        if c is None:
            return
        stale = sorted(c["R2"] - c["W"])
        key = json.dumps(
            [c["rule"], "ok" if c["ok"] else "fail", sorted(c["W"]), sorted(c["CR"]), sorted(c["R2"]), stale,
             bool(c.get("nocheck"))]
        )
        self.events[key] = self.events.get(key, 0) + 1


class EntryMonitor:
    """Small-step monitor of the objects that outlive one operation (the generated `entryRows`): for every
    outermost call of the entry method of a monitored object, the ordered sequence of FIRST occurrences of
    `read <field>` / `write <field>` events on the object's own instance fields, whether the call was left by an
    exception, and whether the previous call on the SAME object was.  The sequence is what the Lean model calls a
    trace of a `Prog`; the discipline (`traceOk`) is checked by the driver against the generated row."""

    def __init__(self):
        self.installed = False
        self.entry: dict[str, str] = {}
        self.active: dict[int, dict] = {}
        self.last_raised: dict[int, bool] = {}
        self.calls: dict[str, int] = {}
        self._traced: dict[type, type] = {}
        self.keep: list = []  # monitored objects (kept alive: ids are keys)

    def install(self, entry: dict):
        if self.installed:
            return
        self.installed = True
        self.entry = dict(entry)
        S = shared()
        self.attach(S["FOLD"])
        self.attach(S["REWRITE"])
        self.attach(S["REWRITE"].rules)
        for rs in S["rulesets"].values():
            self.attach(rs)
        for p_ in S.get("CONVERT_PASSES", {}).values():
            self.attach_convert(p_)

    def attach_convert(self, p_):
        if not self.installed:
            return
        self.attach(p_)
        inner = getattr(p_, "_convert_pass", None)
        if inner is not None:
            self.attach(inner)

    def attach(self, inst):
        cls = type(inst)
        if getattr(cls, "_c14_entry_traced", False):
            return
        name = cls.__name__
        if name not in self.entry:
            return
        self.keep.append(inst)
        traced = self._traced.get(cls)
        if traced is None:
            traced = self._traced[cls] = self._make(cls, name)
        inst.__class__ = traced
        # objects this one holds: the rules of a rule set, the matcher of a rule
        if name == "RewriteRuleSet":
            for r in inst.rules:
                self.attach(r)
        m = inst.__dict__.get("_matcher")
        if m is not None:
            self.attach(m)

    def _make(self, cls, name):
        mon = self
        active = self.active

        class Traced(cls):  # type: ignore[misc, valid-type]
            _c14_entry_traced = True

            def __getattribute__(self, attr):
                st = active.get(id(self))
                if st is None or attr.startswith("__"):
                    return object.__getattribute__(self, attr)
                try:
                    v = object.__getattribute__(self, attr)
                except AttributeError:
                    mon.ev(st, "r:" + attr)
                    raise
                if attr in object.__getattribute__(self, "__dict__"):
                    mon.ev(st, "r:" + attr)
                return v

            def __setattr__(self, attr, value):
                st = active.get(id(self))
                if st is not None:
                    mon.ev(st, "w:" + attr)
                object.__setattr__(self, attr, value)

        en = self.entry[name]
        if en == "<public>":
            names = sorted({n for k in cls.__mro__ if k.__module__.startswith("onnxscript") for n, f in vars(k).items()
                            if not n.startswith("_") and callable(f) and not isinstance(f, (staticmethod, classmethod, property))})
        else:
            names = [en]
        for n in names:
            setattr(Traced, n, self._wrap(getattr(cls, n), name))
        Traced.__name__ = cls.__name__
        Traced.__qualname__ = cls.__qualname__
        Traced.__module__ = cls.__module__
        return Traced

    def _wrap(self, orig, clsname):
        mon = self
        active = self.active

        def entry_call(self, *a, **k):
            key = id(self)
            if key in active:  # re-entered on the same object: part of the outer call
                return orig(self, *a, **k)
            st = active[key] = {"seen": set(), "tr": []}
            raised = False
            try:
                return orig(self, *a, **k)
            except BaseException:
                raised = True
                raise
            finally:
                del active[key]
                mon.finish(clsname, key, st, raised)

        entry_call.__name__ = getattr(orig, "__name__", "entry_call")
        return entry_call

    @staticmethod
    def ev(st, e):
        if e not in st["seen"]:
            st["seen"].add(e)
            st["tr"].append(e)

    def finish(self, clsname, key, st, raised):
        after = bool(self.last_raised.get(key))
        self.last_raised[key] = raised
        k = json.dumps([clsname, int(raised), int(after), st["tr"]])
        self.calls[k] = self.calls.get(k, 0) + 1


class NameLog:
    """Wraps Converter._generate_unique_name and _translate_if/_loop to expose (used, nextvar, candidate, result)
    and (set iteration order in this process, live_defs handed to the branches)."""

    def __init__(self):
        self.names: list = []
        self.ctrl: list = []
        self.installed = False

    def install(self):
        if self.installed:
            return
        self.installed = True
        from onnxscript._internal import converter as conv

        log = self
        C = conv.Converter
        g0 = C._generate_unique_name
        if0 = C._translate_if_stmt
        blk0 = C._translate_block

        def gen(self, candidate="tmp"):
            used = sorted(self._used_vars)
            nv = self._nextvar
            r = g0(self, candidate)
            if len(log.names) < 400:
                log.names.append([used, nv, candidate, r])
            return r

        def tif(self, stmt):
            cc = self.analyzer.constant_if_condition(stmt)
            if cc is None or (cc is not True and cc is not False):
                s = self.analyzer.assigned_vars(stmt)
                lo = self.analyzer.live_out(stmt)
                if lo is not None:
                    s = lo.intersection(s)
                log._pending = list(s)  # this interpreter's iteration order of the very same kind of set
            return if0(self, stmt)

        def blk(self, stmts, name, live_defs):
            if name.startswith("thenGraph_") and getattr(log, "_pending", None) is not None:
                log.ctrl.append([log._pending, list(live_defs)])
                log._pending = None
            return blk0(self, stmts, name, live_defs)

        C._generate_unique_name = gen
        C._translate_if_stmt = tif
        C._translate_block = blk


MON = Monitor()
EMON = EntryMonitor()
NAMES = NameLog()

# --------------------------------------------------------------------------- operations


def model_from_text(text: str):
    S = shared()
    return S["onnx"].parser.parse_model(text)


def ser_ir(m) -> bytes:
    S = shared()
    return S["ir"].serde.serialize_model(m).SerializeToString()


def _consts_of(proto_bytes: bytes, sub_only: bool = False) -> list:
    import numpy as np
    from onnx import numpy_helper

    S = shared()
    m = S["onnx"].ModelProto()
    m.ParseFromString(proto_bytes)
    cs = []

    def walk(g, top):
        for n in g.node:
            if n.op_type == "Constant" and not (top and sub_only):
                for a in n.attribute:
                    if a.name == "value":
                        cs.append(np.asarray(numpy_helper.to_array(a.t)).reshape(-1).astype(np.int64).tolist())
                    elif a.name == "value_int":
                        cs.append([int(a.i)])
                    elif a.name == "value_ints":
                        cs.append([int(v) for v in a.ints])
            for a in n.attribute:
                if a.HasField("g"):
                    walk(a.g, False)

    walk(m.graph, True)
    return cs


def op_script(op: dict) -> dict:
    """Decorate one generated function with the shared decorator; observe its protos."""
    from harness import scriptgen

    S = shared()
    import harness.c14_worker as me  # the decorator object lives here

    me.DEC = S["DEC"]
    name = op["name"]
    hdr = "import harness.c14_worker as _w\nDEC = _w.DEC\n" + op.get("header", "")
    src = op["src"]
    fn, err, modname = scriptgen.compile_functions([(name, src)], header_extra=hdr)
    res: dict = {"k": "script"}
    try:
        if name in err:
            res["err"] = err[name][0]
            res["digest"] = "ERR:" + err[name][0]
            return res
        f = fn[name]
        res["err"] = None
        fp0 = f.to_function_proto().SerializeToString()
        mp = [f.to_model_proto().SerializeToString() for _ in range(int(op.get("n_proto", 2)))]
        fp1 = f.to_function_proto().SerializeToString()
        res["digest"] = _sha(mp[0])
        res["fdigest"] = _sha(fp0)
        res["repeat_equal"] = all(m == mp[0] for m in mp)
        res["function_unchanged"] = fp0 == fp1
        import numpy as np

        mod = sys.modules[modname]
        if "eager_x" in op:
            x = np.array(op["eager_x"], dtype=np.int64)
            try:
                res["eager_before"] = np.asarray(f(x)).astype(np.int64).tolist()
            except Exception as e:  # noqa: BLE001
                res["eager_before"] = "ERR:" + type(e).__name__
        if op.get("mutate"):
            for gname, val in op["mutate"]:
                cur = getattr(mod, gname, None)
                if isinstance(val, dict) and val.get("inplace") and isinstance(cur, list):
                    cur[:] = val["inplace"]
                elif isinstance(val, dict) and "ndarray" in val:
                    if val.get("inplace_nd") == "imul" and isinstance(cur, np.ndarray):
                        cur *= int(val["ndarray"][0])
                    elif val.get("inplace_nd") and isinstance(cur, np.ndarray):
                        cur[...] = np.array(val["ndarray"], dtype=cur.dtype)
                    else:
                        setattr(mod, gname, np.array(val["ndarray"], dtype=np.int64))
                elif isinstance(val, dict) and "tensorproto" in val:
                    from onnx import numpy_helper as _nh

                    new = _nh.from_array(np.array(val["tensorproto"], dtype=np.int64), cur.name)
                    cur.CopyFrom(new)  # in-place mutation of the TensorProto object
                else:
                    setattr(mod, gname, val)
            mp2 = f.to_model_proto().SerializeToString()
            fp2 = f.to_function_proto().SerializeToString()
            res["after_mutation_equal"] = (mp2 == mp[0]) and (fp2 == fp0)
            if op.get("want_consts"):
                res["consts_after"] = _consts_of(mp2, bool(op.get("in_loop")))
            if "eager_x" in op:
                try:
                    res["eager_after"] = np.asarray(f(x)).astype(np.int64).tolist()
                except Exception as e:  # noqa: BLE001
                    res["eager_after"] = "ERR:" + type(e).__name__
        if op.get("proto_overrides"):
            # to_model_proto(**overrides) on a function created by the process-wide decorator object, then plain again
            kw_before = dict(f.kwargs)
            plain_before = f.to_model_proto().SerializeToString()
            try:
                res["override_digest"] = _sha(f.to_model_proto(**kw_decode(op["proto_overrides"])).SerializeToString())
            except Exception as e:  # noqa: BLE001
                res["override_digest"] = "ERR:" + type(e).__name__
            res["plain_after_override_equal"] = f.to_model_proto().SerializeToString() == plain_before
            res["kwargs_unchanged"] = dict(f.kwargs) == kw_before
        if op.get("want_consts"):
            from onnx import numpy_helper

            m = S["onnx"].ModelProto()
            m.ParseFromString(mp[0])
            cs = _consts_of(mp[0], bool(op.get("in_loop")))
            res["consts"] = cs
            if "eager_x" in op:
                try:
                    from onnx.reference import ReferenceEvaluator

                    out = ReferenceEvaluator(m).run(None, {m.graph.input[0].name: x})[0]
                    res["graph_value"] = np.asarray(out).astype(np.int64).tolist()
                except Exception as e:  # noqa: BLE001
                    res["graph_value"] = "ERR:" + type(e).__name__
        if op.get("want_ctrl"):
            m = S["onnx"].ModelProto()
            m.ParseFromString(mp[0])
            outs = []

            def walk(g):
                for n in g.node:
                    if n.op_type in ("If", "Loop"):
                        outs.append([n.op_type, list(n.output)])
                    for a in n.attribute:
                        if a.HasField("g"):
                            walk(a.g)

            walk(m.graph)
            res["ctrl_outputs"] = outs
        return res
    finally:
        scriptgen.release(modname)


KW_STR = {"producer_name": "p", "doc_string": "d", "producer_version": "v", "domain": "dom"}
KW_INT = ("ir_version", "model_version", "opset_version")


def kw_decode(over: dict) -> dict:
    """ints of the generated case -> real keyword values"""
    import onnxscript

    out = {}
    for k, v in over.items():
        if k in KW_STR:
            out[k] = f"{KW_STR[k]}{v}"
        elif k == "io_types":
            out[k] = {1: onnxscript.FLOAT, 7: onnxscript.INT64, 11: onnxscript.DOUBLE}[int(v)]
        else:
            out[k] = int(v)
    return out


def kw_encode_val(k: str, v):
    if k in KW_STR and isinstance(v, str) and v.startswith(KW_STR[k]) and v[len(KW_STR[k]):].lstrip("-").isdigit():
        return int(v[len(KW_STR[k]):])
    if k == "io_types":
        return int(getattr(v, "dtype", -1))
    if isinstance(v, int):
        return int(v)
    return repr(v)


def kw_observe(proto_bytes: bytes) -> dict:
    """what the emitted ModelProto shows for each keyword (None = the library default shows)"""
    S = shared()
    m = S["onnx"].ModelProto()
    m.ParseFromString(proto_bytes)
    obs = {"ir_version": int(m.ir_version), "model_version": int(m.model_version)}
    for k, pre in KW_STR.items():
        v = getattr(m, k)
        obs[k] = int(v[len(pre):]) if v.startswith(pre) and v[len(pre):].lstrip("-").isdigit() else (None if v == "" else v)
    t = m.graph.input[0].type.tensor_type.elem_type if m.graph.input and m.graph.input[0].HasField("type") else 0
    obs["io_types"] = int(t) or None
    return obs


def op_kwseq(op: dict) -> dict:
    """Functions created by shared / separate `script(...)` decorator objects; a history of
    to_model_proto(**overrides) calls on any of them; then the target call, a plain call and to_function_proto."""
    from harness import scriptgen

    hdr = ""
    for j, base in enumerate(op["decos"]):
        args = "".join(f", {k}={v!r}" for k, v in kw_decode(base).items() if k != "io_types")
        hdr += f"KD{j} = script(default_opset=op{args})\n"
    bodies = []
    for i, dj in enumerate(op["fns"]):
        bodies.append((f"kf{i}", f"@KD{dj}\ndef kf{i}(x):\n    return op.Abs(op.Neg(x))\n" if i % 2 == 0
                       else f"@KD{dj}\ndef kf{i}(x, y: FLOAT[2]):\n    return op.Add(x, y)\n"))
    fn, err, modname = scriptgen.compile_functions(bodies, header_extra=hdr)
    try:
        if err:
            return {"k": "kwseq", "err": "compile:" + str(err)[:200], "digest": "ERR:compile"}
        fns = [fn[f"kf{i}"] for i in range(len(op["fns"]))]
        snap = lambda: [{k: kw_encode_val(k, v) for k, v in sorted(f.kwargs.items())} for f in fns]  # noqa: E731
        attrs = lambda: [sorted(k for k in vars(f) if not k.startswith("__")) for f in fns]  # noqa: E731
        kw0, at0 = snap(), attrs()
        fp0 = [f.to_function_proto().SerializeToString() for f in fns]
        call_errs = 0
        for fi, over in op["calls"]:
            try:
                fns[fi].to_model_proto(**kw_decode(over))
            except Exception:  # noqa: BLE001
                call_errs += 1
        ti, tover = op["target"]
        p1 = fns[ti].to_model_proto(**kw_decode(tover)).SerializeToString()
        p2 = fns[ti].to_model_proto().SerializeToString()
        fp1 = [f.to_function_proto().SerializeToString() for f in fns]
        kw1, at1 = snap(), attrs()
        shared_ids = [[int(fns[a].kwargs is fns[b].kwargs) for b in range(len(fns))] for a in range(len(fns))]
        res = {
            "k": "kwseq", "err": None,
            "digest": _sha(p1 + b"|" + p2 + b"|" + fp1[ti]),
            "eff": kw_observe(p1), "plain": kw_observe(p2),
            "kwargs_before": kw0, "kwargs_after": kw1,
            "kwargs_unchanged": kw0 == kw1 and at0 == at1,
            "function_protos_unchanged": fp0 == fp1,
            "shared": shared_ids, "call_errs": call_errs,
        }
        return res
    finally:
        scriptgen.release(modname)


def op_model(op: dict) -> dict:
    S = shared()
    ir = S["ir"]
    kind = op["op"]
    res: dict = {"k": kind}
    try:
        proto = model_from_text(op["model"])
        if kind == "optimize":
            m = ir.serde.deserialize_model(proto)
            S["optimizer"].optimize(m)
            out = ser_ir(m)
        elif kind == "optimize_proto":
            out = S["optimizer"].optimize(proto).SerializeToString()
        elif kind == "fold":
            m = ir.serde.deserialize_model(proto)
            S["hook"]["raise_on"] = op.get("raise_on")
            try:
                r = S["FOLD"](m)
            finally:
                S["hook"]["raise_on"] = None
            out = ser_ir(m)
            res["modified"] = bool(r.modified)
            res["symmap"] = len(r.symbolic_value_map)
            out += b"|modified=%d|sym=%d" % (int(bool(r.modified)), len(r.symbolic_value_map))
        elif kind == "rewrite":
            m = ir.serde.deserialize_model(proto)
            rs = op.get("rules", "default")
            if rs == "default_pass":
                def _names(mm):
                    ns = set()
                    for g_ in (mm.graph, *mm.functions.values()):
                        ns.update(v.name for v in g_.inputs if v.name)
                        if hasattr(g_, "initializers"):
                            ns.update(g_.initializers)
                        for nd in S["ir"].traversal.RecursiveGraphIterator(g_):
                            ns.update(v.name for v in nd.outputs if v.name)
                    return ns

                before = _names(m)
                r = S["REWRITE"](m)
                out = ser_ir(m) + b"|modified=%d" % int(bool(r.modified))
                after = _names(m)
                import re as _re

                res["names_before"] = sorted(before)
                res["new_val_names"] = sorted((n for n in after - before if _re.fullmatch(r"val_\d+", n)), key=lambda n: int(n[4:]))
            elif rs == "multi_domain":
                # a replacement that introduces several NEW opset domains (TapeBuilder.used_opsets is a set)
                doms = list(op["domains"])

                def _repl(op_, x, _doms=doms):
                    v = x
                    for i, d in enumerate(_doms):
                        v = getattr(op_, f"Op{i}")(v, _domain=d)
                    return v

                rule = S["pattern"].RewriteRule(lambda op_, x: op_.Softsign(x), _repl)
                m = S["rewriter"].rewrite(m, [rule])
                out = ser_ir(m)
                pm = S["ir"].serde.serialize_model(m)
                res["opset_imports"] = [[o.domain, int(o.version)] for o in pm.opset_import]
                probe = set()
                for d in doms:
                    probe.add((d, None))  # same elements, same insertion order as TapeBuilder._record_opset
                res["set_iter"] = [d for d, _ in probe]
                imps = sorted(pm.opset_import, key=lambda o: o.domain)
                del pm.opset_import[:]
                pm.opset_import.extend(imps)
                res["digest_sorted_imports"] = _sha(pm.SerializeToString())
            else:
                m = S["rewriter"].rewrite(m, S["rulesets"][rs])
                out = ser_ir(m)
                if rs == "as_function":
                    pm = S["ir"].serde.serialize_model(m)
                    res["function_imports"] = [[[o.domain, int(o.version)] for o in f.opset_import] for f in pm.functions]
        elif kind == "rewrite_proto":
            out = S["rewriter"].rewrite(proto).SerializeToString()
        elif kind == "convert_pass":
            # the SAME ConvertVersionPass object (one per target version) converts every model of the process
            m = ir.serde.deserialize_model(proto)
            passes = S.setdefault("CONVERT_PASSES", {})
            tgt = int(op["target"])
            if tgt not in passes:
                passes[tgt] = S["vc"].ConvertVersionPass(target_version=tgt)
                EMON.attach_convert(passes[tgt])
            def _vnames(mm):
                ns = set()
                for g_ in (mm.graph, *mm.functions.values()):
                    ns.update(v.name for v in g_.inputs if v.name)
                    for nd in S["ir"].traversal.RecursiveGraphIterator(g_):
                        ns.update(v.name for v in nd.inputs if v is not None and v.name)
                        ns.update(v.name for v in nd.outputs if v.name)
                return ns

            import re as _re

            before = _vnames(m)
            r = passes[tgt](m)
            out = ser_ir(r.model) + b"|modified=%d" % int(bool(r.modified))
            after = _vnames(r.model)
            res["names_before"] = sorted(before)
            res["new_val_names"] = sorted((n for n in after - before if _re.fullmatch(r"val_\d+", n)), key=lambda n: int(n[4:]))
            res["other_new_names"] = sorted(n for n in after - before if not _re.fullmatch(r"val_\d+", n))
        elif kind == "convert":
            m = ir.serde.deserialize_model(proto)
            S["vc"].convert_version(m, int(op["target"]), fallback=bool(op.get("fallback", False)))
            out = ser_ir(m)
        elif kind == "convert_proto":
            S["vc"].convert_version(proto, int(op["target"]))
            out = proto.SerializeToString()
        else:
            raise ValueError(kind)
        res["err"] = None
        res["digest"] = _sha(out)
        if op.get("watch_op"):
            # is the watched operator still in the result (= the folder found no evaluator / did not fold it)?
            pm = S["onnx"].ModelProto()
            pm.ParseFromString(out.split(b"|modified=")[0])
            res["watch_left"] = sum(1 for n_ in pm.graph.node if n_.op_type == op["watch_op"])
        if op.get("want_text"):
            m2 = S["onnx"].ModelProto()
            m2.ParseFromString(out.split(b"|modified=")[0])
            res["text"] = S["onnx"].printer.to_text(m2)
    except Exception as e:  # noqa: BLE001
        res["err"] = type(e).__name__
        res["digest"] = "ERR:" + type(e).__name__
        if op.get("want_text"):
            res["text"] = traceback.format_exc()[-600:]
    return res


def _builder_for(k: int):
    S = shared()
    if k == 0:
        return S["pir"].onnxop
    return S["pir"].OpsetPatternBuilder(f"dom{k}")


def _builder_id(domain_str: str) -> int:
    if domain_str == "":
        return 0
    if domain_str.startswith("dom"):
        return int(domain_str[3:])
    return -1


def _run_events(evs, seen):
    S = shared()
    pir = S["pir"]
    for e in evs:
        if e == "s":
            v = pir.Var("x") + pir.Var("y")
            seen.append(_builder_id(str(v.producer().domain)))
        elif e == "r":
            raise RuntimeError("injected failure inside pattern_builder")
        else:
            with pir.pattern_builder(_builder_for(int(e[0]))):
                _run_events(e[1], seen)


def op_pattern(op: dict) -> dict:
    """`with pattern_builder(b): body` where body = nested events; exceptions are caught here (the caller)."""
    S = shared()
    pir = S["pir"]
    seen: list = []
    raised = False
    try:
        with pir.pattern_builder(_builder_for(int(op["b"]))):
            _run_events(op["body"], seen)
    except RuntimeError:
        raised = True
    g = _builder_id(str(pir._pattern_builder.domain_pattern()))
    obs = {"global": g, "seen": seen, "raised": raised}
    return {"k": "pattern", "err": "RuntimeError" if raised else None, "digest": _sha(json.dumps(obs).encode()), **obs}


def op_sugar(op: dict) -> dict:
    """Operator sugar outside any context manager, then a rule built from it applied to a model."""
    S = shared()
    pir = S["pir"]
    v = pir.Var("x") + pir.Var("y")
    dom = str(v.producer().domain)
    obs = {"builder": _builder_id(dom)}
    return {"k": "sugar", "err": None, "digest": _sha(json.dumps(obs).encode()), **obs}


def op_badpattern(op: dict) -> dict:
    """Constructing a RewriteRule whose pattern function raises inside `_to_graph_pattern`'s context manager."""
    S = shared()
    pattern = S["pattern"]
    err = None
    try:
        pattern.RewriteRule(lambda op, x: op.Add(x, ["a", "b"]), lambda op, x: op.Identity(x))
    except Exception as e:  # noqa: BLE001
        err = type(e).__name__
    return {"k": "badpattern", "err": err, "digest": "ERR:" + str(err)}


def op_opset(op: dict) -> dict:
    from onnxscript import values

    o = values.Opset(op["domain"], int(op["version"]))
    o2 = values.Opset(op["domain"], int(op["version"]))
    from onnxscript import opset18 as _o18

    base18 = values.Opset("", 18)
    obs = {"fields": [o.domain, o.version], "same_instance": o is o2,
           "subclass": [type(_o18)() is _o18, base18 is not _o18, [base18.domain, base18.version], [_o18.domain, _o18.version]]}
    return {"k": "opset", "err": None, "digest": _sha(json.dumps(obs).encode()), **obs}


def op_conv_reuse(op: dict) -> dict:
    """Internal API: ONE Converter object translating several functions in a row (observes `_castable` leaking)."""
    import ast
    import textwrap

    from onnxscript import opset18, values
    from onnxscript._internal import converter

    env = {"op": opset18}
    exec("from onnxscript import FLOAT, INT64\n", env)  # noqa: S102
    c = converter.Converter(opset=values.Opset("this", 1), global_names=env, default_opset=opset18)
    outs = []
    for src in op["srcs"]:
        src = textwrap.dedent(src)
        c.source = src
        f_ast = ast.parse(src).body[0]
        try:
            r = c.translate_function_def(f_ast)
            fp = r.to_function_proto()
            outs.append({"digest": _sha(fp.SerializeToString()), "ops": [n.op_type for n in fp.node]})
        except Exception as e:  # noqa: BLE001
            outs.append({"digest": "ERR:" + type(e).__name__, "ops": []})
    last = outs[-1]
    return {"k": "conv_reuse", "err": None, "digest": last["digest"], "ops": last["ops"]}


def op_evalctx(op: dict) -> dict:
    """`with evaluator.default_as(e): body` (body may raise, nests); afterwards the default evaluator must be back."""
    from onnxscript._internal import evaluator

    class Ev(evaluator.ORTEvaluator):
        def __init__(self, k):
            super().__init__()
            self.k = k

    base = evaluator.default()
    seen: list = []

    def run(evs):
        for e in evs:
            if e == "s":
                d = evaluator.default()
                seen.append(getattr(d, "k", 0))
            elif e == "r":
                raise RuntimeError("injected failure inside default_as")
            else:
                with evaluator.default_as(Ev(int(e[0]))):
                    run(e[1])

    raised = False
    try:
        with evaluator.default_as(Ev(int(op["b"]))):
            run(op["body"])
    except RuntimeError:
        raised = True
    g = 0 if evaluator.default() is base else getattr(evaluator.default(), "k", -1)
    obs = {"global": g, "seen": seen, "raised": raised}
    return {"k": "evalctx", "err": "RuntimeError" if raised else None, "digest": _sha(json.dumps(obs).encode()), **obs}


def op_header(op: dict) -> dict:
    """to_model_proto header glue: a main function calling sub-functions of custom domains; observes the inputs of the
    header computation on the real objects and the header of the emitted model."""
    import onnx

    from harness import scriptgen

    hdr = "from onnxscript.values import Opset\nHCUST = Opset('cust.dom', 2)\n"
    for i, sf in enumerate(op["subs"]):
        body = f"{sf['std']}.Neg(x)" if sf["std"] else (f"hs{sf['calls']}(x)" if sf.get("calls") is not None else "HCUST.Foo(x)")
        hdr += f"HD{i} = Opset({sf['domain']!r}, {sf['version']})\n@script(HD{i}, default_opset={sf['std'] or 'op'})\ndef hs{i}(x):\n    return {body}\n\n"
    m = op["main"]
    expr = "x"
    for i in m["calls"]:
        expr = f"hs{i}({expr})"
    if m["std"]:
        expr = f"{m['std']}.Abs({expr})"
    elif not m["calls"]:
        expr = "HCUST.Foo(x)"
    src = f"@script(Opset({m['domain']!r}, {m['version']}), default_opset=op)\ndef hmain(x: FLOAT[3]):\n    return {expr}\n"
    fn, err, modname = scriptgen.compile_functions([("hmain", src)], header_extra=hdr)
    try:
        if err:
            return {"k": "header", "err": err["hmain"][0], "digest": "ERR:" + err["hmain"][0]}
        f = fn["hmain"]
        gi = [[d, int(v)] for d, v in f.function_ir.graph.opset_imports.items()]
        funcs = []
        for sub in f.function_ir.get_called_functions().values():
            fi = sub.function_ir
            std = fi.opset_imports.get("")
            funcs.append([fi.domain, int(fi.meta.get("opset_version", 1)), None if std is None else int(std)])
        kw = {k: int(v) for k, v in op.get("kw", {}).items()}
        p = f.to_model_proto(**kw)
        table = {int(k[1]): int(v) for k, v in onnx.helper.OP_SET_ID_VERSION_MAP.items() if k[0] == "ai.onnx"}
        obs = {
            "graph_imports": gi, "funcs": funcs,
            "imports": [[o.domain, int(o.version)] for o in p.opset_import], "ir_version": int(p.ir_version),
            "latest": int(onnx.defs.onnx_opset_version()), "table": sorted(table.items()), "max_ir": max(table.values()),
        }
        return {"k": "header", "err": None, "digest": _sha(p.SerializeToString()), **obs}
    finally:
        scriptgen.release(modname)


def _fp(obj, depth=0) -> str:
    import re

    def short(v):
        t = type(v).__name__
        try:
            return f"{t}#{len(v)}"
        except Exception:  # noqa: BLE001
            return t

    if isinstance(obj, dict):
        body = sorted(re.sub(r"0x[0-9a-f]+", "0x", repr(k)) + ":" + short(v) for k, v in obj.items())
    elif isinstance(obj, (list, tuple)):
        body = [short(v) for v in obj]
    elif isinstance(obj, (set, frozenset)):
        body = sorted(re.sub(r"0x[0-9a-f]+", "0x", repr(k)) for k in obj)
    elif hasattr(obj, "__dict__") and depth == 0:
        body = sorted(f"{k}={_fp(v, 1)}" for k, v in vars(obj).items() if not k.startswith("__"))
    else:
        body = [short(obj)]
    return _sha(json.dumps(body).encode()) + f"#{len(body)}"


def op_gfp(op: dict) -> dict:
    """fingerprints of the process-wide objects listed by the generated table (file, dotted name)"""
    import importlib

    out = {}
    for file, name in op["rows"]:
        mod = importlib.import_module(file[:-3].replace("/", "."))
        try:
            obj = mod
            for part in name.split("."):
                obj = getattr(obj, part)
            out[f"{file}:{name}"] = _fp(obj)
        except Exception as e:  # noqa: BLE001
            out[f"{file}:{name}"] = "ERR:" + type(e).__name__
    return {"k": "gfp", "err": None, "digest": _sha(json.dumps(out, sort_keys=True).encode()), "fp": out}


OPS = {
    "script": op_script,
    "model": op_model,
    "pattern": op_pattern,
    "sugar": op_sugar,
    "badpattern": op_badpattern,
    "opset": op_opset,
    "conv_reuse": op_conv_reuse,
    "kwseq": op_kwseq,
    "evalctx": op_evalctx,
    "gfp": op_gfp,
    "header": op_header,
}


def run_request(req: dict) -> dict:
    if req.get("monitor"):
        MON.install()
        NAMES.install()
        if req.get("entry"):
            EMON.install(req["entry"])
    results = []
    for op in req["ops"]:
        try:
            results.append(OPS[op["k"]](op))
        except Exception as e:  # noqa: BLE001
            tb = traceback.extract_tb(e.__traceback__)
            last = tb[-1].filename if tb else ""
            if "/harness/" in last or not tb:
                # harness bug inside the worker: reported, judged as infrastructure
                results.append({"k": op.get("k"), "infra": traceback.format_exc()[-800:], "err": type(e).__name__, "digest": "INFRA"})
            else:
                # the implementation raised where the op wrapper did not expect it: a behavioural result like any other
                results.append({"k": op.get("k"), "err": type(e).__name__, "digest": "ERR:" + type(e).__name__,
                                "unexpected": traceback.format_exc()[-600:]})
    rep = {"id": req.get("id"), "seed": os.environ.get("PYTHONHASHSEED"), "results": results}
    if req.get("monitor"):
        if MON.cur is not None:
            MON.end()
        rep["events"] = MON.events
        if req.get("entry"):
            rep["ecalls"] = EMON.calls
        rep["names"] = NAMES.names
        rep["ctrl"] = NAMES.ctrl
    return rep


def serve() -> None:
    shared()
    out = sys.stdout
    for line in sys.stdin:
        line = line.strip()
        if not line:
            continue
        req = json.loads(line)
        if req.get("nofork"):
            rep = run_request(req)
            out.write(json.dumps(rep) + "\n")
            out.flush()
            continue
        r, w = os.pipe()
        pid = os.fork()
        if pid == 0:
            code = 0
            try:
                os.close(r)
                rep = run_request(req)
                data = json.dumps(rep).encode()
                with os.fdopen(w, "wb") as fh:
                    fh.write(data)
            except BaseException:  # noqa: BLE001
                code = 3
                try:
                    traceback.print_exc()
                except Exception:  # noqa: BLE001
                    pass
            finally:
                os._exit(code)
        os.close(w)
        with os.fdopen(r, "rb") as fh:
            data = fh.read()
        _, status = os.waitpid(pid, 0)
        if not data:
            out.write(json.dumps({"id": req.get("id"), "crash": status}) + "\n")
        else:
            out.write(data.decode() + "\n")
        out.flush()


if __name__ == "__main__":
    serve()
